"""C20 - structurally inconsistent specifications are refused, never partly evaluated."""
import copy
import json
import logging

from harness import core, engine

ST = dict(normsys='code4', histosys='code4p')


# ------------------------------------------------------------------------------------------------
# fault injection: every function yields (fault class, position description, faulted (spec, poi))
def faults(spec, poi):
    chans = spec['channels']
    # F1 duplicate channel names
    for i in range(len(chans)):
        for j in range(len(chans)):
            if i != j:
                s2 = copy.deepcopy(spec)
                s2['channels'][j]['name'] = chans[i]['name']
                yield 'dup-channel', 'channel %d renamed to the name of channel %d' % (j, i), s2, poi
    # F2 duplicate sample names inside a channel
    for ci, c in enumerate(chans):
        for i in range(len(c['samples'])):
            for j in range(len(c['samples'])):
                if i != j:
                    s2 = copy.deepcopy(spec)
                    s2['channels'][ci]['samples'][j]['name'] = c['samples'][i]['name']
                    yield 'dup-sample', 'channel %d: sample %d renamed to the name of sample %d' % (ci, j, i), s2, poi
    for ci, c in enumerate(chans):
        nb = len(c['samples'][0]['data'])
        for si, s in enumerate(c['samples']):
            # F3 the same (name, type) twice on one sample with different data
            for mi, m in enumerate(s['modifiers']):
                m2 = copy.deepcopy(m)
                if m['type'] == 'normsys':
                    m2['data'] = {'lo': m['data']['lo'] * 0.5, 'hi': m['data']['hi'] * 1.5}
                elif m['type'] == 'histosys':
                    m2['data'] = {'lo_data': [x * 0.5 for x in m['data']['lo_data']], 'hi_data': [x * 2 + 1 for x in m['data']['hi_data']]}
                elif m['type'] in ('shapesys', 'staterror'):
                    m2['data'] = [x + 1.0 for x in m['data']]
                else:
                    continue
                for pos in range(len(s['modifiers']) + 1):       # every position of the list, adjacent to the original or not
                    s2 = copy.deepcopy(spec)
                    mods = s2['channels'][ci]['samples'][si]['modifiers']
                    mods.insert(pos, m2)
                    between = pos - mi - 1 if pos > mi else mi - pos
                    where = ('after' if pos > mi else 'before') + (', %d modifiers in between' % between if between else '')
                    yield 'dup-modifier', 'channel %d sample %d: %s/%s listed twice (%s) with different data' % (ci, si, m['type'], m['name'], where), s2, poi
            # F4 sample data length differs from the channel's bin count
            if len(c['samples']) > 1:
                for d in (+1, -1):
                    if nb + d >= 1:
                        s2 = copy.deepcopy(spec)
                        smp = s2['channels'][ci]['samples'][si]
                        smp['data'] = (smp['data'] + [1.0])[:nb + d] if d > 0 else smp['data'][:nb + d]
                        # keep the sample's own modifier data consistent with ITS length, the fault is the sample vs channel
                        yield 'sample-length', 'channel %d sample %d has %d bins, channel has %d' % (ci, si, nb + d, nb), s2, poi
            # F5 modifier data length differs
            for mi, m in enumerate(s['modifiers']):
                for d in (+1, -1):
                    if nb + d < 1:
                        continue
                    keys = {'histosys': ['lo_data', 'hi_data', 'both'], 'shapesys': [None], 'staterror': [None]}.get(m['type'], [])
                    for k in keys:
                        s2 = copy.deepcopy(spec)
                        mm = s2['channels'][ci]['samples'][si]['modifiers'][mi]
                        def resize(l):
                            return (l + [1.0])[:nb + d] if d > 0 else l[:nb + d]
                        if k is None:
                            mm['data'] = resize(mm['data'])
                        elif k == 'both':
                            mm['data']['lo_data'] = resize(mm['data']['lo_data'])
                            mm['data']['hi_data'] = resize(mm['data']['hi_data'])
                        else:
                            mm['data'][k] = resize(mm['data'][k])
                        yield 'modifier-data-length', 'channel %d sample %d %s/%s %s has %d entries for %d bins' % (ci, si, m['type'], m['name'], k or 'data', nb + d, nb), s2, poi
    # F4b compensating sample-length errors: one sample a bin too long in one channel and a bin too short in another
    for ci, c in enumerate(chans):
        for cj, c2 in enumerate(chans):
            if ci == cj:
                continue
            for si, s in enumerate(c['samples']):
                for sj, t in enumerate(c2['samples']):
                    if s['name'] == t['name'] and len(t['data']) > 1 and si > 0 and sj > 0:
                        s2 = copy.deepcopy(spec)
                        a = s2['channels'][ci]['samples'][si]
                        b = s2['channels'][cj]['samples'][sj]
                        a['data'] = a['data'] + [b['data'][-1]]
                        b['data'] = b['data'][:-1]
                        for smp in (a, b):       # keep each sample's own modifier data at the sample's new length
                            for m in smp['modifiers']:
                                n = len(smp['data'])
                                if m['type'] == 'histosys':
                                    m['data'] = {k: (v + [v[-1]])[:n] for k, v in m['data'].items()}
                                elif m['type'] in ('shapesys', 'staterror'):
                                    m['data'] = (m['data'] + [m['data'][-1]])[:n]
                        yield 'sample-length', 'sample %s: one bin moved from channel %d to channel %d (total length unchanged)' % (s['name'], cj, ci), s2, poi
    # F5b compensating length errors of one histosys/staterror name across two channels (total length unchanged)
    for ci, c in enumerate(chans):
        for cj, c2 in enumerate(chans):
            if ci == cj:
                continue
            for si, s in enumerate(c['samples']):
                for sj, t in enumerate(c2['samples']):
                    if s['name'] != t['name']:
                        continue
                    for mi, m in enumerate(s['modifiers']):
                        for mj, mm in enumerate(t['modifiers']):
                            if m['type'] == mm['type'] == 'histosys' and m['name'] == mm['name'] and len(mm['data']['lo_data']) > 1:
                                s2 = copy.deepcopy(spec)
                                a = s2['channels'][ci]['samples'][si]['modifiers'][mi]['data']
                                b = s2['channels'][cj]['samples'][sj]['modifiers'][mj]['data']
                                for key in ('lo_data', 'hi_data'):
                                    a[key] = a[key] + [b[key][-1]]
                                    b[key] = b[key][:-1]
                                yield 'modifier-data-length', 'histosys/%s on sample %s: one bin moved from channel %d to channel %d (total length unchanged)' % (m['name'], s['name'], cj, ci), s2, poi
    # F5c the same for one staterror name carried by one sample in two channels (a well-formed shared staterror is set up first)
    for ci, c in enumerate(chans):
        for cj, c2 in enumerate(chans):
            if ci == cj or len(c2['samples'][0]['data']) < 2:
                continue
            for si, smp_i in enumerate(c['samples']):
                for sj, smp_j in enumerate(c2['samples']):
                    if smp_i['name'] != smp_j['name']:
                        continue
                    s2 = copy.deepcopy(spec)
                    for cc in (s2['channels'][ci], s2['channels'][cj]):
                        for smp in cc['samples']:
                            smp['modifiers'] = [m for m in smp['modifiers'] if m['type'] != 'staterror']
                    a, b = s2['channels'][ci]['samples'][si], s2['channels'][cj]['samples'][sj]
                    ua = [1.0 + 0.25 * k for k in range(len(a['data']))]
                    ub = [2.0 + 0.25 * k for k in range(len(b['data']))]
                    a['modifiers'].append({'name': 'stat_shared', 'type': 'staterror', 'data': ua + [ub[-1]]})
                    b['modifiers'].append({'name': 'stat_shared', 'type': 'staterror', 'data': ub[:-1]})
                    s2['parameters'] = [p for p in s2['parameters'] if not p['name'].startswith('staterror')]
                    yield 'modifier-data-length', 'staterror/stat_shared on sample %s: one bin moved from channel %d to channel %d (total length unchanged)' % (
                        smp_i['name'], cj, ci), s2, poi
    # F6 shapefactor shared between channels of different bin counts
    for ci, c in enumerate(chans):
        for cj, c2 in enumerate(chans):
            if ci != cj and len(c['samples'][0]['data']) != len(c2['samples'][0]['data']):
                for si in range(len(c['samples'])):
                    for sj in range(len(c2['samples'])):
                        s2 = copy.deepcopy(spec)
                        for smp in (s2['channels'][ci]['samples'][si], s2['channels'][cj]['samples'][sj]):
                            smp['modifiers'] = [m for m in smp['modifiers'] if m['type'] != 'shapefactor'] + \
                                [{'name': 'sf_shared', 'type': 'shapefactor', 'data': None}]
                        yield 'shared-binwise-size', 'shapefactor sf_shared on channel %d sample %d (%d bins) and channel %d sample %d (%d bins)' % (
                            ci, si, len(c['samples'][0]['data']), cj, sj, len(c2['samples'][0]['data'])), s2, poi
    # F6b a staterror shared by two channels, carried by one sample in both and by another sample in only one of them
    for ci, c in enumerate(chans):
        for cj, c2 in enumerate(chans):
            if ci == cj:
                continue
            common = [s['name'] for s in c['samples'] if any(t['name'] == s['name'] for t in c2['samples'])]
            others = [s['name'] for s in c['samples'] if s['name'] not in common[:1]]
            if common and others:
                s2 = copy.deepcopy(spec)
                for cc in (s2['channels'][ci], s2['channels'][cj]):
                    for smp in cc['samples']:
                        smp['modifiers'] = [m for m in smp['modifiers'] if m['type'] != 'staterror']
                for cc, names in ((s2['channels'][ci], [common[0], others[0]]), (s2['channels'][cj], [common[0]])):
                    for smp in cc['samples']:
                        if smp['name'] in names:
                            smp['modifiers'].append({'name': 'stat_shared', 'type': 'staterror', 'data': [1.0] * len(smp['data'])})
                s2['parameters'] = [p for p in s2['parameters'] if not p['name'].startswith('staterror')]
                yield 'staterror-coverage', 'staterror stat_shared: sample %s has it in channels %d and %d, sample %s only in channel %d' % (
                    common[0], ci, cj, others[0], ci), s2, poi
    # F7 one parameter name with conflicting constraint types / sizes
    names = {}
    for c in chans:
        for s in c['samples']:
            for m in s['modifiers']:
                names.setdefault(m['name'], set()).add(m['type'])
    clash = {'normfactor': ('normsys', {'lo': 0.9, 'hi': 1.1}), 'normsys': ('normfactor', None), 'histosys': ('normfactor', None),
             'shapefactor': ('normfactor', None), 'shapesys': ('normfactor', None), 'staterror': ('normsys', {'lo': 0.9, 'hi': 1.1})}
    for nm, ts in sorted(names.items()):
        for t in sorted(ts):
            if t in clash:
                t2, d2 = clash[t]
                if t2 in ts:
                    continue
                for ci, c in enumerate(chans):
                    for si in range(len(c['samples'])):
                        for front in (False, True):
                            s2 = copy.deepcopy(spec)
                            mods = s2['channels'][ci]['samples'][si]['modifiers']
                            mods.insert(0 if front else len(mods), {'name': nm, 'type': t2, 'data': d2})
                            yield 'conflicting-paramset', 'parameter %s used as %s and as %s (channel %d sample %d, %s of the modifier list)' % (
                                nm, t, t2, ci, si, 'front' if front else 'end'), s2, poi
                break
    # F7b a non-shared (shapesys) name declared on two samples: every ordered pair of places, adjacent in listing order or
    #     separated by any number of unrelated samples, in one channel or across channels
    flat = [(ci, si) for ci, c in enumerate(chans) for si in range(len(c['samples']))]
    base = spec
    places = [(ci, si, m['name']) for ci, c in enumerate(chans) for si, smp in enumerate(c['samples']) for m in smp['modifiers'] if m['type'] == 'shapesys']
    if not places and len(flat) >= 2:          # no shapesys in this spec: give every sample in turn one (a well-formed base), then reuse its name
        places = [(ci, si, None) for ci, si in flat]
    for ci, si, nm in places:
        for cj, sj in flat:
            if (cj, sj) == (ci, si):
                continue
            s2 = copy.deepcopy(base)
            if nm is None:
                a = s2['channels'][ci]['samples'][si]
                a['modifiers'].append({'name': 'shapesys_x', 'type': 'shapesys', 'data': [1.0 + 0.5 * k for k in range(len(a['data']))]})
            b = s2['channels'][cj]['samples'][sj]
            b['modifiers'].append({'name': nm or 'shapesys_x', 'type': 'shapesys', 'data': [2.0 + 0.25 * k for k in range(len(b['data']))]})
            between = abs(flat.index((cj, sj)) - flat.index((ci, si))) - 1
            yield 'nonshared-name-reuse', 'shapesys/%s declared on channel %d sample %d and again on channel %d sample %d (%d samples in between in listing order)' % (
                nm or 'shapesys_x', ci, si, cj, sj, between), s2, poi
    # F7c one name used with two modifier TYPES: every pair of types, on one sample / two samples of a channel / two channels.
    #     Which pairs make conflicting parameter demands is decided by the Coq model (build, proved total): normsys + histosys
    #     on one name is a legal correlated pair, every other pair demands incompatible parameter sets.
    def mod_of(t, name, smp):
        n = len(smp['data'])
        d = {'normsys': {'lo': 0.9, 'hi': 1.1}, 'histosys': {'lo_data': [x * 0.5 for x in smp['data']], 'hi_data': [x * 1.5 + 1 for x in smp['data']]},
             'shapesys': [1.0 + 0.5 * k for k in range(n)], 'staterror': [0.5 + 0.25 * k for k in range(n)]}.get(t)
        return {'name': name, 'type': t, 'data': d}

    def with_lumi_cfg(s2):
        if not any(p['name'] == 'lumi' for p in s2['parameters']):
            s2['parameters'].append(dict(name='lumi', auxdata=[1.0], sigmas=[0.125], inits=[1.0], bounds=[[0.0, 10.0]]))

    def placements():
        # (place of the first use, place of the second use): same sample, two samples of one channel, two channels
        for ci, si in flat:
            yield 'one sample', (ci, si), (ci, si)
        for ci, si in flat:
            for cj, sj in flat:
                if ci == cj and si != sj:
                    yield 'two samples of channel %d' % ci, (ci, si), (cj, sj)
                elif ci != cj:
                    yield 'channels %d and %d' % (ci, cj), (ci, si), (cj, sj)

    # (i) a name the spec already uses, given one more type somewhere
    for nm, ts in sorted(names.items()):
        users = [(ci, si) for ci, c in enumerate(chans) for si, smp in enumerate(c['samples']) if any(m['name'] == nm for m in smp['modifiers'])]
        for t2 in engine.TYPES:
            if t2 in ts or (t2 == 'lumi' and nm != 'lumi'):
                continue
            for cj, sj in flat:
                s2 = copy.deepcopy(spec)
                b = s2['channels'][cj]['samples'][sj]
                b['modifiers'].append(mod_of(t2, nm, b))
                if 'lumi' in (t2,) + tuple(ts):
                    with_lumi_cfg(s2)
                rel = 'a sample already using the name' if (cj, sj) in users else ('another sample of a channel using it' if any(ci == cj for ci, _ in users) else 'another channel')
                yield 'name-collision', 'name %s used as %s and as %s: %s added on channel %d sample %d (%s)' % (nm, '/'.join(sorted(ts)), t2, t2, cj, sj, rel), s2, poi
    # (ii) every pair of types on a fresh name
    for i1, t1 in enumerate(engine.TYPES):
        for t2 in engine.TYPES[i1 + 1:]:
            nm = 'lumi' if 'lumi' in (t1, t2) else 'clash'
            for what, (ci, si), (cj, sj) in placements():
                s2 = copy.deepcopy(spec)
                a, b = s2['channels'][ci]['samples'][si], s2['channels'][cj]['samples'][sj]
                if nm == 'lumi':
                    with_lumi_cfg(s2)
                for smp, t in ((a, t1), (b, t2)):
                    if not any(m['name'] == nm and m['type'] == t for m in smp['modifiers']):
                        smp['modifiers'].append(mod_of(t, nm, smp))
                yield 'name-collision', 'name %s used as %s and as %s: %s (channel %d sample %d / channel %d sample %d)' % (nm, t1, t2, what, ci, si, cj, sj), s2, poi
    # F8 override of the wrong length
    info = engine.par_info(spec)
    for nm, (kind, n) in sorted(info.items()):
        keys = ['inits', 'bounds']
        if kind in ('alpha', 'staterror', 'shapesys', 'lumi'):
            keys.append('auxdata')
        if kind in ('staterror', 'lumi'):
            keys.append('sigmas')
        if kind == 'shapesys':
            keys.append('factors')
        for k in keys:
            for d in (+1, -1) if n > 1 else (+1,):
                s2 = copy.deepcopy(spec)
                ps = [p for p in s2['parameters'] if p['name'] == nm]
                if ps:
                    p = ps[0]
                else:
                    p = {'name': nm}
                    s2['parameters'].append(p)
                p[k] = [[0.0, 5.0]] * (n + d) if k == 'bounds' else [1.0] * (n + d)
                yield 'override-length', 'parameter %s (%d components): %s with %d entries' % (nm, n, k, n + d), s2, poi
    # F9 undefined POI
    yield 'undefined-poi', 'poi_name is not a parameter of the model', copy.deepcopy(spec), 'no_such_parameter'
    for nm, (kind, n) in sorted(info.items()):
        if n > 1:
            yield 'undefined-poi', 'poi_name %s has %d components' % (nm, n), copy.deepcopy(spec), nm
            break
    # F10 lumi modifier without lumi settings
    has_lumi = any(m['type'] == 'lumi' for c in spec['channels'] for s in c['samples'] for m in s['modifiers'])
    for ci, si in ([(None, None)] if has_lumi else flat):
        s2 = copy.deepcopy(spec)
        s2['parameters'] = [p for p in s2['parameters'] if p['name'] != 'lumi']
        if not has_lumi:
            s2['channels'][ci]['samples'][si]['modifiers'].append({'name': 'lumi', 'type': 'lumi', 'data': None})
        at = '' if has_lumi else ' (lumi modifier on channel %d sample %d)' % (ci, si)
        yield 'lumi-without-settings', 'lumi modifier, no parameter configuration for lumi' + at, s2, poi
        for drop in ('auxdata', 'sigmas', 'inits', 'bounds'):
            s3 = copy.deepcopy(s2)
            s3['parameters'].append({k: v for k, v in dict(name='lumi', auxdata=[1.0], sigmas=[0.1], inits=[1.0], bounds=[[0.0, 10.0]]).items() if k != drop})
            yield 'lumi-without-settings', 'lumi parameter configuration%s lacks %s' % (at, drop), s3, poi


# classes whose members are not inconsistent by construction: whether the two demands on one name conflict is decided by the
# Coq model (Impl.build, proved total in WfTotal.v), evaluated on the very spec
MODEL_DECIDED = ('name-collision', 'nonshared-name-reuse')


def stratum(cls, where):
    """quick tier: positions are sampled per (class, stratum); separated (non-adjacent) positions are a stratum of their own"""
    import re
    m = re.search(r'(\d+) (?:samples|modifiers) in between', where)
    if m and int(m.group(1)) > 0:
        return 'separated'
    if 'total length unchanged' in where:
        return 'compensating'
    if cls == 'name-collision':
        m = re.search(r'used as (\S+) and as (\S+):', where)
        return '+'.join(sorted([m.group(1), m.group(2)])) if m else ''
    return ''


def load_corpus():
    import glob, os
    out = []
    if os.environ.get('VERIF_NO_CORPUS'):        # (testing the generator alone)
        return out
    for f in sorted(glob.glob(os.path.join(core.VERIF, 'corpus', 'C20', '*.json'))):
        out.append(json.load(open(f)))
    return out


def outcome(spec, poi):
    import pyhf
    try:
        pyhf.schema.validate(spec, 'model.json')
    except Exception as e:
        return 'schema:' + core.exc_enum(e), ''
    try:
        m = engine.impl_build(spec, poi, ST)
    except Exception as e:
        return core.exc_enum(e), str(e)[:160]
    return 'accepted', ''


def classify(o):
    if o == 'accepted':
        return 'accepted'
    if o.startswith('schema:'):
        return 'schema'
    return 'pyhf-exception' if core.is_pyhf_exc(o) else 'python-exception'


def run(ctx):
    import pyhf
    logging.getLogger('pyhf').setLevel(logging.CRITICAL)
    pyhf.set_backend('numpy')
    rng = ctx.rng
    ok, txt = core.prove(ctx, extra=['EngineRun.vo'])
    tie = None if ok else 'proof obligations of props/C20.v no longer check: ' + txt[-1500:]
    nspecs = ctx.n(14, 120)
    found = False
    cases = []
    per_class = {}
    for k in range(nspecs):
        spec, poi = engine.gen_spec(rng, size=rng.choice([2, 2, 3]) if k % 3 else None)
        o, msg = outcome(spec, poi)
        if o != 'accepted':
            ctx.violation('wellformed-refused:' + o, 'well-formed specification refused: ' + msg, dict(spec=spec, poi=poi))
            found = True
            continue
        fl = list(faults(spec, poi))
        # quick: every class, at most a few positions of each (class, stratum) per spec; thorough: every position
        if ctx.quick:
            bycls = {}
            for f in fl:
                bycls.setdefault((f[0], stratum(f[0], f[1])), []).append(f)
            fl = [f for (cl, stm), lst in bycls.items() for f in rng.sample(lst, min(len(lst), 1 if cl == 'name-collision' and '+' in stm else 4))]
        else:
            bycls = {}
            for f in fl:
                bycls.setdefault((f[0], stratum(f[0], f[1])), []).append(f)
            fl = [f for (cl, stm), lst in bycls.items() for f in (rng.sample(lst, min(len(lst), 6)) if cl == 'name-collision' else lst)]
        for cls, where, s2, p2 in fl:
            cases.append(dict(cls=cls, where=where, spec=s2, poi=p2, base=k))
    # corpus: minimized past failures, first
    corpus = load_corpus()
    cases = [dict(cls=c['fault'], where=c['where'], spec=c['spec'], poi=c.get('poi'), base=-1 - i) for i, c in enumerate(corpus)] + cases
    if not ctx.quick:
        # pairs of faults: second fault injected into an already faulted spec
        extra = []
        for c in rng.sample(cases, min(len(cases), 300)):
            fl = list(faults(c['spec'], c['poi']))
            if fl:
                cls, where, s2, p2 = rng.choice(fl)
                extra.append(dict(cls=c['cls'] + '+' + cls, where=c['where'] + ' ; ' + where, spec=s2, poi=p2, base=c['base']))
        cases += extra
    exprs = []
    for c in cases:
        c['impl'], c['msg'] = outcome(c['spec'], c['poi'])
        exprs.append('run_build %s' % engine.spec_to_coq(c['spec'], c['poi']))
    try:
        res = core.coq_eval(ctx, 'faults', engine.HEADER, exprs, shard=60)
    except core.CoqEvalError as e:
        res = None
        tie = tie or ('model evaluation failed: ' + str(e)[-1200:])
    ndis = 0
    seen = set()
    for i, c in enumerate(cases):
        st = per_class.setdefault(c['cls'].split('+')[0], dict(n=0, refused=0, accepted=0, python_exception=0))
        st['n'] += 1
        cl = classify(c['impl'])
        if cl == 'schema':
            continue
        st['refused' if cl == 'pyhf-exception' else cl.replace('-', '_')] += 1
        mo = core.parse_qc(res[i]) if res is not None else None
        mcl = None if mo is None else 'accepted' if mo == 'ok' else ('python-exception' if mo.startswith('Py') else 'pyhf-exception')
        # name sharing is inconsistent exactly when the model refuses it (a legal pair, e.g. normsys + histosys, must be accepted)
        legal = c['cls'].split('+')[0] in MODEL_DECIDED and mcl != 'pyhf-exception'
        if legal:
            st['legal'] = st.get('legal', 0) + 1
        if cl != 'pyhf-exception' and not legal:
            base = c['cls'].split('+')[0]
            detail = ''
            if base == 'name-collision':
                detail = ':' + stratum(base, c['where'])
            if base == 'nonshared-name-reuse':
                detail = ':separated' if stratum(base, c['where']) == 'separated' else ':adjacent'
            if base in ('modifier-data-length', 'sample-length') and 'total length unchanged' in c['where']:
                detail = ':compensating-staterror' if 'staterror/' in c['where'] else ':compensating'
            if base == 'lumi-without-settings' and 'lacks' in c['where']:
                detail = ':' + c['where'].split()[-1]
            if base == 'override-length':
                detail = ':lumi' if 'parameter lumi' in c['where'] else ''
            if base == 'dup-modifier':
                detail = ':' + c['where'].split(': ')[1].split('/')[0]
            sig = '%s:%s%s' % (base, cl, detail)
            ctx.violation(sig, 'inconsistent specification (%s: %s) is %s' % (c['cls'], c['where'], 'accepted as a model' if cl == 'accepted' else 'rejected with %s (%s)' % (c['impl'], c['msg'])),
                          dict(fault=c['cls'], where=c['where'], spec=c['spec'], poi=c['poi'], impl=c['impl'],
                               expected='one of pyhf\'s own exception types' + (' (Coq model of build: %s)' % mo if mo else ''),
                               theorem='C20_refused_with_pyhf_exception'))
        if res is not None:
            agree = (mcl == cl) and (cl != 'pyhf-exception' or mo == c['impl'] or True)
            if not agree:
                ndis += 1
                if ndis <= 1:
                    ctx.coverage['first_disagreement'] = dict(fault=c['cls'], where=c['where'], spec=c['spec'], poi=c['poi'], impl=c['impl'], model=mo)
                    tie = tie or 'model and implementation disagree on a faulted spec: %s: impl %s, model %s' % (c['where'], c['impl'], mo)
        seen.add((c['cls'], c['base'], c['where'].split(':')[0][:40]))
    found = found or bool(ctx.violations)
    if tie and not found:
        ctx.violation('tie-broken', tie[:300], dict(kind='tie', detail=tie, theorem='props/C20.v / Impl.build correspondence',
                                                     first_disagreement=ctx.coverage.get('first_disagreement')), nofail=True)
    ctx.coverage.update(evaluations=len(cases), distinct_nontrivial=len(seen), per_class=per_class, model_impl_disagreements=ndis,
                        rule='corpus, then well-formed generated specs (accepted, checked) x every single structural fault of the listed classes at '
                             'every applicable position, adjacent or separated by unrelated items (duplicate inserted at every list position; a '
                             'non-shared shapesys name reused on every other sample of the spec; one name with every pair of the seven modifier '
                             'types on one sample / two samples / two channels, legality decided by the Coq model of build; quick: <=4 positions '
                             'per class, stratum (adjacent/separated) and spec, one per type pair; thorough: all positions + random pairs); outcome of '
                             'pyhf.Model(spec, poi_name=...) after schema validation: accepted / pyhf exception / other exception; compared with '
                             'Impl.build evaluated in Coq. distinct = (class, base spec, position)',
                        samples=[dict(fault=c['cls'], where=c['where'], impl=c['impl']) for c in cases[:4]])


def replay(body):
    print(outcome(body['spec'], body['poi']))
    return 0
