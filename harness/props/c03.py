"""C03 - interpolation codes 0, 1, 2, 4, 4p realise their piecewise functions for all alpha.

run(ctx):
  1. translate  `_slow_code*.summand/product` and the `A_inverse` literal of the vectorised code 4 (python ast ->
     coq/gen/InterpGen.v, harness/props/c03_translate.py, fail closed)
  2. prove      props/C03.v (anchors, continuity, C1/C2, extrapolation, fast = slow, history independence)
  3. correspond every value the real interpolators return (vectorised and scalar classes, numpy + other backends,
                single calls and call histories on one instance) is compared with the model evaluated inside Coq:
                codes 0, 2, 4p exactly over Qc (vm_compute; translated scalar definition AND hand model of the
                vectorised code), codes 1, 4 by `interval` goals about the real-number instance of the translated
                definition; the state machine of the shape cache is executed in Coq on the same call histories
  4. decide     the property itself (published formulas, evaluated independently: exact rationals / mpmath with the
                6x6 system solved numerically) is evaluated on the implementation on a targeted sweep
  5. evidence
"""
import json
import math
import os
import time
from concurrent.futures import ThreadPoolExecutor
from fractions import Fraction

from harness import core, facts
from harness.props import c03_translate

CODES = ['0', '1', '2', '4', '4p']
ADDITIVE = ('0', '2', '4p')
F = Fraction


# =========================================================================================
# the property's reference side: the published formulas, evaluated independently of pyhf
# =========================================================================================
def ref_exact(code, lo, nom, hi, al):
    lo, nom, hi, al = F(lo), F(nom), F(hi), F(al)
    if code == '0':
        return al * (hi - nom) if al >= 0 else al * (nom - lo)
    if code == '2':
        a = (hi + lo) / 2 - nom
        b = (hi - lo) / 2
        if al > 1:
            return (b + 2 * a) * (al - 1) + (a + b)
        if al < -1:
            return (b - 2 * a) * (al + 1) + (a - b)
        return a * al * al + b * al
    if code == '4p':
        du, dd = hi - nom, nom - lo
        if al > 1:
            return du * al
        if al < -1:
            return dd * al
        S, A = (du + dd) / 2, (du - dd) / 16
        return al * S + A * (15 * al ** 2 - 10 * al ** 4 + 3 * al ** 6)
    raise ValueError(code)


_coef_cache = {}


def code4_coefficients(a0, lo, nom, hi):
    import mpmath
    key = (float(a0), float(lo), float(nom), float(hi))
    if key in _coef_cache:
        return _coef_cache[key]
    a0, lo, nom, hi = (mpmath.mpf(x) for x in key)
    du, dd = hi / nom, lo / nom
    A = mpmath.matrix(6, 6)
    for j in range(6):
        k = j + 1
        A[0, j] = a0 ** k
        A[1, j] = (-a0) ** k
        A[2, j] = k * a0 ** (k - 1)
        A[3, j] = k * (-a0) ** (k - 1)
        A[4, j] = k * (k - 1) * a0 ** (k - 2) if k >= 2 else 0
        A[5, j] = k * (k - 1) * (-a0) ** (k - 2) if k >= 2 else 0
    lu, ld = mpmath.log(du), mpmath.log(dd)
    eu, ed = du ** a0, dd ** a0
    b = mpmath.matrix([eu - 1, ed - 1, lu * eu, -ld * ed, lu ** 2 * eu, ld ** 2 * ed])
    x = mpmath.lu_solve(A, b)
    _coef_cache[key] = [x[j] for j in range(6)]
    return _coef_cache[key]


def ref_mp(code, a0, lo, nom, hi, al):
    """codes 1 and 4 at 45 digits; the code-4 coefficients come from solving the six boundary conditions numerically"""
    import mpmath
    mpmath.mp.dps = 45
    lo, nom, hi, al = (mpmath.mpf(float(x)) for x in (lo, nom, hi, al))
    du, dd = hi / nom, lo / nom
    if code == '1':
        return du ** al if al >= 0 else dd ** (-al)
    a0 = mpmath.mpf(float(a0))
    if al >= a0:
        return du ** al
    if al <= -a0:
        return dd ** (-al)
    x = code4_coefficients(a0, lo, nom, hi)
    return 1 + sum(x[j] * al ** (j + 1) for j in range(6))


def mp_to_frac(r):
    import mpmath
    return F(mpmath.nstr(r, 38, strip_zeros=False, min_fixed=0, max_fixed=0))


_ref_cache = {}


def reference(code, a0, lo, nom, hi, al):
    key = (code, float(a0), float(lo), float(nom), float(hi), float(al))
    if key not in _ref_cache:
        if code in ADDITIVE:
            _ref_cache[key] = ref_exact(code, lo, nom, hi, al)
        else:
            _ref_cache[key] = mp_to_frac(ref_mp(code, a0, lo, nom, hi, al))
    return _ref_cache[key]


def scale_of(code, a0, lo, nom, hi, al, ref, v):
    m = max(abs(float(ref)), abs(v))
    if code in ADDITIVE:
        return max(m, (abs(lo) + abs(nom) + abs(hi)) * max(1.0, abs(al)))
    return m * (1.0 + abs(al) * (abs(math.log(hi / nom)) + abs(math.log(lo / nom))))


def agrees(code, a0, lo, nom, hi, al, ref, v, rtol):
    if v != v or v in (float('inf'), float('-inf')):
        return False
    return abs(F(v) - ref) <= F(rtol) * F(scale_of(code, a0, lo, nom, hi, al, ref, v)) + F(1, 10 ** 300)


# =========================================================================================
# driving pyhf
# =========================================================================================
_state = {'backend': None}


def set_backend(name, prec):
    import pyhf
    if _state['backend'] != (name, prec):
        pyhf.set_backend(name, precision=prec)
        _state['backend'] = (name, prec)


def to_pyhf_sets(hs):
    return [[[[t[0] for t in histo], [t[1] for t in histo], [t[2] for t in histo]] for histo in hset] for hset in hs]


def make_interp(code, a0, hs, fast):
    import pyhf
    cls = pyhf.interpolators.get(int(code) if code != '4p' else '4p', do_tensorized_calc=fast)
    if code == '4' and a0 is not None and a0 != 1:
        return cls(to_pyhf_sets(hs), alpha0=a0)
    return cls(to_pyhf_sets(hs))


def call_interp(interp, alphas):
    import pyhf
    tl = pyhf.tensorlib
    out = interp(tl.astensor(alphas))
    return tl.tolist(out)


def run_batch(b, backend, prec, fast):
    """b: dict(code, a0, hs, calls=[alphasets...], switch=[None | (backend, prec) before call k]) -> list of results"""
    set_backend(backend, prec)
    interp = make_interp(b['code'], b['a0'], b['hs'], fast)
    out = []
    for k, alphas in enumerate(b['calls']):
        sw = (b.get('switch') or [None] * len(b['calls']))[k]
        if sw is not None:
            set_backend(*sw)
        out.append(call_interp(interp, alphas))
    return out


def cells(b, results):
    """yield (lo, nom, hi, alpha, value, call index) for every cell of every call of a batch"""
    for k, (alphas, res) in enumerate(zip(b['calls'], results)):
        for s, hset in enumerate(b['hs']):
            for h, histo in enumerate(hset):
                for a, al in enumerate(alphas[s]):
                    for bi, t in enumerate(histo):
                        yield t[0], t[1], t[2], al, res[s][h][a][bi], k


# =========================================================================================
# generators
# =========================================================================================
def f32(x):
    import numpy as np
    return float(np.float32(x))


def nxt(x, n, single=False):
    import numpy as np
    for _ in range(abs(n)):
        if single:
            x = float(np.nextafter(np.float32(x), np.float32(np.inf if n > 0 else -np.inf)))
        else:
            x = math.nextafter(x, math.inf if n > 0 else -math.inf)
    return x


def gen_triples(rng, n, single=False):
    out = [(1.0, 2.0, 4.0), (0.5, 1.0, 1.5)] if rng.random() < 0.3 else []
    kinds = ['ordered', 'lo_gt_nom', 'hi_lt_nom', 'flat', 'both_above', 'both_below', 'wide', 'near', 'one_sided_up', 'one_sided_down']
    off = rng.randrange(len(kinds))
    while len(out) < n:
        kind = kinds[(len(out) + off) % len(kinds)]
        nom = rng.choice([1.0, 2.0, 10.0, 0.25]) if rng.random() < 0.4 else rng.uniform(0.1, 50.0)
        r1, r2 = rng.uniform(0.02, 0.6), rng.uniform(0.02, 0.6)
        if kind == 'ordered':
            t = (nom * (1 - r1), nom, nom * (1 + r2))
        elif kind == 'lo_gt_nom':
            t = (nom * (1 + r1), nom, nom * (1 + r1 + r2))
        elif kind == 'hi_lt_nom':
            t = (nom * (1 - r1) * (1 - r2), nom, nom * (1 - r1))
        elif kind == 'flat':
            t = (nom, nom, nom)
        elif kind == 'one_sided_up':          # the down variation IS the nominal (zero slope on one side only)
            t = (nom, nom, nom * (1 + r2) if rng.random() < 0.7 else nom * (1 - r2))
        elif kind == 'one_sided_down':        # the up variation IS the nominal
            t = (nom * (1 - r1) if rng.random() < 0.7 else nom * (1 + r1), nom, nom)
        elif kind == 'both_above':
            t = (nom * (1 + r1 + r2), nom, nom * (1 + r1))
        elif kind == 'both_below':
            t = (nom * (1 - r1), nom, nom * (1 - r1) * (1 - r2))
        elif kind == 'wide':
            t = (nom * rng.uniform(0.05, 0.3), nom, nom * rng.uniform(2.5, 6.0))
        else:
            t = (nom * (1 - 1e-6 * rng.random()), nom, nom * (1 + 1e-6 * rng.random()))
        if single:
            t = tuple(f32(x) for x in t)
        if min(t) > 0:
            out.append(t)
    return out[:n]


def gen_alphas(rng, code, a0, n_random, single=False, denormals=True):
    bps = [0.0, 1.0, -1.0]
    if code == '4' and a0 != 1:
        bps += [a0, -a0]
    out = []
    for bp in bps:
        if bp == 0.0 and (code not in ('0', '1') or not denormals):
            # 0 is a breakpoint of codes 0 and 1 only; elsewhere tiny (not denormal) values instead of its ulp neighbours
            out += [0.0, 2.0 ** -30, -2.0 ** -30, 2.0 ** -20, -2.0 ** -20]
            continue
        out += [bp] + [nxt(bp, k, single) for k in ((1, -1) if single or bp == 0.0 else (1, 2, -1, -2))]
    core_hi = a0 if code == '4' else 1.0
    for _ in range(n_random):
        out.append(rng.uniform(-core_hi, core_hi))
        out.append(rng.choice([-1, 1]) * rng.uniform(core_hi, 6.0))
    out += [2.0, -2.0, 3.0, -3.0, rng.choice([7.5, -7.5, 12.0, -12.0]), rng.choice([1e-3, -1e-3, 1e-9, -1e-9])]
    if single:
        out = [f32(x) for x in out]
    return out


def point_batches(rng, size, n_random, single=False):
    """one batch per code (and one extra for code 4 with a non-default alpha0): `size[code] = (nsets, triples per set)`;
    every set has its own triples (as histograms x bins) and its own row of alphas"""
    out = []
    for code in CODES:
        variants = [(1, size[code])]
        if code == '4' and size.get('4x'):
            variants.append((rng.choice([0.5, 2, 1.5, 0.75]), size['4x']))
        for a0, (nsets, per_set) in variants:
            hs, rows = [], []
            for _ in range(nsets):
                ts = gen_triples(rng, per_set, single)
                rng.shuffle(ts)
                if per_set % 2 or per_set < 2:
                    hs.append([[t] for t in ts])                # per_set histograms of one bin
                else:
                    hs.append([ts[:per_set // 2], ts[per_set // 2:]])
                rows.append(gen_alphas(rng, code, float(a0), n_random, single, denormals=not rows))
            m = min(len(r) for r in rows)
            rows = [r[:m] for r in rows]
            out.append(dict(code=code, a0=a0, hs=hs, calls=[rows], kind='points'))
    return out


def history_batches(rng, n, other_backends):
    """call sequences with different alpha-set shapes (and backend changes) on one instance; alphas chosen so that the
    state machine can be executed exactly in Qc for every code (integers outside the core for the power codes)"""
    out = []
    for i in range(n):
        code = CODES[i % len(CODES)]
        a0 = 1
        nsets = rng.choice([1, 2, 3])
        hs = []
        nh, nb = rng.choice([(1, 1), (1, 2), (2, 2), (2, 1)])
        for _ in range(nsets):
            ts = gen_triples(rng, 5)
            hs.append([[ts[(h * nb + b) % len(ts)] for b in range(nb)] for h in range(nh)])
        ncalls = rng.choice([2, 3, 4])
        shapes = [rng.choice([1, 1, 2, 3, 5]) for _ in range(ncalls)]
        if len(set(shapes)) == 1:
            shapes[-1] = shapes[0] + 1
        if code in ('1', '4'):
            pool = [1.0, 2.0, 3.0, -1.0, -2.0, -3.0, 4.0, -5.0]
        else:
            pool = [0.0, 1.0, -1.0, 0.5, -0.5, 2.0, -2.0, 0.25, 1.5, -1.5, 3.0, -0.75, nxt(1.0, 1), nxt(-1.0, -1)]
        calls = [[[rng.choice(pool) for _ in range(na)] for _ in range(nsets)] for na in shapes]
        switch = [None] * ncalls
        if other_backends and rng.random() < 0.5:
            k = rng.randrange(1, ncalls)
            switch[k] = rng.choice(other_backends)
            if k + 1 < ncalls and rng.random() < 0.5:
                switch[k + 1] = ('numpy', '64b')
        out.append(dict(code=code, a0=a0, hs=hs, calls=calls, switch=switch, kind='history'))
    return out


# =========================================================================================
# the model, evaluated inside Coq
# =========================================================================================
QC_HEADER = '''From Coq Require Import ZArith QArith Qcanon List.
Require Import PV.Num PV.TNum PV.Run PV.InterpFast%s.
Import ListNotations.
Definition q4 (t : list (list (list (list Qc)))) := map (map (map (map qout))) t.
'''


def q(x):
    return core.q(x)


def fn(code, which):
    return '%s_code%s QcT' % (which, code)


def qc_point_expr(key, have_gen):
    code, a0, lo, nom, hi, al = key
    args = ('%s ' % q(a0) if code == '4' else '') + ' '.join(q(x) for x in (lo, nom, hi, al))
    fast = 'qout (%s %s)' % (fn(code, 'fast'), args)
    slow = 'qout (%s %s)' % (fn(code, 'slow'), args) if have_gen else fast
    return '(%s, %s)' % (slow, fast)


CELL = {'0': ('(fast0_cell QcT)', '(no_base QcT)', '(no_base QcT)'),
        '1': ('(fast1_cell QcT)', '(deltas_up_mul QcT)', '(deltas_dn_mul QcT)'),
        '2': ('(fast2_cell QcT)', '(no_base QcT)', '(no_base QcT)'),
        '4': ('(fast4_cell QcT %s)', '(deltas_up_mul QcT)', '(deltas_dn_mul QcT)'),
        '4p': ('(fast4p_cell QcT)', '(no_base QcT)', '(no_base QcT)')}


def qc_history_expr(b, upto):
    """result of call number `upto` after the earlier calls / backend changes of the batch, from the state machine"""
    cell, dup, ddn = CELL[b['code']]
    if b['code'] == '4':
        cell = cell % q(b['a0'])
    hs = core.clist(b['hs'], lambda hset: core.clist(hset, lambda histo: core.clist(histo, lambda t: '(%s, %s, %s)' % (q(t[0]), q(t[1]), q(t[2])))))
    evs = []
    sw = b.get('switch') or [None] * len(b['calls'])
    for k in range(upto):
        if sw[k] is not None:
            evs.append('EvBackendChanged QcT')
        evs.append('EvCall QcT %s' % core.clist(b['calls'][k], core.qlist))
    if sw[upto] is not None:
        evs.append('EvBackendChanged QcT')
    al = core.clist(b['calls'][upto], core.qlist)
    return 'q4 (snd (call QcT %s %s %s %s (run QcT %s %s %s %s %s) %s))' % (cell, dup, ddn, hs, cell, dup, ddn, hs, core.clist(evs), al)


def _sha(path):
    import hashlib
    try:
        return hashlib.sha256(open(path, 'rb').read()).hexdigest()
    except OSError:
        return 'missing'


def _load_cache(name):
    path = os.path.join(core.WORK, 'cache-C03', name + '.json')
    try:
        return path, (json.load(open(path)) if os.environ.get('VERIF_NO_CACHE') != '1' else {})
    except (OSError, ValueError):
        return path, {}


def _save_cache(path, cache):
    try:
        os.makedirs(os.path.dirname(path), exist_ok=True)
        if len(cache) > 100000:
            cache = {}
        tmp = path + '.%d.tmp' % os.getpid()
        json.dump(cache, open(tmp, 'w'))
        os.replace(tmp, path)
    except OSError:
        pass


def cached_eval(ctx, name, header, exprs, shard):
    """core.coq_eval with results cached by sha256(expression text, header, every .v the expression depends on):
    vm_compute of identical text against identical definitions gives the identical normal form."""
    import hashlib
    dep = '|'.join(_sha(os.path.join(core.COQ, p)) for p in ('Num.v', 'TNum.v', 'Run.v', 'InterpFast.v', 'gen/InterpGen.v')) + header
    path, cache = _load_cache(name)
    hs = [hashlib.sha256((dep + e).encode()).hexdigest() for e in exprs]
    todo = [i for i, h in enumerate(hs) if h not in cache]
    ctx.coverage[name + '_cached'] = len(exprs) - len(todo)
    if todo:
        res = core.coq_eval(ctx, name, header, [exprs[i] for i in todo], shard=max(6, len(todo) // (2 * core.NCPU) + 1) if shard is None else shard)
        for i, r in zip(todo, res):
            cache[hs[i]] = r
        _save_cache(path, cache)
    return [cache[h] for h in hs]


def rlit(x):
    f = core.frac(x)
    if f.denominator == 1:
        return '(%d)' % f.numerator
    return '(%d / %d)' % (f.numerator, f.denominator)


IV_HEADER = '''From Coq Require Import ZArith Reals Lra Bool List.
From Interval Require Import Tactic.
Require Import PV.Num PV.TNum PV.gen.InterpGen.
Local Open Scope R_scope.
Ltac prep := cbv zeta; rsimp; cmp; cbn [andb]; rpow_res.
Goal True.
'''


def interval_goal(i, key, ref, eps):
    code, a0, lo, nom, hi, al = key
    args = ('%s ' % rlit(a0) if code == '4' else '') + ' '.join(rlit(x) for x in (lo, nom, hi, al))
    return ('tryif (assert (Rabs (slow_code%s RT %s - %s) <= %s) by (unfold slow_code%s; prep; interval with (i_prec 70))) '
            'then idtac "C03OK %d" else idtac "C03FAIL %d".\n' % (code, args, rlit(ref), rlit(eps), code, i, i))


def run_interval(ctx, items, per_file=12):
    """items: list of (key, ref Fraction).  Returns dict index -> 'ok' | 'fail' | 'error'.
    Verdicts are cached under .work/cache-C03 keyed by the sha256 of (goal text, header, TNum.v, Num.v, gen/InterpGen.v):
    identical text checked against identical definitions has the identical verdict."""
    import hashlib
    d = os.path.join(ctx.work, 'interval')
    os.makedirs(d, exist_ok=True)
    dep = '|'.join(_sha(os.path.join(core.COQ, p)) for p in ('Num.v', 'TNum.v', 'gen/InterpGen.v')) + IV_HEADER
    cpath, cache = _load_cache('interval')
    goal_text, hashes, cached = {}, {}, {}
    for i, (key, ref) in enumerate(items):
        eps = max(abs(ref), F(1, 10 ** 30)) / 10 ** 13
        goal_text[i] = interval_goal(0, key, ref, eps)
        hashes[i] = hashlib.sha256((dep + goal_text[i]).encode()).hexdigest()
        if cache.get(hashes[i]) == 'ok':
            cached[i] = 'ok'
    ctx.coverage['interval_cached'] = len(cached)
    todo = [i for i in range(len(items)) if i not in cached]
    full_items = items
    res_all = dict(cached)
    if not todo:
        return res_all
    files = []
    items = [full_items[i] for i in todo]
    # spread the expensive goals (code-4 core) evenly
    order = sorted(range(len(items)), key=lambda i: (items[i][0][0] == '4' and abs(items[i][0][5]) < items[i][0][1], i))
    nfiles = max(1, (len(items) + per_file - 1) // per_file)
    groups = [order[k::nfiles] for k in range(nfiles)]
    for k, g in enumerate(groups):
        fnm = os.path.join(d, 'iv_%d.v' % k)
        with open(fnm, 'w') as f:
            f.write(IV_HEADER)
            for i in g:
                key, ref = items[i]
                eps = max(abs(ref), F(1, 10 ** 30)) / 10 ** 13
                f.write(interval_goal(i, key, ref, eps))
            f.write('exact I.\nQed.\n')
        files.append((fnm, g))
    res = {}

    def one(arg):
        fnm, g = arg
        rc, out = core.coqc(fnm, timeout=900)
        r = {}
        for line in out.split('\n'):
            line = line.strip()
            if line.startswith('C03OK '):
                r[int(line.split()[1])] = 'ok'
            elif line.startswith('C03FAIL '):
                r[int(line.split()[1])] = 'fail'
        for i in g:
            r.setdefault(i, 'error:' + out[-300:] if rc != 0 else 'error:no verdict')
        if rc != 0:    # a file that does not check certifies nothing
            r = {i: ('error:' + out[-300:]) if v == 'ok' else v for i, v in r.items()}
        return r
    with ThreadPoolExecutor(max_workers=core.NCPU) as ex:
        for r in ex.map(one, files):
            res.update(r)
    for j, i in enumerate(todo):
        res_all[i] = res.get(j, 'error:no verdict')
        if res_all[i] == 'ok':
            cache[hashes[i]] = 'ok'
    _save_cache(cpath, cache)
    return res_all


# =========================================================================================
# property-directed search on the implementation (always run; the only source of concrete violations)
# =========================================================================================
SEARCH_TRIPLES = [(1.0, 2.0, 4.0), (0.5, 1.0, 1.5), (3.0, 2.0, 1.0), (1.0, 1.0, 1.0), (2.0, 1.0, 3.0),
                  (3.0, 5.0, 4.0), (0.125, 8.0, 64.0), (9.5, 10.0, 10.25), (30.0, 30.0, 33.0), (17.0, 20.0, 20.0)]


def region(code, a0, al):
    if al == 0:
        return 'anchor0'
    if al == 1:
        return 'anchor+1'
    if al == -1:
        return 'anchor-1'
    if code == '4':
        return 'extrapolation' if abs(al) >= a0 else 'core-value'
    return 'extrapolation' if abs(al) > 1 else 'core-value'


def classify(code, a0, t, al, v, ref, f_at):
    """signature kind of a value mismatch at (t, al): continuity when the function itself jumps at the adjacent breakpoint,
    else the region of alpha"""
    reg = region(code, a0, al)
    bps = [0.0, 1.0, -1.0] + ([a0, -a0] if code == '4' else [])
    for bp in bps:
        if al != bp and abs(al - bp) <= 4 * abs(math.ulp(bp) if bp else 5e-324):
            vb = f_at(bp)
            if vb is not None and abs(v - vb) > 1e-6 * max(1.0, abs(vb), abs(v)):
                return 'continuity@%+g' % bp
    return reg


def search(ctx, stats):
    """sweep breakpoints, their neighbours and both extrapolation sides on simple triples first; report the first
    failing input per signature (simple inputs come first, so this is already the shrunk form)"""
    rng = ctx.rng
    set_backend('numpy', '64b')
    found = 0
    triples = SEARCH_TRIPLES + gen_triples(rng, ctx.n(4, 40))
    for code in CODES:
        for a0 in ([1] if code != '4' else [1, 0.5, 2]):
            alphas = [2.0, -2.0, 0.0, 1.0, -1.0, 0.5, -0.5, 3.0, -3.0, 1.5, -1.5, 0.25, -0.25, 10.0, -10.0]
            for bp in [0.0, 1.0, -1.0] + ([float(a0), -float(a0)] if code == '4' and a0 != 1 else []):
                alphas += [nxt(bp, k) for k in (1, 2, -1, -2)]
            alphas += [k / 8.0 for k in range(-40, 41) if k / 8.0 not in alphas]
            if code == '4' and a0 != 1:
                alphas += [float(a0), -float(a0)]
            hs = [[triples]]
            b = dict(code=code, a0=a0, hs=hs, calls=[[alphas]])
            vals = {}
            for fast in (True, False):
                path = 'fast' if fast else 'slow'
                try:
                    res = run_batch(b, 'numpy', '64b', fast)[0][0][0]
                except Exception as e:
                    ctx.violation('code%s:%s:raises' % (code, path), 'interpolator raises %s on positive triples' % core.exc_enum(e),
                                  dict(kind='point', code=code, alpha0=a0, path=path, backend='numpy', precision='64b', triple=list(triples[0]),
                                       alpha=alphas[0], impl=core.exc_enum(e) + ': ' + str(e)[:200], expected='a value', theorem='C03'))
                    found += 1
                    continue
                vals[path] = res
                for ti, t in enumerate(triples):
                    def f_at(x, ti=ti, res=res):
                        return res[alphas.index(x)][ti] if x in alphas else None
                    for ai, al in enumerate(alphas):
                        v = res[ai][ti]
                        ref = reference(code, a0, t[0], t[1], t[2], al)
                        stats['search_evaluations'] += 1
                        if not agrees(code, a0, t[0], t[1], t[2], al, ref, v, 1e-9):
                            kind = classify(code, a0, t, al, v, ref, f_at)
                            thm = {'anchor0': 'anchors', 'anchor+1': 'anchors', 'anchor-1': 'anchors', 'extrapolation': 'beyond',
                                   'core-value': 'core formula'}.get(kind, 'continuous')
                            ctx.violation('code%s:%s:%s' % (code, path, kind),
                                          'code %s (%s) at alpha=%r on (down, nom, up)=%r returns %r, the published formula gives %.17g'
                                          % (code, path, al, t, v, float(ref)),
                                          dict(kind='point', code=code, alpha0=a0, path=path, backend='numpy', precision='64b', triple=list(t), alpha=al,
                                               impl=v, expected=float(ref), expected_exact=str(ref), theorem='C03_code%s_%s' % (code, thm)))
                            found += 1
            if 'fast' in vals and 'slow' in vals:
                for ti, t in enumerate(triples):
                    for ai, al in enumerate(alphas):
                        vf, vs = vals['fast'][ai][ti], vals['slow'][ai][ti]
                        if abs(vf - vs) > 1e-9 * scale_of(code, a0, t[0], t[1], t[2], al, F(vs) if vs == vs else F(0), vf if vf == vf else 0.0) or vf != vf or vs != vs:
                            ctx.violation('code%s:fast-vs-slow' % code,
                                          'code %s: vectorised %r != scalar reference %r at alpha=%r on %r' % (code, vf, vs, al, t),
                                          dict(kind='point', code=code, alpha0=a0, path='both', backend='numpy', precision='64b', triple=list(t), alpha=al,
                                               impl=dict(fast=vf, slow=vs), expected='equal', theorem='C03_fast_eq_slow_%s' % code))
                            found += 1
    # history: a shape change, a return to an earlier shape, a backend notification
    for code in CODES:
        hs = [[[SEARCH_TRIPLES[0], SEARCH_TRIPLES[1]]], [[SEARCH_TRIPLES[2], SEARCH_TRIPLES[4]]]]
        calls = [[[2.0], [-2.0]], [[2.0, 0.5, -3.0], [1.0, -1.0, 3.0]], [[-2.0], [0.5]], [[0.5, 2.0, -2.0, 1.5, 3.0], [-0.5, -2.0, 2.0, 0.25, -3.0]], [[0.5, 3.0], [2.0, -2.0]]]
        b = dict(code=code, a0=1, hs=hs, calls=calls)
        try:
            seq = run_batch(b, 'numpy', '64b', True)
        except Exception as e:
            ctx.violation('code%s:history:raises' % code, 'call sequence with changing alpha-set shapes raises %s' % core.exc_enum(e),
                          dict(kind='history', code=code, alpha0=1, hs=hs, calls=calls, backend='numpy', precision='64b', impl=core.exc_enum(e) + ': ' + str(e)[:200],
                               expected='values of a fresh instance', theorem='C03_call_history_independent'))
            found += 1
            continue
        for k, al in enumerate(calls):
            fresh = run_batch(dict(code=code, a0=1, hs=hs, calls=[al]), 'numpy', '64b', True)[0]
            stats['search_evaluations'] += 1
            if json.dumps(fresh) != json.dumps(seq[k]):
                ctx.violation('code%s:history' % code, 'code %s: call %d of a sequence with changing shapes differs from a fresh instance' % (code, k),
                              dict(kind='history', code=code, alpha0=1, hs=hs, calls=calls[:k + 1], backend='numpy', precision='64b', impl=seq[k], expected=fresh,
                                   theorem='C03_call_history_independent'))
                found += 1
    return found


# =========================================================================================
def extract(ctx):
    text, info = c03_translate.generate()
    c03_translate.write(text)
    return info


def drop_gen():
    for ext in ('.v', '.vo', '.vos', '.vok', '.glob'):
        try:
            os.remove(os.path.join(core.COQ, 'gen', 'InterpGen' + ext))
        except OSError:
            pass


def backends_for(ctx):
    others = ['jax', 'pytorch', 'tensorflow']
    if ctx.quick:
        k = ctx.seed % 3
        return [('numpy', '64b'), (others[k], '64b'), (others[(k + 1) % 3], '32b')]
    return [('numpy', '64b'), ('numpy', '32b')] + [(o, p) for o in others for p in ('64b', '32b')]


def run(ctx):
    rng = ctx.rng
    tie = None
    have_gen = True
    t0 = time.time()
    try:
        info = extract(ctx)
        ctx.coverage['translated'] = info
    except facts.TieBroken as e:
        tie = 'translation of the scalar reference interpolators failed: %s' % e
        have_gen = False
        drop_gen()
    # proofs run in the background while pyhf is driven (the models needed for evaluation are built first)
    if have_gen:
        rc, out, _ = core.coq_make(['InterpGeneric.vo'])
        if rc != 0:
            rc2, out2, _ = core.coq_make(['InterpFast.vo', 'gen/InterpGen.vo'])
            if rc2 != 0:
                have_gen = False
                tie = tie or ('generated definitions do not compile: ' + out2[-600:])
    if not have_gen:
        core.coq_make(['InterpFast.vo'])
    proof = {}

    def prove_bg():
        try:
            proof['r'] = core.prove(ctx)
        except Exception as e:      # pragma: no cover
            proof['r'] = (False, 'prove crashed: %r' % e)
    import threading
    th = threading.Thread(target=prove_bg)
    th.start()

    ctx.trusted += ['harness/props/c03_translate.py (python ast -> Gallina for the scalar reference interpolators and the A_inverse literal; fail closed; '
                    'its output is additionally run against the python it came from)',
                    'hand model coq/InterpFast.v of the vectorised __call__ / shape cache: tied to the code by the correspondence only',
                    'array-library kernels (einsum, where, power, abs, astype bool) modelled by their pointwise mathematical meaning',
                    'mpmath only proposes reference values for codes 1 and 4; each is certified against the Coq model by an `interval` goal',
                    'IEEE rounding / nan / inf / overflow are outside the exact-arithmetic models (covered by the comparison tolerance only)']
    ctx.assumptions += ['positive down/nominal/up values (codes 1, 4 divide by the nominal and take logarithms)',
                        'rpow x y = exp(y ln x) for x > 0, = x for y = 1; other powers of non-positive bases are not modelled']
    stats = dict(search_evaluations=0, points=0, observations=0, qc_points=0, interval_points=0, interval_ok=0, history_calls=0,
                 by_code={c: 0 for c in CODES}, by_region={}, by_backend={}, triple_kinds={})
    found = 0

    # ---- implementation runs -------------------------------------------------------------
    bks = backends_for(ctx)
    corpus = load_corpus()
    q64 = {'0': (2, 4), '1': (2, 3), '2': (2, 4), '4': (1, 3), '4x': (1, 2), '4p': (2, 4)}
    t64 = {'0': (5, 6), '1': (5, 6), '2': (5, 6), '4': (4, 6), '4x': (3, 4), '4p': (5, 6)}
    q32 = {'0': (1, 3), '1': (1, 2), '2': (1, 3), '4': (1, 2), '4x': None, '4p': (1, 3)}
    t32 = {'0': (2, 4), '1': (2, 4), '2': (2, 4), '4': (2, 4), '4x': (1, 2), '4p': (2, 4)}
    b64 = corpus + point_batches(rng, q64 if ctx.quick else t64, ctx.n(4, 10))
    b32 = point_batches(rng, q32 if ctx.quick else t32, ctx.n(2, 5), single=True)
    other = [b for b in bks if b[0] != 'numpy']
    hist = history_batches(rng, ctx.n(15, 100), [b for b in other if b[1] == '64b'])
    obs = {}       # key -> list of (value, tag)
    impl_errors = []

    def record(b, res, tag):
        for lo, nom, hi, al, v, k in cells(b, res):
            key = (b['code'], float(b['a0']), lo, nom, hi, al)
            obs.setdefault(key, []).append((v, tag + (k,)))

    for bk, prec in bks:
        batches = (b64 if prec == '64b' else b32)
        for bi, b in enumerate(batches):
            for fast in (True, False):
                try:
                    res = run_batch(b, bk, prec, fast)
                except Exception as e:
                    impl_errors.append((b, bk, prec, fast, e))
                    continue
                record(b, res, ('fast' if fast else 'slow', bk, prec, 'p%d' % bi))
                stats['by_backend']['%s/%s' % (bk, prec)] = stats['by_backend'].get('%s/%s' % (bk, prec), 0) + 1
    hist_results = []
    for hi_, b in enumerate(hist):
        try:
            res = run_batch(b, 'numpy', '64b', True)
            set_backend('numpy', '64b')
            fresh = [run_batch(dict(b, calls=[al], switch=None), 'numpy', '64b', True)[0] for al in b['calls']]
        except Exception as e:
            impl_errors.append((b, 'numpy', '64b', True, e))
            hist_results.append(None)
            continue
        hist_results.append((res, fresh))
        record(b, res, ('fast', 'numpy+history', '64b', 'h%d' % hi_))
        stats['history_calls'] += len(b['calls'])
    set_backend('numpy', '64b')
    for b, bk, prec, fast, e in impl_errors[:3]:
        ctx.violation('code%s:%s:raises' % (b['code'], 'fast' if fast else 'slow'),
                      'interpolator raises %s on positive triples (%s/%s)' % (core.exc_enum(e), bk, prec),
                      dict(kind='history', code=b['code'], alpha0=b['a0'], hs=b['hs'], calls=b['calls'], switch=b.get('switch'), backend=bk, precision=prec,
                           path='fast' if fast else 'slow', impl=core.exc_enum(e) + ': ' + str(e)[:300], expected='values', theorem='C03'))
        found += 1
    ctx.log('implementation runs done: %d distinct points, %d backends, %.1fs' % (len(obs), len(bks), time.time() - t0))

    # ---- model values from Coq -------------------------------------------------------------
    keys = sorted(obs, key=lambda k: (k[0], k[1], k[2:]))
    nsh = 2 * core.NCPU
    keys = [k for r in range(nsh) for k in keys[r::nsh]]          # spread the expensive points over the shards
    model = {}          # key -> Fraction certified for the Coq model (exact for Qc codes, within 1e-13 for interval codes)
    model_problem = {}  # key -> text
    qkeys = [k for k in keys if k[0] in ADDITIVE]
    ikeys = [k for k in keys if k[0] not in ADDITIVE]
    try:
        res = cached_eval(ctx, 'points', QC_HEADER % (' PV.gen.InterpGen' if have_gen else ''), [qc_point_expr(k, have_gen) for k in qkeys], None)
        for k, r in zip(qkeys, res):
            sn, sd, (fn_, fd) = core.parse_qc(r)
            vs, vf = F(sn, sd), F(fn_, fd)
            model[k] = vs
            if vs != vf:
                model_problem[k] = 'translated scalar definition %s != hand model of the vectorised code %s' % (vs, vf)
                model[k] = None
                model[('fast',) + k] = vf
                model[('slow',) + k] = vs
    except core.CoqEvalError as e:
        tie = tie or ('evaluation of the Qc model failed: ' + str(e)[-600:])
    stats['qc_points'] = len(qkeys)
    # histories through the state machine
    hexprs, hidx = [], []
    for hi_, b in enumerate(hist):
        if hist_results[hi_] is None:
            continue
        for k in range(len(b['calls'])):
            hexprs.append(qc_history_expr(b, k))
            hidx.append((hi_, k))
    hmodel = {}
    try:
        res = cached_eval(ctx, 'history', QC_HEADER % '', hexprs, None)
        for (hi_, k), r in zip(hidx, res):
            hmodel[(hi_, k)] = core.to_frac(core.parse_qc(r))
    except core.CoqEvalError as e:
        tie = tie or ('evaluation of the shape-cache state machine failed: ' + str(e)[-600:])
    ctx.log('Qc evaluation done (%d points, %d history calls) %.1fs' % (len(qkeys), len(hexprs), time.time() - t0))
    # interval goals for the power codes
    refs = {k: reference(*k) for k in ikeys}
    if have_gen:
        ivres = run_interval(ctx, [(k, refs[k]) for k in ikeys])
        for i, k in enumerate(ikeys):
            if ivres.get(i) == 'ok':
                model[k] = refs[k]
                stats['interval_ok'] += 1
            else:
                model_problem[k] = 'interval goal |slow_code%s_R - reference| <= 1e-13|reference| not proved (%s)' % (k[0], ivres.get(i))
                model[k] = None
    stats['interval_points'] = len(ikeys)
    ctx.log('interval goals done (%d, %d certified) %.1fs' % (len(ikeys), stats['interval_ok'], time.time() - t0))

    # ---- compare ----------------------------------------------------------------------------
    disagreements = []
    nontrivial = set()
    for k in keys:
        code, a0, lo, nom, hi, al = k
        reg = region(code, a0, al)
        stats['by_code'][code] += 1
        stats['by_region'][reg] = stats['by_region'].get(reg, 0) + 1
        tk = 'flat' if lo == nom == hi else 'lo>nom' if lo > nom and hi > nom else 'hi<nom' if hi < nom and lo < nom else 'inverted' if lo > nom else 'ordered'
        stats['triple_kinds'][tk] = stats['triple_kinds'].get(tk, 0) + 1
        if not (lo == nom == hi) and al != 0:
            nontrivial.add(k)
        for v, tag in obs[k]:
            stats['observations'] += 1
            m = model.get(k)
            if m is None and k in model_problem and ((tag[0],) + k) in model:
                m = model[(tag[0],) + k]
            if m is None:
                continue
            rtol = 1e-9 if tag[2] == '64b' else 2e-3
            if not agrees(code, a0, lo, nom, hi, al, m, v, rtol):
                disagreements.append((k, v, tag, m))
    stats['points'] = len(keys)
    # the property at the points where model and implementation differ, or where the model could not be certified
    suspicious = [(k, v, tag) for k, v, tag, m in disagreements]
    for k in model_problem:
        suspicious += [(k, v, tag) for v, tag in obs[k]]
    # ---- property-directed sweep of the implementation (always; simple inputs first) ------------
    found += search(ctx, stats)

    def already(prefix):
        return any(v[0].startswith(prefix) for v in ctx.violations) or any(sg.startswith(prefix) for sg, _ in ctx.known_hits)
    for k, v, tag in suspicious:
        code, a0, lo, nom, hi, al = k
        ref = reference(*k)
        rtol = 1e-9 if tag[2] == '64b' else 2e-3
        if not agrees(code, a0, lo, nom, hi, al, ref, v, rtol):
            found += 1
            if already('code%s:%s:' % (code, tag[0])):
                continue        # the sweep above (or an earlier point) already reports this code path with a simpler input
            sig = 'code%s:%s:%s' % (code, tag[0], region(code, a0, al))
            if tag[1] != 'numpy':
                sig += ':' + tag[1].split('+')[0] + '-' + tag[2]
            ctx.violation(sig, 'code %s (%s, %s/%s) at alpha=%r on (down, nom, up)=%r returns %r, the published formula gives %.17g'
                          % (code, tag[0], tag[1], tag[2], al, (lo, nom, hi), v, float(ref)),
                          dict(kind='point', code=code, alpha0=a0, path=tag[0], backend=tag[1].split('+')[0], precision=tag[2], triple=[lo, nom, hi], alpha=al,
                               impl=v, expected=float(ref), expected_exact=str(ref), model=str(model.get(k)), theorem='C03 correspondence + C03_code%s_*' % code))
    # histories: state machine model and fresh instance
    for hi_, b in enumerate(hist):
        if hist_results[hi_] is None:
            continue
        res, fresh = hist_results[hi_]
        for k in range(len(b['calls'])):
            bad = None
            noswitch = all(s is None for s in b['switch'][:k + 1])
            if noswitch and json.dumps(res[k]) != json.dumps(fresh[k]):
                bad = 'differs from a fresh instance'
            m = hmodel.get((hi_, k))
            if m is not None and bad is None:
                flat_m = [x for s in m for h in s for a in h for x in a]
                flat_i = [x for s in res[k] for h in s for a in h for x in a]
                if len(flat_m) != len(flat_i) or [len(s) for s in m] != [len(s) for s in res[k]]:
                    bad = 'has a different layout than the state-machine model'
                else:
                    for x, y in zip(flat_m, flat_i):
                        if abs(x - F(y)) > F(1e-9) * max(abs(x), abs(F(y)), 1):
                            bad = 'differs from the state-machine model (%.17g vs %r)' % (float(x), y)
                            break
            if bad:
                # property side: is the fresh instance different from the sequence?
                if noswitch and json.dumps(res[k]) != json.dumps(fresh[k]):
                    ctx.violation('code%s:history' % b['code'], 'code %s: call %d of a call sequence %s' % (b['code'], k, bad),
                                  dict(kind='history', code=b['code'], alpha0=b['a0'], hs=b['hs'], calls=b['calls'][:k + 1], switch=b['switch'][:k + 1],
                                       backend='numpy', precision='64b', impl=res[k], expected=fresh[k], theorem='C03_call_history_independent'))
                    found += 1
                else:
                    disagreements.append((('history', hi_, k), bad, ('fast', 'numpy', '64b'), None))

    th.join()
    ok, txt = proof.get('r', (False, 'prove did not run'))
    if not ok:
        tie = tie or ('proof obligations of props/C03.v no longer check: ' + txt[-1500:])
    if model_problem and not found:
        k = sorted(model_problem)[0]
        tie = tie or ('model could not be certified at %d points, first %r: %s' % (len(model_problem), k, model_problem[k]))
    if disagreements and not found:
        tie = tie or ('model and implementation disagree on %d observations although the published formula is met, first: %r' % (len(disagreements), disagreements[0][:3]))
    if tie and not found:
        ctx.violation('tie-broken', tie[:300], dict(kind='tie', detail=tie, theorem='props/C03.v / correspondence'), nofail=True)
    elif tie:
        ctx.notes.append('tie also broken: ' + tie[:600])

    sample_keys = [k for k in keys if k in nontrivial][:: max(1, len(nontrivial) // 4)][:4]
    ctx.coverage.update(
        evaluations=stats['observations'] + stats['search_evaluations'],
        distinct_nontrivial=len(nontrivial) + sum(1 for b in hist if len({len(c[0]) for c in b['calls']}) > 1),
        rule='points: (code, alpha0, down, nom, up, alpha) with alpha from breakpoints 0/+-1/+-alpha0, their +-1,+-2 ulp neighbours, the core, both '
             'extrapolation sides; triples ordered / lo>nom / hi<nom / flat / one-sided (up or down variation equal to the nominal) / wide / nearly equal; every point evaluated by the vectorised and the '
             'scalar class on each backend listed. non-trivial = triple not flat and alpha != 0; distinct by the full key. Plus call histories with '
             '>= 2 different alpha-set shapes on one instance (counted once each).',
        points=stats['points'], observations=stats['observations'], qc_points_exact=stats['qc_points'], interval_points=stats['interval_points'],
        interval_certified=stats['interval_ok'], history_sequences=len(hist), history_calls=stats['history_calls'], search_evaluations=stats['search_evaluations'],
        by_code=stats['by_code'], by_region=stats['by_region'], triple_kinds=stats['triple_kinds'], backends=['%s/%s' % b for b in bks],
        batches_per_backend=stats['by_backend'], disagreements=len(disagreements), uncertified_model_points=len(model_problem),
        samples=[dict(code=k[0], alpha0=k[1], down=k[2], nom=k[3], up=k[4], alpha=k[5], model=str(model.get(k))[:60],
                      impl=[(v, '/'.join(map(str, tag[:3]))) for v, tag in obs[k][:3]]) for k in sample_keys]
                + ([dict(history=dict(code=hist[0]['code'], shapes=[len(c[0]) for c in hist[0]['calls']], switch=hist[0]['switch']))] if hist else []))


# =========================================================================================
def load_corpus():
    d = os.path.join(core.VERIF, 'corpus', 'C03')
    out = []
    if os.path.isdir(d):
        for fnm in sorted(os.listdir(d)):
            if fnm.endswith('.json'):
                j = json.load(open(os.path.join(d, fnm)))
                out.append(dict(code=j['code'], a0=j.get('alpha0', 1), hs=[[[tuple(t) for t in j['triples']]]], calls=[[j['alphas']]], kind='corpus'))
    return out


def replay(body):
    kind = body.get('kind')
    if kind == 'point':
        t = tuple(body['triple'])
        b = dict(code=body['code'], a0=body.get('alpha0', 1), hs=[[[t]]], calls=[[[body['alpha']]]])
        for path in (['fast', 'slow'] if body.get('path') in ('both', None) else [body['path']]):
            try:
                v = run_batch(b, body.get('backend', 'numpy'), body.get('precision', '64b'), path == 'fast')[0][0][0][0][0]
            except Exception as e:
                v = core.exc_enum(e)
            ref = reference(body['code'], body.get('alpha0', 1), t[0], t[1], t[2], body['alpha'])
            print('code %s %s alpha=%r triple=%r: implementation %r, published formula %.17g' % (body['code'], path, body['alpha'], t, v, float(ref)))
        return 0
    if kind == 'history':
        b = dict(code=body['code'], a0=body.get('alpha0', 1), hs=[[[tuple(t) for t in histo] for histo in hset] for hset in body['hs']],
                 calls=body['calls'], switch=[tuple(s) if s else None for s in (body.get('switch') or [None] * len(body['calls']))])
        fast = body.get('path', 'fast') == 'fast'
        try:
            seq = run_batch(b, body.get('backend', 'numpy'), body.get('precision', '64b'), fast)
            set_backend(body.get('backend', 'numpy'), body.get('precision', '64b'))
            fresh = run_batch(dict(b, calls=[b['calls'][-1]], switch=None), body.get('backend', 'numpy'), body.get('precision', '64b'), fast)[0]
            print('last call in sequence:', seq[-1])
            print('fresh instance      :', fresh)
            print('equal' if json.dumps(seq[-1]) == json.dumps(fresh) else 'DIFFERENT')
        except Exception as e:
            print('raises', core.exc_enum(e), e)
        return 0
    print(body.get('detail'))
    return 0
