"""C13 - gradients handed to optimisers are the true gradient of the objective.

Coq side: coq/Grad.v (dual numbers as a Num instance + is_derive theorems, chain rule through stitching, derivative
formulas of the log-density terms, exact gradient of twice_nll for the restricted family by evaluating the rate model
of coq/FitRate.v at Qc dual numbers).  The harness diffs that exact rational gradient with
shim(..., do_grad=True)['func'](pars) on jax / pytorch / tensorflow, stitched or not."""
import copy
import json
import math
from fractions import Fraction

from harness import core
from harness.props import c05

GRAD_RTOL = 1e-7
VALUE_RTOL = 1e-10
BACKENDS = ['jax', 'pytorch', 'tensorflow']
CODES = {'code0': 'Code0', 'code2': 'Code2', 'code4p': 'Code4p'}


# ----------------------------------------------------------------------------------------------
def gen_spec(rng):
    """1-2 channels, 1-4 bins, 2-3 samples; every modifier type without transcendental pieces:
    normfactor, shapefactor, shapesys, staterror, lumi, histosys (code0 / code2 / code4p chosen per model)."""
    nch = rng.choice([1, 1, 2])
    code = rng.choice(['code0', 'code0', 'code2', 'code4p', 'code4p'])
    use_lumi = rng.random() < 0.35
    chans = []
    for ci in range(nch):
        nb = rng.choice([1, 2, 3, 4])
        nsamp = rng.choice([2, 2, 3])
        samples = []
        used_sf = False
        for si in range(nsamp):
            scale = rng.choice([2.0, 10.0, 40.0, 150.0])
            nom = [round(scale * rng.uniform(0.4, 2.0), rng.choice([0, 1, 2])) or 1.0 for _ in range(nb)]
            mods = []
            if si == 0:
                mods.append({'name': 'mu', 'type': 'normfactor', 'data': None})
            pool = ['shapesys', 'staterror', 'normfactor', 'histosys', 'histosys', 'lumi' if use_lumi else 'histosys']
            if not used_sf:
                pool.append('shapefactor')
            for kind in rng.sample(pool, rng.choice([0, 1, 1, 2, 3]) if si else rng.choice([0, 1, 2])):
                if any(m['type'] == kind for m in mods) and kind != 'histosys':
                    continue
                if kind == 'normfactor':
                    mods.append({'name': 'k%d' % rng.randrange(2), 'type': 'normfactor', 'data': None})
                elif kind == 'shapefactor':
                    used_sf = True
                    mods.append({'name': 'sf_%d' % ci, 'type': 'shapefactor', 'data': None})
                elif kind == 'shapesys':
                    mods.append({'name': 'unc_%d_%d' % (ci, si), 'type': 'shapesys', 'data': [round(v * rng.uniform(0.05, 0.4), 3) or 0.5 for v in nom]})
                elif kind == 'staterror':
                    mods.append({'name': 'stat_%d' % ci, 'type': 'staterror', 'data': [round(v * rng.uniform(0.03, 0.3), 3) or 0.25 for v in nom]})
                elif kind == 'lumi':
                    mods.append({'name': 'lumi', 'type': 'lumi', 'data': None})
                elif kind == 'histosys':
                    nm = 'h%d' % rng.randrange(3)
                    if any(m['name'] == nm for m in mods):
                        continue
                    mods.append({'name': nm, 'type': 'histosys', 'data': {
                        'hi_data': [round(v * rng.uniform(1.0, 1.4), 2) for v in nom],
                        'lo_data': [round(v * rng.uniform(0.6, 1.05), 2) for v in nom]}})
            names = [m['name'] for m in mods]
            mods = [m for i, m in enumerate(mods) if m['name'] not in names[:i]]
            samples.append({'name': 's%d_%d' % (ci, si), 'data': nom, 'modifiers': mods})
        chans.append({'name': 'ch%d' % ci, 'samples': samples})
    spec = {'channels': chans}
    if any(m['type'] == 'lumi' for c in chans for s in c['samples'] for m in s['modifiers']):
        spec['parameters'] = [{'name': 'lumi', 'auxdata': [1.0], 'sigmas': [rng.choice([0.02, 0.05, 0.1])], 'bounds': [[0.5, 1.5]], 'inits': [1.0]}]
    return spec, code


def build_pdf(spec, code):
    import pyhf
    return pyhf.Model(copy.deepcopy(spec), poi_name='mu', validate=True,
                      modifier_settings={'normsys': {'interpcode': 'code4'}, 'histosys': {'interpcode': code}})


def compile_model(spec, code, pdf):
    """own rate model: bins -> cells (nominal, histosys pieces, factor indices); constraint terms; auxdata layout"""
    cfg = pdf.config
    chans = {c['name']: c for c in spec['channels']}
    bins, pois, gaus, alphas = [], {}, {}, set()
    lumi_sigma = {p['name']: p for p in spec.get('parameters', [])}
    for cname in cfg.channels:
        ch = chans[cname]
        nb = len(ch['samples'][0]['data'])
        stat = {}
        for s in ch['samples']:
            for m in s['modifiers']:
                if m['type'] == 'staterror':
                    st = stat.setdefault(m['name'], dict(nom=[Fraction(0)] * nb, d2=[Fraction(0)] * nb))
                    for b in range(nb):
                        st['nom'][b] += core.frac(s['data'][b])
                        st['d2'][b] += core.frac(m['data'][b]) ** 2
        for b in range(nb):
            cells = []
            for s in ch['samples']:
                idx, hs = [], []
                for m in s['modifiers']:
                    sl = cfg.par_slice(m['name'])
                    t = m['type']
                    if t in ('normfactor', 'lumi'):
                        idx.append(sl.start)
                        if t == 'lumi':
                            gaus[sl.start] = (1 / core.frac(lumi_sigma['lumi']['sigmas'][0]) ** 2)
                    elif t in ('shapefactor', 'shapesys', 'staterror'):
                        assert sl.stop - sl.start == nb
                        idx.append(sl.start + b)
                        if t == 'shapesys':
                            pois[sl.start + b] = (core.frac(s['data'][b]) / core.frac(m['data'][b])) ** 2
                    elif t == 'histosys':
                        hs.append((code, core.frac(m['data']['lo_data'][b]), core.frac(m['data']['hi_data'][b]), sl.start))
                        gaus[sl.start] = Fraction(1)
                        alphas.add(sl.start)
                    else:
                        raise ValueError('modifier outside the family: ' + t)
                cells.append((core.frac(s['data'][b]), hs, idx))
            bins.append(cells)
        for name, st in stat.items():
            sl = cfg.par_slice(name)
            for b in range(nb):
                gaus[sl.start + b] = st['nom'][b] ** 2 / st['d2'][b]
    aux = []
    for name in cfg.auxdata_order:
        sl = cfg.par_slice(name)
        for i in range(sl.start, sl.stop):
            aux.append(('pois', i) if i in pois else ('gaus', i))
    assert len(aux) == len(cfg.auxdata), 'auxdata layout'
    return dict(bins=bins, pois=pois, gaus=gaus, aux=aux, npars=cfg.npars, nmain=len(bins), alphas=sorted(alphas))


HEADER = '''From Coq Require Import ZArith QArith Qcanon Bool List.
Require Import PV.Num PV.Run PV.FitRate PV.Grad.
Import ListNotations.
Definition mkh (c : icode) (lo hi : Qc) (i : nat) : hsys QcNum := @Build_hsys QcNum c lo hi i.
Definition mkcell (nom : Qc) (hs : list (hsys QcNum)) (idx : list nat) : cell QcNum := @Build_cell QcNum nom hs idx.
Definition mkmodel (bins : list (Qc * list (cell QcNum))) (pois gaus : list (Qc * Qc * nat)) : model QcNum := @Build_model QcNum bins pois gaus.
Definition run_grad (M : model QcNum) (x : list Qc) :=
  (map qout (model_grad QcNum M x), map (fun nb => qout (bin_rate QcNum x (snd nb))) (m_bins QcNum M)).
'''


def coq_model(cm, data):
    def cell(c):
        hs = core.clist(c[1], lambda h: '(mkh %s %s %s %d%%nat)' % (CODES[h[0]], core.q(h[1]), core.q(h[2]), h[3]))
        return '(mkcell %s %s %s)' % (core.q(c[0]), hs, core.clist(c[2], lambda i: '%d%%nat' % i))
    bins = core.clist(range(cm['nmain']), lambda b: '(%s, %s)' % (core.q(data[b]), core.clist(cm['bins'][b], cell)))
    pois = core.clist([(j, i) for j, (k, i) in enumerate(cm['aux']) if k == 'pois'],
                      lambda t: '(%s, %s, %d%%nat)' % (core.q(data[cm['nmain'] + t[0]]), core.q(cm['pois'][t[1]]), t[1]))
    gaus = core.clist([(j, i) for j, (k, i) in enumerate(cm['aux']) if k == 'gaus'],
                      lambda t: '(%s, %s, %d%%nat)' % (core.q(cm['gaus'][t[1]]), core.q(data[cm['nmain'] + t[0]]), t[1]))
    return '(mkmodel %s %s %s)' % (bins, pois, gaus)


# ----------------------------------------------------------------------------------------------
def rate_float(cm, x):
    out = []
    for cells in cm['bins']:
        r = 0.0
        for nom, hs, idx in cells:
            t = float(nom)
            for code, lo, hi, i in hs:
                t += delta_float(code, float(lo), float(nom), float(hi), x[i])
            for i in idx:
                t *= x[i]
            r += t
        out.append(r)
    return out


def delta_float(code, lo, nom, hi, a):
    up, dn = hi - nom, nom - lo
    if code == 'code0':
        return up * a if a > 0 else dn * a
    if code == 'code2':
        A, B = 0.5 * (hi + lo) - nom, 0.5 * (hi - lo)
        if a > 1:
            return (B + 2 * A) * (a - 1) + (A + B)
        if a >= -1:
            return A * a * a + B * a
        return (B - 2 * A) * (a + 1) + (A - B)
    S, A = 0.5 * (up + dn), 0.0625 * (up - dn)
    if a < -1:
        return dn * a
    if a > 1:
        return up * a
    q = a * a
    return q * (q * (q * 3 - 10) + 15) * A + a * S


ALPHA_POINTS = [0.0, 1.0, -1.0, 0.5, -0.5, 2.0, -2.0, 1.5, -1.25, 1e-9, -1e-9, 1.0000001, -0.9999999]


def gen_point(rng, cm, k):
    """a parameter point: alphas cover every interpolation regime and sit on the breakpoints for the first points of a model"""
    x = []
    for i in range(cm['npars']):
        if i in cm['alphas']:
            r = rng.random()
            x.append(rng.choice([0.0, 1.0, -1.0]) if r < 0.35 else ALPHA_POINTS[(k * 3 + i) % len(ALPHA_POINTS)] if r < 0.75
                     else round(rng.uniform(-2.5, 2.5), rng.choice([1, 3, 15])))
        else:
            x.append(rng.choice([1.0, round(rng.uniform(0.3, 2.2), rng.choice([1, 3, 15]))]))
    return x


def gen_data(rng, cm, x):
    lam = rate_float(cm, x)
    main = []
    for v in lam:
        r = rng.random()
        main.append(float(c05._poisson(rng, max(v, 0.01))) if r < 0.5 else (0.0 if r < 0.6 else round(max(0.0, rng.gauss(v, math.sqrt(max(v, 1e-3)))), 2)))
    aux = []
    for kind, i in cm['aux']:
        if kind == 'pois':
            tau = float(cm['pois'][i])
            aux.append(tau if rng.random() < 0.5 else round(max(0.0, rng.gauss(tau, math.sqrt(tau))), 3))
        else:
            centre = 0.0 if i in cm['alphas'] else 1.0
            aux.append(centre if rng.random() < 0.5 else round(rng.gauss(centre, 1.0 / math.sqrt(float(cm['gaus'][i]))), 4))
    return main + aux


def make_case(rng, k):
    import pyhf
    pyhf.set_backend('numpy')
    for _ in range(100):
        spec, code = gen_spec(rng)
        pdf = build_pdf(spec, code)
        cm = compile_model(spec, code, pdf)
        x = gen_point(rng, cm, k)
        mask = [rng.random() < 0.25 for _ in range(cm['npars'])]
        if cm['alphas'] and rng.random() < 0.7:          # sit exactly on a breakpoint with a free alpha: 0 for code0, +-1 otherwise
            a0 = rng.choice(cm['alphas'])
            x[a0] = 0.0 if code == 'code0' else rng.choice([1.0, -1.0])
            mask[a0] = False
        if min(rate_float(cm, x)) <= 1e-3:
            continue
        data = gen_data(rng, cm, x)
        if all(mask):
            mask[rng.randrange(len(mask))] = False
        if rng.random() < 0.3:
            mask = [False] * cm['npars']
        return dict(id='g%d' % k, spec=spec, code=code, cm=cm, npars=cm['npars'], x=x, data=data, mask=mask, par_names=list(pdf.config.par_names),
                    bounds=[[float(a), float(b)] for a, b in pdf.config.suggested_bounds()])
    raise RuntimeError('could not generate a case')


def pub(case):
    return {k: v for k, v in case.items() if k != 'cm'}


# ----------------------------------------------------------------------------------------------
def run_impl(case, backend, do_stitch):
    """(value, gradient) from the grad path, value from the non-grad path, at the case's point"""
    import numpy as np
    import pyhf
    from pyhf.optimize.common import shim
    pyhf.set_backend(backend, 'scipy', precision='64b')
    pdf = build_pdf(case['spec'], case['code'])
    tl = pyhf.tensorlib
    x, mask = case['x'], case['mask']
    fixed_vals = [(i, x[i]) for i in range(case['npars']) if mask[i]]
    vidx = [i for i in range(case['npars']) if not mask[i]]
    rec = dict(backend=backend, do_stitch=do_stitch)
    try:
        with np.errstate(all='ignore'):
            kw, _ = shim(pyhf.infer.mle.twice_nll, list(case['data']), pdf, list(x), [tuple(b) for b in case['bounds']], fixed_vals, do_grad=True, do_stitch=do_stitch)
            pars = [x[i] for i in vidx] if do_stitch else list(x)
            val, grad = kw['func'](tl.astensor(pars) if backend != 'jax' else pars)
            rec['value'] = float(np.asarray(val).reshape(-1)[0])
            rec['grad'] = [float(v) for v in np.asarray(tl.tolist(grad) if not isinstance(grad, np.ndarray) else grad).reshape(-1)]
            kw2, _ = shim(pyhf.infer.mle.twice_nll, list(case['data']), pdf, list(x), [tuple(b) for b in case['bounds']], fixed_vals, do_grad=False, do_stitch=do_stitch)
            v2 = kw2['func'](tl.astensor(pars) if backend != 'jax' else pars)
            rec['value_nograd'] = float(np.asarray(tl.tolist(v2)).reshape(-1)[0])
            rec['rates'] = [float(v) for v in tl.tolist(pdf.expected_actualdata(tl.astensor(list(x))))]
        rec['status'] = 'ok'
        rec['index'] = vidx if do_stitch else list(range(case['npars']))
    except Exception as e:
        rec['status'] = core.exc_enum(e)
        rec['msg'] = str(e)[:200]
    return rec


def finite_difference(case, j, h=1e-6):
    """central difference of pyhf's own numpy twice_nll (diagnostic only, goes into the replay)"""
    import numpy as np
    import pyhf
    pyhf.set_backend('numpy')
    pdf = build_pdf(case['spec'], case['code'])
    xp, xm = list(case['x']), list(case['x'])
    xp[j] += h
    xm[j] -= h
    with np.errstate(all='ignore'):
        return float((pyhf.infer.mle.twice_nll(xp, np.asarray(case['data']), pdf)[0] - pyhf.infer.mle.twice_nll(xm, np.asarray(case['data']), pdf)[0]) / (2 * h))


def replay_body(case, rec, **kw):
    d = dict(kind='grad', case=pub(case), config=[rec['backend'], rec['do_stitch']],
             impl={k: rec.get(k) for k in ('status', 'value', 'value_nograd', 'grad', 'index', 'msg')})
    d.update(kw)
    return d


def load_corpus():
    import glob
    import os
    return [json.load(open(fn)) for fn in sorted(glob.glob(os.path.join(core.VERIF, 'corpus', 'C13', '*.json')))]


def run(ctx):
    rng = ctx.rng
    tie = None
    ok, txt = core.prove(ctx)
    if not ok:
        tie = 'proof obligations of props/C13.v no longer check: ' + txt[-1200:]
    ctx.trusted += ['jax / torch / tensorflow automatic differentiation are modelled by their outputs',
                    'harness/props/c13.py: compile_model (own rate model of the normfactor/shapefactor/shapesys/staterror/lumi/histosys family; '
                    'parameter and auxdata layout from the public ModelConfig); its rates are validated against expected_actualdata on every case',
                    'exact gradient = FitRate.bin_rate evaluated at dual numbers over Qc (Grad.model_grad); the dual instance is proved to compute '
                    'derivatives for + - * / expressions over R (C13_dual_is_derivative); the regime selection of the interpolation codes by '
                    'comparisons on the value is validated by correspondence, derivative formulas of the codes themselves belong to C03']
    ctx.assumptions += ['models without transcendental modifier pieces (no normsys, no histosys code1/code4): the gradient is rational',
                        'at the kink of code0 (alpha = 0) the one-sided derivative of the branch selected by `alpha > 0` is demanded']
    cases = []
    import pyhf
    for body in load_corpus():
        c = body['case']
        pyhf.set_backend('numpy')
        c['cm'] = compile_model(c['spec'], c['code'], build_pdf(c['spec'], c['code']))
        c['_cfg'] = [tuple(body['config'])]
        cases.append(c)
    ncase = ctx.n(40, 300)
    cases += [make_case(rng, k) for k in range(ncase)]
    ctx.log('generated %d cases' % len(cases))
    # exact gradients in Coq (started first: they do not depend on the implementation)
    exprs = ['run_grad %s %s' % (coq_model(c['cm'], c['data']), core.qlist(c['x'])) for c in cases]
    exact = None
    try:
        per = max(1, (len(exprs) + core.NCPU - 1) // core.NCPU)
        res = core.coq_eval(ctx, 'grads', HEADER, exprs, shard=per, timeout=1200)
        exact = [c05.parse(r) for r in res]
    except core.CoqEvalError as e:
        tie = tie or ('model evaluation failed: %s' % str(e)[-800:])
    ctx.log('evaluated %d exact gradients in Coq' % len(exprs))
    # implementation
    runs = []
    for be in BACKENDS:
        for k, c in enumerate(cases):
            cfgs = c.get('_cfg')
            if cfgs is None:
                if ctx.quick and be == 'tensorflow' and k % 3:
                    continue
                stitches = [bool((k + BACKENDS.index(be)) % 2)] if ctx.quick else [False, True]
                cfgs = [(be, s) for s in stitches]
            for b2, ds in cfgs:
                if b2 == be:
                    runs.append((k, run_impl(c, be, ds)))
    ctx.log('ran %d gradient evaluations' % len(runs))
    stats = dict(evaluations=len(runs), ok=0, components=0, by_backend={}, stitched=0, with_fixed=0, codes={}, alpha_regimes={}, errors={},
                 max_rel_err=0.0, kink_points=0, rate_mismatch=0)
    distinct = set()
    found = False
    for k, rec in runs:
        c = cases[k]
        if rec['status'] != 'ok':
            stats['errors'][rec['status']] = stats['errors'].get(rec['status'], 0) + 1
            ctx.violation('grad-path-raises:%s:%s' % (rec['backend'], rec['status']), 'value-and-gradient function raised %s: %s' % (rec['status'], rec.get('msg')),
                          replay_body(c, rec))
            found = True
            continue
        stats['ok'] += 1
        stats['by_backend'][rec['backend']] = stats['by_backend'].get(rec['backend'], 0) + 1
        stats['stitched'] += bool(rec['do_stitch'])
        stats['with_fixed'] += any(c['mask'])
        stats['codes'][c['code']] = stats['codes'].get(c['code'], 0) + 1
        for i in c['cm']['alphas']:
            a = c['x'][i]
            reg = 'kink0' if a == 0 else 'at+1' if a == 1 else 'at-1' if a == -1 else 'inner' if -1 < a < 1 else 'above' if a > 1 else 'below'
            stats['alpha_regimes'][reg] = stats['alpha_regimes'].get(reg, 0) + 1
        if not all(math.isfinite(v) for v in [rec['value'], rec['value_nograd']] + rec['grad']):
            ctx.violation('nonfinite:%s:stitch%d' % (rec['backend'], rec['do_stitch']), 'value-and-gradient function returned a non-finite number at a point with '
                          'strictly positive rates (value %r, plain path %r)' % (rec['value'], rec['value_nograd']), replay_body(c, rec))
            found = True
            continue
        # value of the grad path = value of the non-grad path
        if not core.close(core.frac(rec['value_nograd']), rec['value'], rtol=VALUE_RTOL, atol=1e-9):
            ctx.violation('grad-path-value:%s' % rec['backend'], 'objective from the gradient path %r differs from the plain path %r' % (rec['value'], rec['value_nograd']),
                          replay_body(c, rec, expected=rec['value_nograd']))
            found = True
        if exact is None:
            continue
        g_exact, rates = exact[k]
        # own rate model validated against the implementation's expected rates (a mismatch is a broken tie, not a gradient bug)
        if any(not core.close(r, ri, rtol=1e-9, atol=1e-9) for r, ri in zip(rates, rec['rates'])) or len(rates) != len(rec['rates']):
            stats['rate_mismatch'] += 1
            tie = tie or 'own rate model disagrees with expected_actualdata on case %s: %r vs %r' % (c['id'], [float(r) for r in rates][:5], rec['rates'][:5])
            continue
        if len(rec['grad']) != len(rec['index']):
            ctx.violation('gradient-dimension:%s' % rec['backend'], 'gradient has %d components for %d parameters' % (len(rec['grad']), len(rec['index'])), replay_body(c, rec))
            found = True
            continue
        scale = max([abs(float(g)) for g in g_exact] + [1.0])
        bad = []
        for gi, i in zip(rec['grad'], rec['index']):
            ge = g_exact[i]
            stats['components'] += 1
            if not math.isfinite(gi):
                bad.append((i, gi, float(ge)))
                continue
            err = abs(core.frac(gi) - ge)
            rel = float(err / max(abs(ge), Fraction(scale)))
            stats['max_rel_err'] = max(stats['max_rel_err'], rel) if rel <= GRAD_RTOL else stats['max_rel_err']
            if rel > GRAD_RTOL:
                bad.append((i, gi, float(ge)))
        if bad:
            i, gi, ge = bad[0]
            kink = i in c['cm']['alphas'] and c['x'][i] in (0.0, 1.0, -1.0)
            fd = None
            try:
                fd = finite_difference(c, i)
            except Exception:
                pass
            ctx.violation('gradient-wrong:%s:stitch%d%s' % (rec['backend'], rec['do_stitch'], ':breakpoint' if kink else ''),
                          'd twice_nll / d %s = %r from the gradient path, exact derivative %r (%d of %d components off)' % (
                              c['par_names'][i], gi, ge, len(bad), len(rec['grad'])),
                          replay_body(c, rec, expected=[float(g_exact[j]) for j in rec['index']], bad_components=bad[:6], central_difference_numpy=fd,
                                      theorem='C13_dual_is_derivative / C13_twice_nll_pois_chain / C13_stitched_gradient'))
            found = True
        else:
            distinct.add(json.dumps([c['id'], rec['backend'], rec['do_stitch']]))
    if tie and not found and not ctx.violations:
        ctx.violation('tie-broken', tie[:300], dict(kind='tie', detail=tie, theorem='props/C13.v'), nofail=True)
    ex = next(((k, r) for k, r in runs if r['status'] == 'ok'), None)
    ctx.coverage.update(
        evaluations=len(runs), distinct_nontrivial=len(distinct),
        rule='cases: random models of the normfactor/shapefactor/shapesys/staterror/lumi/histosys(code0|code2|code4p) family (1-2 channels, 1-4 bins, '
             '2-3 samples, products of factors allowed), parameter points with alphas in every regime and on -1, 0, 1, data incl. zeros and non-integers, '
             'random fixed masks; evaluated on jax/pytorch/tensorflow, stitched or not. non-trivial = every gradient component within 1e-7 of the exact '
             'rational derivative (Coq, dual numbers over Qc) and the value equal to the non-grad path; distinct by (case, backend, stitch)',
        tolerances=dict(gradient_rel=GRAD_RTOL, value_rel=VALUE_RTOL), stats=stats,
        samples=[dict(case=pub(cases[ex[0]]), impl={k: ex[1].get(k) for k in ('backend', 'do_stitch', 'value', 'grad', 'index')},
                      exact=[float(g) for g in exact[ex[0]][0]] if exact else None)] if ex else [])


def replay(body):
    if body.get('kind') != 'grad':
        print(body.get('detail'))
        return 0
    import pyhf
    c = body['case']
    pyhf.set_backend('numpy')
    c['cm'] = compile_model(c['spec'], c['code'], build_pdf(c['spec'], c['code']))
    rec = run_impl(c, body['config'][0], body['config'][1])
    print(json.dumps({k: rec.get(k) for k in ('status', 'msg', 'value', 'value_nograd', 'grad', 'index')}, indent=1))
    print('expected (exact) at detection:', body.get('expected'))
    return 0
