"""C13 - gradients handed to optimisers are the true gradient of the objective.

Coq side: coq/Grad.v (dual numbers as a Num instance + is_derive theorems, chain rule through stitching, derivative
formulas of the log-density terms, exact gradient of twice_nll for the restricted family by evaluating the rate model
of coq/FitRate.v at Qc dual numbers) and coq/GradInterp.v (derivative of every interpolation code in every regime and on
the breakpoints, one-sided derivatives at the kinks of codes 0/1, product/sum rule for cells with histosys and normsys
pieces, gradient of 2*nll for models with normsys factors: xgrad).  The harness diffs
shim(..., do_grad=True)['func'](pars) on jax / pytorch / tensorflow, stitched or not, with
  * the exact rational gradient (Qc duals, Grad.model_grad) for models without transcendental pieces, and
  * for models with normsys factors (interpolation codes 1 and 4) a 40-digit reference that is certified against the real
    instance of the Coq model by `interval` goals  |GradInterp.xgrad M x j - reference| <= 1e-10 * scale.
At the genuine kinks (code0 / code1 at alpha = 0) the demanded number is the one-sided derivative of the branch the
comparison `alpha > 0` selects there, i.e. the LEFT derivative (GradInterp.*_left_derivative)."""
import copy
import json
import math
import os
import threading
from concurrent.futures import ThreadPoolExecutor
from fractions import Fraction

from harness import core, facts
from harness.props import c05

GRAD_RTOL = 1e-7
VALUE_RTOL = 1e-10
CERT_RTOL = 1e-10          # |Coq model - reference| certified by interval, relative to the gradient scale
BACKENDS = ['jax', 'pytorch', 'tensorflow']
CODES = {'code0': 'Code0', 'code2': 'Code2', 'code4p': 'Code4p'}
NCODES = {'code1': 'NCode1', 'code4': '(NCode4 1)'}      # pyhf builds code4 with its default alpha0 = 1


# ----------------------------------------------------------------------------------------------
def gen_spec(rng):
    """1-2 channels, 1-4 bins, 2-3 samples; every modifier type without transcendental pieces:
    normfactor, shapefactor, shapesys, staterror, lumi, histosys (code0 / code2 / code4p chosen per model)."""
    nch = rng.choice([1, 1, 2])
    code = rng.choice(['code0', 'code0', 'code2', 'code4p', 'code4p'])
    use_lumi = rng.random() < 0.35
    chans = []
    for ci in range(nch):
        nb = rng.choice([1, 2, 3, 4])
        nsamp = rng.choice([2, 2, 3])
        samples = []
        used_sf = False
        for si in range(nsamp):
            scale = rng.choice([2.0, 10.0, 40.0, 150.0])
            nom = [round(scale * rng.uniform(0.4, 2.0), rng.choice([0, 1, 2])) or 1.0 for _ in range(nb)]
            mods = []
            if si == 0:
                mods.append({'name': 'mu', 'type': 'normfactor', 'data': None})
            pool = ['shapesys', 'staterror', 'normfactor', 'histosys', 'histosys', 'lumi' if use_lumi else 'histosys']
            if not used_sf:
                pool.append('shapefactor')
            for kind in rng.sample(pool, rng.choice([0, 1, 1, 2, 3]) if si else rng.choice([0, 1, 2])):
                if any(m['type'] == kind for m in mods) and kind != 'histosys':
                    continue
                if kind == 'normfactor':
                    mods.append({'name': 'k%d' % rng.randrange(2), 'type': 'normfactor', 'data': None})
                elif kind == 'shapefactor':
                    used_sf = True
                    mods.append({'name': 'sf_%d' % ci, 'type': 'shapefactor', 'data': None})
                elif kind == 'shapesys':
                    mods.append({'name': 'unc_%d_%d' % (ci, si), 'type': 'shapesys', 'data': [round(v * rng.uniform(0.05, 0.4), 3) or 0.5 for v in nom]})
                elif kind == 'staterror':
                    mods.append({'name': 'stat_%d' % ci, 'type': 'staterror', 'data': [round(v * rng.uniform(0.03, 0.3), 3) or 0.25 for v in nom]})
                elif kind == 'lumi':
                    mods.append({'name': 'lumi', 'type': 'lumi', 'data': None})
                elif kind == 'histosys':
                    nm = 'h%d' % rng.randrange(3)
                    if any(m['name'] == nm for m in mods):
                        continue
                    mods.append({'name': nm, 'type': 'histosys', 'data': {
                        'hi_data': [round(v * rng.uniform(1.0, 1.4), 2) for v in nom],
                        'lo_data': [round(v * rng.uniform(0.6, 1.05), 2) for v in nom]}})
            names = [m['name'] for m in mods]
            mods = [m for i, m in enumerate(mods) if m['name'] not in names[:i]]
            samples.append({'name': 's%d_%d' % (ci, si), 'data': nom, 'modifiers': mods})
        chans.append({'name': 'ch%d' % ci, 'samples': samples})
    spec = {'channels': chans}
    if any(m['type'] == 'lumi' for c in chans for s in c['samples'] for m in s['modifiers']):
        spec['parameters'] = [{'name': 'lumi', 'auxdata': [1.0], 'sigmas': [rng.choice([0.02, 0.05, 0.1])], 'bounds': [[0.5, 1.5]], 'inits': [1.0]}]
    return spec, code


def gen_spec_binwise(rng):
    """POI-less models whose parameters are all bin-wise (shapesys / staterror / shapefactor only): every parameter is read
    through direct gathers only (main term and constraint term), the case in which autodiff engines may hand back sparse
    gradients with repeated indices."""
    nch = rng.choice([1, 1, 2])
    chans = []
    for ci in range(nch):
        nb = rng.choice([1, 2, 3, 4])
        nsamp = rng.choice([1, 2, 2, 3])
        samples = []
        kinds_ch = []
        for si in range(nsamp):
            scale = rng.choice([5.0, 20.0, 80.0])
            nom = [round(scale * rng.uniform(0.5, 2.0), rng.choice([0, 1, 2])) or 1.0 for _ in range(nb)]
            pool = ['shapesys', 'staterror', 'staterror'] + ([] if 'shapefactor' in kinds_ch else ['shapefactor'])
            mods = []
            for kind in rng.sample(pool, rng.choice([1, 1, 2])):
                if any(m['type'] == kind for m in mods):
                    continue
                kinds_ch.append(kind)
                if kind == 'shapefactor':
                    mods.append({'name': 'sf_%d' % ci, 'type': 'shapefactor', 'data': None})
                elif kind == 'shapesys':
                    mods.append({'name': 'unc_%d_%d' % (ci, si), 'type': 'shapesys', 'data': [round(v * rng.uniform(0.05, 0.4), 3) or 0.5 for v in nom]})
                else:
                    mods.append({'name': 'stat_%d' % ci, 'type': 'staterror', 'data': [round(v * rng.uniform(0.03, 0.3), 3) or 0.25 for v in nom]})
            samples.append({'name': 's%d_%d' % (ci, si), 'data': nom, 'modifiers': mods})
        chans.append({'name': 'ch%d' % ci, 'samples': samples})
    return {'channels': chans}, 'code0'


def gen_spec_ns(rng, ncode):
    """models with normsys factors (interpolation code `ncode` in {code1, code4}) next to normfactor / histosys / shapesys /
    staterror / lumi: 1-2 channels, 1-3 bins, 2-3 samples; normsys names are shared between samples with different lo / hi"""
    nch = rng.choice([1, 1, 2])
    code = rng.choice(['code0', 'code2', 'code4p'])
    use_lumi = rng.random() < 0.25
    chans = []
    have_ns = False
    for ci in range(nch):
        nb = rng.choice([1, 2, 3])
        nsamp = rng.choice([2, 2, 3])
        samples = []
        for si in range(nsamp):
            scale = rng.choice([5.0, 20.0, 60.0, 150.0])
            nom = [round(scale * rng.uniform(0.5, 2.0), rng.choice([0, 1, 2])) or 1.0 for _ in range(nb)]
            mods = []
            if si == 0:
                mods.append({'name': 'mu', 'type': 'normfactor', 'data': None})
            nns = rng.choice([1, 1, 2]) if (si or not have_ns) else rng.choice([0, 1])
            for nm in rng.sample(['n0', 'n1', 'n2'], nns):
                have_ns = True
                r = rng.random()
                if r < 0.7:          # the usual case lo < 1 < hi
                    lo, hi = round(rng.uniform(0.6, 0.98), 3), round(rng.uniform(1.02, 1.5), 3)
                elif r < 0.85:       # same-side variations (a genuine kink also for the slopes' signs)
                    lo, hi = round(rng.uniform(1.02, 1.3), 3), round(rng.uniform(1.05, 1.5), 3)
                else:                # inverted
                    lo, hi = round(rng.uniform(1.02, 1.4), 3), round(rng.uniform(0.7, 0.98), 3)
                mods.append({'name': nm, 'type': 'normsys', 'data': {'hi': hi, 'lo': lo}})
            for kind in rng.sample(['histosys', 'shapesys', 'staterror', 'lumi' if use_lumi else 'histosys', 'normfactor'], rng.choice([0, 1, 1, 2])):
                if any(m['type'] == kind for m in mods):
                    continue
                if kind == 'normfactor':
                    mods.append({'name': 'k0', 'type': 'normfactor', 'data': None})
                elif kind == 'shapesys':
                    mods.append({'name': 'unc_%d_%d' % (ci, si), 'type': 'shapesys', 'data': [round(v * rng.uniform(0.05, 0.4), 3) or 0.5 for v in nom]})
                elif kind == 'staterror':
                    mods.append({'name': 'stat_%d' % ci, 'type': 'staterror', 'data': [round(v * rng.uniform(0.03, 0.3), 3) or 0.25 for v in nom]})
                elif kind == 'lumi':
                    mods.append({'name': 'lumi', 'type': 'lumi', 'data': None})
                else:
                    mods.append({'name': 'h%d' % rng.randrange(2), 'type': 'histosys', 'data': {
                        'hi_data': [round(v * rng.uniform(1.0, 1.4), 2) for v in nom],
                        'lo_data': [round(v * rng.uniform(0.6, 1.05), 2) for v in nom]}})
            names = [m['name'] for m in mods]
            mods = [m for i, m in enumerate(mods) if m['name'] not in names[:i]]
            samples.append({'name': 's%d_%d' % (ci, si), 'data': nom, 'modifiers': mods})
        chans.append({'name': 'ch%d' % ci, 'samples': samples})
    spec = {'channels': chans}
    if any(m['type'] == 'lumi' for c in chans for s in c['samples'] for m in s['modifiers']):
        spec['parameters'] = [{'name': 'lumi', 'auxdata': [1.0], 'sigmas': [rng.choice([0.02, 0.05, 0.1])], 'bounds': [[0.5, 1.5]], 'inits': [1.0]}]
    return spec, code


def build_pdf(spec, code, ncode='code4', poi='mu'):
    import pyhf
    return pyhf.Model(copy.deepcopy(spec), poi_name=poi, validate=True,
                      modifier_settings={'normsys': {'interpcode': ncode}, 'histosys': {'interpcode': code}})


def case_pdf(case):
    return build_pdf(case['spec'], case['code'], case.get('ncode', 'code4'), case.get('poi', 'mu'))


def compile_model(spec, code, pdf, ncode='code4'):
    """own rate model: bins -> cells (nominal, histosys pieces, factor indices, normsys factors); constraint terms; auxdata layout"""
    cfg = pdf.config
    chans = {c['name']: c for c in spec['channels']}
    bins, pois, gaus, alphas, nalphas = [], {}, {}, set(), set()
    lumi_sigma = {p['name']: p for p in spec.get('parameters', [])}
    for cname in cfg.channels:
        ch = chans[cname]
        nb = len(ch['samples'][0]['data'])
        stat = {}
        for s in ch['samples']:
            for m in s['modifiers']:
                if m['type'] == 'staterror':
                    st = stat.setdefault(m['name'], dict(nom=[Fraction(0)] * nb, d2=[Fraction(0)] * nb))
                    for b in range(nb):
                        st['nom'][b] += core.frac(s['data'][b])
                        st['d2'][b] += core.frac(m['data'][b]) ** 2
        for b in range(nb):
            cells = []
            for s in ch['samples']:
                idx, hs, ns = [], [], []
                for m in s['modifiers']:
                    sl = cfg.par_slice(m['name'])
                    t = m['type']
                    if t in ('normfactor', 'lumi'):
                        idx.append(sl.start)
                        if t == 'lumi':
                            gaus[sl.start] = (1 / core.frac(lumi_sigma['lumi']['sigmas'][0]) ** 2)
                    elif t in ('shapefactor', 'shapesys', 'staterror'):
                        assert sl.stop - sl.start == nb
                        idx.append(sl.start + b)
                        if t == 'shapesys':
                            pois[sl.start + b] = (core.frac(s['data'][b]) / core.frac(m['data'][b])) ** 2
                    elif t == 'histosys':
                        hs.append((code, core.frac(m['data']['lo_data'][b]), core.frac(m['data']['hi_data'][b]), sl.start))
                        gaus[sl.start] = Fraction(1)
                        alphas.add(sl.start)
                    elif t == 'normsys':
                        ns.append((ncode, core.frac(m['data']['lo']), core.frac(m['data']['hi']), sl.start))
                        gaus[sl.start] = Fraction(1)
                        alphas.add(sl.start)
                        nalphas.add(sl.start)
                    else:
                        raise ValueError('modifier outside the family: ' + t)
                cells.append((core.frac(s['data'][b]), hs, idx, ns))
            bins.append(cells)
        for name, st in stat.items():
            sl = cfg.par_slice(name)
            for b in range(nb):
                gaus[sl.start + b] = st['nom'][b] ** 2 / st['d2'][b]
    aux = []
    for name in cfg.auxdata_order:
        sl = cfg.par_slice(name)
        for i in range(sl.start, sl.stop):
            aux.append(('pois', i) if i in pois else ('gaus', i))
    assert len(aux) == len(cfg.auxdata), 'auxdata layout'
    return dict(bins=bins, pois=pois, gaus=gaus, aux=aux, npars=cfg.npars, nmain=len(bins), alphas=sorted(alphas), nalphas=sorted(nalphas),
                code=code, ncode=ncode)


HEADER = '''From Coq Require Import ZArith QArith Qcanon Bool List.
Require Import PV.Num PV.Run PV.FitRate PV.Grad.
Import ListNotations.
Definition mkh (c : icode) (lo hi : Qc) (i : nat) : hsys QcNum := @Build_hsys QcNum c lo hi i.
Definition mkcell (nom : Qc) (hs : list (hsys QcNum)) (idx : list nat) : cell QcNum := @Build_cell QcNum nom hs idx.
Definition mkmodel (bins : list (Qc * list (cell QcNum))) (pois gaus : list (Qc * Qc * nat)) : model QcNum := @Build_model QcNum bins pois gaus.
Definition run_grad (M : model QcNum) (x : list Qc) :=
  (map qout (model_grad QcNum M x), map (fun nb => qout (bin_rate QcNum x (snd nb))) (m_bins QcNum M)).
'''


def coq_model(cm, data):
    def cell(c):
        assert not c[3], 'normsys factors are evaluated over R (coq_xmodel)'
        hs = core.clist(c[1], lambda h: '(mkh %s %s %s %d%%nat)' % (CODES[h[0]], core.q(h[1]), core.q(h[2]), h[3]))
        return '(mkcell %s %s %s)' % (core.q(c[0]), hs, core.clist(c[2], lambda i: '%d%%nat' % i))
    bins = core.clist(range(cm['nmain']), lambda b: '(%s, %s)' % (core.q(data[b]), core.clist(cm['bins'][b], cell)))
    pois = core.clist([(j, i) for j, (k, i) in enumerate(cm['aux']) if k == 'pois'],
                      lambda t: '(%s, %s, %d%%nat)' % (core.q(data[cm['nmain'] + t[0]]), core.q(cm['pois'][t[1]]), t[1]))
    gaus = core.clist([(j, i) for j, (k, i) in enumerate(cm['aux']) if k == 'gaus'],
                      lambda t: '(%s, %s, %d%%nat)' % (core.q(cm['gaus'][t[1]]), core.q(data[cm['nmain'] + t[0]]), t[1]))
    return '(mkmodel %s %s %s)' % (bins, pois, gaus)


# ----------------------------------------------------------------------------------------------
# models with normsys factors: reference by mpmath (proposer), certified against GradInterp.xgrad by interval goals
def rlit(x):
    f = core.frac(x)
    if f.denominator == 1:
        return '(%d)' % f.numerator
    return '(%d / %d)' % (f.numerator, f.denominator)


XHEADER = '''From Coq Require Import ZArith Reals Lra Bool List.
From Interval Require Import Tactic.
Require Import PV.Num PV.TNum PV.InterpFast PV.gen.InterpGen PV.InterpThms PV.FitCert PV.FitRate PV.Grad PV.GradInterp.
Import ListNotations.
Local Open Scope R_scope.
Definition mkh (c : icode) (lo hi : R) (i : nat) : hsys RNum := @Build_hsys RNum c lo hi i.
Definition mkn (c : ncode) (lo hi : R) (i : nat) : nsys := Build_nsys c lo hi i.
Definition mkx (nom : R) (hs : list (hsys RNum)) (idx : list nat) (ns : list nsys) : xcell := Build_xcell (@Build_cell RNum nom hs idx) ns.
(* unfold one bin down to + - * / over the literals and the interpolation atoms (delta / ddelta / nfac / dnfac at literals) *)
Ltac expose_bin := cbv [xrate_dual gbin_dual gbin_rate gcell_dual gcell_rate xcell_g x_cell x_ns mkh mkn mkx map fold_right hpiece npiece pdual pval pardual dirj par nth
   c_nom c_hs c_fac g_nom g_add g_fac g_mul p_f p_df p_i h_par n_par Nat.eqb Nat.ltb Nat.leb length d_add d_mul fst snd nadd nmul n0 RNum V]; fold RNum.
Ltac prep := cbv zeta; rsimp; cmp; cbn [andb]; rpow_res.
(* an atom as an explicit real expression: the regime is decided by lra on the literals *)
Ltac unf := cbv [mkh mkn delta ddelta dcode0 dcode2 dcode4p nfac dnfac dcode1 dcode4 h_code h_lo h_hi h_par n_code n_lo n_hi n_par two ofnat
                 Z.of_nat Pos.of_succ_nat Pos.succ slow_code1 slow_code4 c4 dpoly6 bvec A_inverse nth InterpFast.dot InterpFast.dot_from]; prep.
(* name the quantity [t] as variable [v] (equation Ev : v = t) and bound it, H : lo <= v <= hi, with bounds computed by
   interval_intro; [tac] turns the goal [t = ?e] into an explicit expression over literals and already named variables *)
Ltac bound t v Ev H tac :=
  pose (v := t); assert (Ev : v = t) by reflexivity; clearbody v;
  let e := fresh "e" in let E := fresh "E" in
  evar (e : R); assert (E : t = e) by (tac; subst e; reflexivity);
  (let b := eval unfold e in e in interval_intro b with (i_prec 64) as H);
  unfold e in E; rewrite <- E, <- Ev in H; clear E e.
'''


def _mp():
    import mpmath
    mpmath.mp.dps = 45
    return mpmath


def _mpf(fr):
    mp = _mp()
    fr = core.frac(fr)
    return mp.mpf(fr.numerator) / mp.mpf(fr.denominator)


def hpiece_exact(code, lo, nom, hi, a):
    """(value, derivative of the branch selected by the code's comparisons) of a histosys piece, exact rationals"""
    up, dn = hi - nom, nom - lo
    if code == 'code0':
        return (up * a, up) if a > 0 else (dn * a, dn)
    if code == 'code2':
        A, B = (hi + lo) / 2 - nom, (hi - lo) / 2
        if a > 1:
            return (B + 2 * A) * (a - 1) + (A + B), B + 2 * A
        if a >= -1:
            return A * a * a + B * a, 2 * A * a + B
        return (B - 2 * A) * (a + 1) + (A - B), B - 2 * A
    S, A = (up + dn) / 2, (up - dn) / 16
    if a < -1:
        return dn * a, dn
    if a > 1:
        return up * a, up
    q = a * a
    return q * (q * (q * 3 - 10) + 15) * A + a * S, S + A * (30 * a - 40 * a ** 3 + 18 * a ** 5)


_c4cache = {}


def code4_coefficients(lo, hi):
    """solve the six matching conditions at +-alpha0 = +-1 numerically (independent of pyhf's typed-in inverse matrix)"""
    mp = _mp()
    key = (lo, hi)
    if key not in _c4cache:
        du, dd = _mpf(hi), _mpf(lo)
        A = mp.matrix(6, 6)
        for j in range(6):
            k = j + 1
            A[0, j], A[1, j] = 1, (-1) ** k
            A[2, j], A[3, j] = k, k * (-1) ** (k - 1)
            A[4, j] = k * (k - 1)
            A[5, j] = k * (k - 1) * (-1) ** (k - 2) if k >= 2 else 0
        lu, ld = mp.log(du), mp.log(dd)
        b = mp.matrix([du - 1, dd - 1, lu * du, -ld * dd, lu ** 2 * du, ld ** 2 * dd])
        sol = mp.lu_solve(A, b)
        _c4cache[key] = [sol[j] for j in range(6)]
    return _c4cache[key]


def npiece_mp(ncode, lo, hi, a):
    """(value, derivative of the selected branch) of a normsys factor on the triple (lo, 1, hi); a is an exact rational"""
    mp = _mp()
    du, dd, al = _mpf(hi), _mpf(lo), _mpf(a)
    if ncode == 'code1':
        if a > 0:
            v = du ** al
            return v, mp.log(du) * v
        v = dd ** (-al)
        return v, -mp.log(dd) * v
    if a >= 1:
        v = du ** al
        return v, mp.log(du) * v
    if a <= -1:
        v = dd ** (-al)
        return v, -mp.log(dd) * v
    c = code4_coefficients(lo, hi)
    return 1 + sum(c[j] * al ** (j + 1) for j in range(6)), sum((j + 1) * c[j] * al ** j for j in range(6))


def reference_gradient(cm, data, x):
    """40-digit value of (gradient of twice_nll, expected rates) from the piecewise formulas; proposer only: every number used
    is certified against the Coq model GradInterp.xgrad / xrate_dual by an interval goal"""
    mp = _mp()
    xq = [core.frac(v) for v in x]
    xm = [_mpf(v) for v in xq]
    n = cm['npars']
    rates, drates = [], []
    for cells in cm['bins']:
        lam, dlam = mp.mpf(0), [mp.mpf(0)] * n
        for nom, hs, idx, ns in cells:
            factors = []                 # (value, derivative, parameter index)
            add, dadd = _mpf(nom), {}
            for code, lo, hi, i in hs:
                v, d = hpiece_exact(code, lo, nom, hi, xq[i])
                add += _mpf(v)
                dadd[i] = dadd.get(i, mp.mpf(0)) + _mpf(d)
            for i in idx:
                factors.append((xm[i], mp.mpf(1), i))
            for ncode, lo, hi, i in ns:
                v, d = npiece_mp(ncode, lo, hi, xq[i])
                factors.append((v, d, i))
            prod = mp.mpf(1)
            for v, _, _ in factors:
                prod *= v
            lam += add * prod
            for i, d in dadd.items():
                dlam[i] = dlam[i] + d * prod
            for k, (v, d, i) in enumerate(factors):
                rest = mp.mpf(1)
                for k2, (v2, _, _) in enumerate(factors):
                    if k2 != k:
                        rest *= v2
                dlam[i] = dlam[i] + add * d * rest
        rates.append(lam)
        drates.append(dlam)
    grad = []
    for j in range(n):
        g = mp.mpf(0)
        for b in range(cm['nmain']):
            g += (1 - _mpf(data[b]) / rates[b]) * drates[b][j]
        for t, (kind, i) in enumerate(cm['aux']):
            if i != j:
                continue
            a = _mpf(data[cm['nmain'] + t])
            if kind == 'pois':
                tau = _mpf(cm['pois'][i])
                g += (1 - a / (tau * xm[i])) * tau
            else:
                g += _mpf(cm['gaus'][i]) * (xm[i] - a)
        grad.append(2 * g)
    return grad, rates


def mp_to_frac(r):
    mp = _mp()
    return Fraction(mp.nstr(r, 38, strip_zeros=False, min_fixed=0, max_fixed=0))


def xcell_text(c):
    hs = core.clist(c[1], lambda h: '(mkh %s %s %s %d%%nat)' % (CODES[h[0]], rlit(h[1]), rlit(h[2]), h[3]))
    ns = core.clist(c[3], lambda n: '(mkn %s %s %s %d%%nat)' % (NCODES[n[0]], rlit(n[1]), rlit(n[2]), n[3]))
    return '(mkx %s %s %s %s)' % (rlit(c[0]), hs, core.clist(c[2], lambda i: '%d%%nat' % i), ns)


def xgoal(k, case):
    """Coq text certifying the reference gradient and rates of one case against GradInterp.xgrad / xbin_rate.
    Staged so that no large term is ever traversed: (1) every interpolation atom (value / derivative of one piece at its
    literal alpha) is named and bounded, (2) per bin the rate and its derivative along every parameter are named and bounded
    in terms of the atoms, (3) each gradient component is a small expression over those names."""
    cm, x, data = case['cm'], case['x'], case['data']
    g, rates = case['ref']
    n, nb = cm['npars'], cm['nmain']
    pois = core.clist([(j, i) for j, (kd, i) in enumerate(cm['aux']) if kd == 'pois'],
                      lambda t: '(%s, %s, %d%%nat)' % (rlit(data[nb + t[0]]), rlit(cm['pois'][t[1]]), t[1]))
    gaus = core.clist([(j, i) for j, (kd, i) in enumerate(cm['aux']) if kd == 'gaus'],
                      lambda t: '(%s, %s, %d%%nat)' % (rlit(cm['gaus'][t[1]]), rlit(data[nb + t[0]]), t[1]))
    out = ['Definition x_%d : list R := %s.' % (k, core.clist(x, rlit))]
    for b in range(nb):
        out.append('Definition C_%d_%d : list xcell := %s.' % (k, b, core.clist(cm['bins'][b], xcell_text)))
        out.append('Definition G_%d_%d : list gcell := map xcell_g C_%d_%d.' % (k, b, k, b))
    out.append('Definition M_%d : xmodel := Build_xmodel %s %s %s.' % (k, core.clist(range(nb), lambda b: '(%s, C_%d_%d)' % (rlit(data[b]), k, b)), pois, gaus))
    out.append('Definition GM_%d : gmodel := Build_gmodel %s %s %s.' % (k, core.clist(range(nb), lambda b: '(%s, G_%d_%d)' % (rlit(data[b]), k, b)), pois, gaus))
    atoms = {}
    for cells in cm['bins']:
        for nom, hs, idx, ns in cells:
            for code, lo, hi, i in hs:
                h = '(@Build_hsys RNum %s %s %s %d%%nat)' % (CODES[code], rlit(lo), rlit(hi), i)
                atoms.setdefault('delta RNum %s %s %s' % (h, rlit(nom), rlit(x[i])), len(atoms))
                atoms.setdefault('ddelta %s %s %s' % (h, rlit(nom), rlit(x[i])), len(atoms))
            for ncode, lo, hi, i in ns:
                nn = '(Build_nsys %s %s %s %d%%nat)' % (NCODES[ncode], rlit(lo), rlit(hi), i)
                atoms.setdefault('nfac %s %s' % (nn, rlit(x[i])), len(atoms))
                atoms.setdefault('dnfac %s %s' % (nn, rlit(x[i])), len(atoms))
    steps = ['bound (%s) v%d Ev%d H%d unf' % (t, a, a, a) for t, a in atoms.items()]
    rw1 = 'idtac' if not atoms else 'rewrite ' + ', '.join('<- ?Ev%d' % a for a in atoms.values())
    names = []
    for b in range(nb):
        opened = 'unfold x_%d, G_%d_%d, C_%d_%d; expose_bin; %s' % (k, k, b, k, b, rw1)
        steps.append('bound (gbin_rate x_%d G_%d_%d) L%d EL%d HL%d ltac:(%s)' % (k, k, b, b, b, b, opened))
        names.append('EL%d' % b)
        for j in range(n):
            steps.append('bound (snd (gbin_dual x_%d %d%%nat G_%d_%d)) D%d_%d ED%d_%d HD%d_%d ltac:(%s)' % (k, j, k, b, b, j, b, j, b, j, opened))
            names.append('ED%d_%d' % (b, j))
    rw2 = 'rewrite ' + ', '.join('<- ?%s' % nm for nm in names)
    folds = 'fold ' + ' '.join('G_%d_%d' % (k, b) for b in range(nb))
    top = ('first [ match goal with |- context [xgrad M_%d x_%d ?j] => change (xgrad M_%d x_%d j) with (ggrad GM_%d x_%d j) end; '
           'unfold ggrad, ggrad_main, ggrad_pois, ggrad_gaus, GM_%d; cbn [gm_bins gm_pois gm_gaus fold_right fst snd]; rewrite !gbin_dual_value; %s; '
           'unfold x_%d; cbv [dirj par nth Nat.eqb Nat.ltb Nat.leb length RNum n0 V]; interval with (i_prec 64) '
           '| rewrite xbin_rate_g; %s; %s; interval with (i_prec 64) ]' % (k, k, k, k, k, k, k, rw2, k, folds, rw2))
    scale = max([abs(v) for v in g] + [Fraction(1)])
    eg = Fraction(CERT_RTOL) * scale
    parts = ['Rabs (xgrad M_%d x_%d %d%%nat - %s) <= %s' % (k, k, j, rlit(g[j]), rlit(eg)) for j in range(n)]
    parts += ['Rabs (xbin_rate x_%d C_%d_%d - %s) <= %s' % (k, k, b, rlit(rates[b]), rlit(Fraction(CERT_RTOL) * max(abs(rates[b]), Fraction(1)))) for b in range(nb)]
    out.append('Goal True.\ntryif (assert (%s) by (%s;\n repeat split; %s))\nthen idtac "C13OK %d" else idtac "C13FAIL %d".\nexact I.\nQed.\n' % (
        ' /\\ '.join(parts), ';\n '.join(steps), top, k, k))
    return '\n'.join(out)


XDEPS = ('Num.v', 'TNum.v', 'InterpFast.v', 'gen/InterpGen.v', 'InterpGeneric.v', 'InterpThms.v', 'FitCert.v', 'FitRate.v', 'Grad.v', 'GradInterp.v')


def _sha(path):
    import hashlib
    try:
        return hashlib.sha256(open(path, 'rb').read()).hexdigest()
    except OSError:
        return 'missing'


def run_xgoals(ctx, items, jobs):
    """items: list of (index, case).  Returns dict index -> 'ok' | 'fail' | 'error: ...'.
    Verdicts 'ok' are cached under .work/cache-C13 keyed by sha256(goal text, header, every .v the goal depends on): identical
    text checked against identical definitions has the identical verdict."""
    import hashlib
    d = os.path.join(ctx.work, 'xgoals')
    os.makedirs(d, exist_ok=True)
    if not items:
        return {}
    cpath = os.path.join(core.WORK, 'cache-C13', 'xgoals.json')
    try:
        cache = json.load(open(cpath)) if os.environ.get('VERIF_NO_CACHE') != '1' else {}
    except (OSError, ValueError):
        cache = {}
    dep = '|'.join(_sha(os.path.join(core.COQ, p)) for p in XDEPS) + XHEADER
    texts = {k: xgoal(k, c) for k, c in items}
    hashes = {k: hashlib.sha256((dep + re_index(texts[k], k)).encode()).hexdigest() for k, _ in items}
    res = {k: 'ok' for k, _ in items if cache.get(hashes[k]) == 'ok'}
    ctx.coverage['interval_cached'] = len(res)
    todo = [k for k, _ in items if k not in res]
    if not todo:
        return res
    # big cases first, spread over the files
    todo.sort(key=lambda k: -len(texts[k]))
    nfiles = max(1, min(len(todo), 2 * jobs))
    files = []
    for f in range(nfiles):
        grp = todo[f::nfiles]
        fnm = os.path.join(d, 'xg_%d.v' % f)
        with open(fnm, 'w') as fh:
            fh.write(XHEADER)
            for k in grp:
                fh.write(texts[k])
        files.append((fnm, grp))

    def one(arg):
        fnm, ks = arg
        rc, out = core.coqc(fnm, timeout=1200)
        r = {}
        for line in out.split('\n'):
            line = line.strip()
            if line.startswith('C13OK '):
                r[int(line.split()[1])] = 'ok'
            elif line.startswith('C13FAIL '):
                r[int(line.split()[1])] = 'fail'
        for k in ks:
            r.setdefault(k, 'error: ' + out[-400:])
        if rc != 0:           # a file that does not check certifies nothing
            r = {k: ('error: ' + out[-400:]) if v == 'ok' else v for k, v in r.items()}
        return r
    with ThreadPoolExecutor(max_workers=jobs) as ex:
        for r in ex.map(one, files):
            res.update(r)
    for k in todo:
        if res.get(k) == 'ok':
            cache[hashes[k]] = 'ok'
    try:
        os.makedirs(os.path.dirname(cpath), exist_ok=True)
        if len(cache) > 50000:
            cache = {}
        tmp = cpath + '.%d.tmp' % os.getpid()
        json.dump(cache, open(tmp, 'w'))
        os.replace(tmp, cpath)
    except OSError:
        pass
    return res


def re_index(text, k):
    """goal text with the case index normalised (the verdict does not depend on the position of the case in the run)"""
    import re
    return re.sub(r'(?<![A-Za-z0-9])(x|M|GM|C|G)_%d(?![0-9])' % k, r'\1_K', text).replace('C13OK %d' % k, 'C13OK K').replace('C13FAIL %d' % k, 'C13FAIL K')


# ----------------------------------------------------------------------------------------------
def rate_float(cm, x):
    out = []
    for cells in cm['bins']:
        r = 0.0
        for nom, hs, idx, ns in cells:
            t = float(nom)
            for code, lo, hi, i in hs:
                t += delta_float(code, float(lo), float(nom), float(hi), x[i])
            for i in idx:
                t *= x[i]
            for ncode, lo, hi, i in ns:
                t *= nfac_float(ncode, float(lo), float(hi), x[i])
            r += t
        out.append(r)
    return out


def nfac_float(ncode, lo, hi, a):
    if ncode == 'code1' or abs(a) >= 1:
        return hi ** a if a > 0 else lo ** (-a)
    c = [float(v) for v in code4_coefficients(Fraction(lo), Fraction(hi))]
    return 1 + sum(c[j] * a ** (j + 1) for j in range(6))


def delta_float(code, lo, nom, hi, a):
    up, dn = hi - nom, nom - lo
    if code == 'code0':
        return up * a if a > 0 else dn * a
    if code == 'code2':
        A, B = 0.5 * (hi + lo) - nom, 0.5 * (hi - lo)
        if a > 1:
            return (B + 2 * A) * (a - 1) + (A + B)
        if a >= -1:
            return A * a * a + B * a
        return (B - 2 * A) * (a + 1) + (A - B)
    S, A = 0.5 * (up + dn), 0.0625 * (up - dn)
    if a < -1:
        return dn * a
    if a > 1:
        return up * a
    q = a * a
    return q * (q * (q * 3 - 10) + 15) * A + a * S


ALPHA_POINTS = [0.0, 1.0, -1.0, 0.5, -0.5, 2.0, -2.0, 1.5, -1.25, 1e-9, -1e-9, 1.0000001, -0.9999999]
# regimes a normsys parameter is put into, in turn (the parameter is free in that case): every regime and every breakpoint
NS_FOCUS = {'code4': [1.0, -1.0, 0.0, 0.5, -0.25, 1.75, -2.5, 1.0, -1.0, 0.9999999999999999, -1.0000000000000002, 0.0],
            'code1': [0.0, 1.0, -1.0, 0.5, -0.75, 2.25, -1.5, 1e-300, -1e-9, 0.0]}


def gen_point(rng, cm, k):
    """a parameter point: alphas cover every interpolation regime and sit on the breakpoints for the first points of a model"""
    x = []
    for i in range(cm['npars']):
        if i in cm['alphas']:
            r = rng.random()
            x.append(rng.choice([0.0, 1.0, -1.0]) if r < 0.35 else ALPHA_POINTS[(k * 3 + i) % len(ALPHA_POINTS)] if r < 0.75
                     else round(rng.uniform(-2.5, 2.5), rng.choice([1, 3, 15])))
        else:
            x.append(rng.choice([1.0, round(rng.uniform(0.3, 2.2), rng.choice([1, 3, 15]))]))
    return x


def gen_data(rng, cm, x):
    lam = rate_float(cm, x)
    main = []
    for v in lam:
        r = rng.random()
        main.append(float(c05._poisson(rng, max(v, 0.01))) if r < 0.5 else (0.0 if r < 0.6 else round(max(0.0, rng.gauss(v, math.sqrt(max(v, 1e-3)))), 2)))
    aux = []
    for kind, i in cm['aux']:
        if kind == 'pois':
            tau = float(cm['pois'][i])
            aux.append(tau if rng.random() < 0.5 else round(max(0.0, rng.gauss(tau, math.sqrt(tau))), 3))
        else:
            centre = 0.0 if i in cm['alphas'] else 1.0
            aux.append(centre if rng.random() < 0.5 else round(rng.gauss(centre, 1.0 / math.sqrt(float(cm['gaus'][i]))), 4))
    return main + aux


def make_case(rng, k, family='plain', small=False, slot=None):
    """family: 'plain' (no transcendental piece, POI mu), 'binwise' (POI-less, bin-wise parameters only), 'code1' / 'code4'
    (normsys factors with that interpolation code; at most 6 bins and 10 parameters, small: 4 and 8 - the cost of the interval goals grows with bins x parameters)"""
    import pyhf
    pyhf.set_backend('numpy')
    for _ in range(200):
        ncode, poi = 'code4', 'mu'
        if family == 'binwise':
            spec, code = gen_spec_binwise(rng)
            poi = None
        elif family in ('code1', 'code4'):
            ncode = family
            spec, code = gen_spec_ns(rng, ncode)
        else:
            spec, code = gen_spec(rng)
        pdf = build_pdf(spec, code, ncode, poi)
        cm = compile_model(spec, code, pdf, ncode)
        x = gen_point(rng, cm, k)
        mask = [rng.random() < 0.25 for _ in range(cm['npars'])]
        focus = None
        if family in ('code1', 'code4'):
            if not cm['nalphas'] or cm['nmain'] > (4 if small else 6) or cm['npars'] > (8 if small else 10):
                continue
            a0 = cm['nalphas'][k % len(cm['nalphas'])]
            sched = NS_FOCUS[ncode]
            x[a0] = sched[(k if slot is None else slot) % len(sched)]
            mask[a0] = False
            focus = a0
            if rng.random() < 0.5:           # a second interpolation parameter (histosys or normsys) on a breakpoint of its own code
                a1 = rng.choice(cm['alphas'])
                if a1 != a0:
                    x[a1] = rng.choice([0.0, 1.0, -1.0])
                    mask[a1] = False
        elif cm['alphas'] and rng.random() < 0.7:          # sit exactly on a breakpoint with a free alpha: 0 for code0, +-1 otherwise
            a0 = rng.choice(cm['alphas'])
            x[a0] = 0.0 if code == 'code0' else rng.choice([1.0, -1.0])
            mask[a0] = False
            focus = a0
        if family in ('plain', 'binwise') and rng.random() < 0.35:
            # a FREE parameter exactly on one of its bounds (mu = 0, mu = 10, an alpha on -5/5, a gamma on 10): the objective is
            # smooth there, the gradient is the ordinary derivative (an implementation that clips into the box halves it)
            bnds = [(float(a), float(b)) for a, b in pdf.config.suggested_bounds()]
            i0 = rng.randrange(cm['npars'])
            lo_, hi_ = bnds[i0]
            x[i0] = lo_ if (lo_ <= 0.0 and rng.random() < 0.7) else hi_
            mask[i0] = False
            on_bound = i0
        if min(rate_float(cm, x)) <= 1e-3:
            continue
        data = gen_data(rng, cm, x)
        if all(mask):
            mask[rng.randrange(len(mask))] = False
        if rng.random() < 0.3:
            mask = [False] * cm['npars']
        return dict(id='%s%d' % ({'plain': 'g', 'binwise': 'b', 'code1': 'n1_', 'code4': 'n4_'}[family], k), family=family, spec=spec, code=code,
                    ncode=ncode, poi=poi, cm=cm, npars=cm['npars'], x=x, data=data, mask=mask, focus=focus, par_names=list(pdf.config.par_names),
                    bounds=[[float(a), float(b)] for a, b in pdf.config.suggested_bounds()])
    raise RuntimeError('could not generate a case')


def pub(case):
    return {k: v for k, v in case.items() if k not in ('cm', 'ref', '_cfg')}


# ----------------------------------------------------------------------------------------------
def run_impl(case, backend, do_stitch):
    """(value, gradient) from the grad path, value from the non-grad path, at the case's point"""
    import numpy as np
    import pyhf
    from pyhf.optimize.common import shim
    pyhf.set_backend(backend, 'scipy', precision='64b')
    pdf = case_pdf(case)
    tl = pyhf.tensorlib
    x, mask = case['x'], case['mask']
    fixed_vals = [(i, x[i]) for i in range(case['npars']) if mask[i]]
    vidx = [i for i in range(case['npars']) if not mask[i]]
    rec = dict(backend=backend, do_stitch=do_stitch)
    try:
        with np.errstate(all='ignore'):
            kw, _ = shim(pyhf.infer.mle.twice_nll, list(case['data']), pdf, list(x), [tuple(b) for b in case['bounds']], fixed_vals, do_grad=True, do_stitch=do_stitch)
            pars = [x[i] for i in vidx] if do_stitch else list(x)
            point = tl.astensor(pars) if backend != 'jax' else pars
            flt = lambda g: [float(v) for v in np.asarray(tl.tolist(g) if not isinstance(g, np.ndarray) else g).reshape(-1)]
            val, grad = kw['func'](point)
            rec['value'] = float(np.asarray(val).reshape(-1)[0])
            rec['grad'] = flt(grad)
            # the SAME point object evaluated once more: the gradient is a function of the point, not of what was evaluated before,
            # and the gradient handed out by the first call is still the gradient
            val_b, grad_b = kw['func'](point)
            rec['grad_repeat'] = flt(grad_b)
            rec['grad_first_after_repeat'] = flt(grad)
            kw2, _ = shim(pyhf.infer.mle.twice_nll, list(case['data']), pdf, list(x), [tuple(b) for b in case['bounds']], fixed_vals, do_grad=False, do_stitch=do_stitch)
            v2 = kw2['func'](tl.astensor(pars) if backend != 'jax' else pars)
            rec['value_nograd'] = float(np.asarray(tl.tolist(v2)).reshape(-1)[0])
            rec['rates'] = [float(v) for v in tl.tolist(pdf.expected_actualdata(tl.astensor(list(x))))]
        rec['status'] = 'ok'
        rec['index'] = vidx if do_stitch else list(range(case['npars']))
    except Exception as e:
        rec['status'] = core.exc_enum(e)
        rec['msg'] = str(e)[:200]
    return rec


def finite_difference(case, j, h=1e-6):
    """central and one-sided differences of pyhf's own numpy twice_nll (diagnostic only, goes into the replay)"""
    import numpy as np
    import pyhf
    pyhf.set_backend('numpy')
    pdf = case_pdf(case)

    def f(t):
        xx = list(case['x'])
        xx[j] += t
        with np.errstate(all='ignore'):
            return float(pyhf.infer.mle.twice_nll(xx, np.asarray(case['data']), pdf)[0])
    f0 = f(0.0)
    return dict(central=(f(h) - f(-h)) / (2 * h), left=(f0 - f(-h)) / h, right=(f(h) - f0) / h)


def fd_gradient(case, h=1e-4):
    """central differences of pyhf's own numpy twice_nll along every parameter that is not within 2h of an interpolation
    breakpoint (None there): the property evaluated on the implementation itself, used when the model side is unavailable"""
    import numpy as np
    import pyhf
    pyhf.set_backend('numpy')
    pdf = case_pdf(case)
    out = []
    for j in range(case['npars']):
        a = case['x'][j]
        if j in case['cm']['alphas'] and min(abs(a), abs(a - 1), abs(a + 1)) <= 2 * h:
            out.append(None)
            continue
        xp, xm = list(case['x']), list(case['x'])
        xp[j] += h
        xm[j] -= h
        with np.errstate(all='ignore'):
            out.append(float((pyhf.infer.mle.twice_nll(xp, np.asarray(case['data']), pdf)[0] - pyhf.infer.mle.twice_nll(xm, np.asarray(case['data']), pdf)[0]) / (2 * h)))
    return out


def replay_body(case, rec, **kw):
    d = dict(kind='grad', case=pub(case), config=[rec['backend'], rec['do_stitch']],
             impl={k: rec.get(k) for k in ('status', 'value', 'value_nograd', 'grad', 'grad_repeat', 'grad_first_after_repeat', 'index', 'msg')})
    d.update(kw)
    return d


def load_corpus():
    import glob
    return [json.load(open(fn)) for fn in sorted(glob.glob(os.path.join(core.VERIF, 'corpus', 'C13', '*.json')))]


def regime_of(a):
    return 'kink0' if a == 0 else 'at+1' if a == 1 else 'at-1' if a == -1 else 'inner' if -1 < a < 1 else 'above' if a > 1 else 'below'


def configs_for(ctx, k, c):
    """(backend, do_stitch) pairs of one case"""
    if c.get('_cfg') is not None:
        return list(c['_cfg'])
    if not ctx.quick or c['family'] == 'binwise':
        return [(be, s) for be in BACKENDS for s in (False, True)]
    out = []
    for bi, be in enumerate(BACKENDS):
        if be == 'tensorflow' and k % 3 and c['family'] == 'plain':
            continue
        out.append((be, bool((k + bi) % 2)))
    return out


def run(ctx):
    rng = ctx.rng
    tie = None
    # the interpolation theorems are about the definitions translated from the current source: regenerate them first
    try:
        from harness.props import c03
        c03.extract(ctx)
    except facts.TieBroken as e:
        tie = 'translation of the scalar reference interpolators failed: %s' % e
    # bring the libraries the case files import up to date before anything is evaluated against them
    core.coq_make(['Grad.vo', 'GradInterp.vo'], timeout=1500)
    proof = {}

    def prove_bg():
        try:
            proof['r'] = core.prove(ctx)
        except Exception as e:      # pragma: no cover
            proof['r'] = (False, 'prove crashed: %r' % e)
    th_prove = threading.Thread(target=prove_bg)
    th_prove.start()
    ctx.trusted += ['jax / torch / tensorflow automatic differentiation are modelled by their outputs',
                    'harness/props/c13.py: compile_model (own rate model of the normfactor/shapefactor/shapesys/staterror/lumi/histosys/normsys family; '
                    'parameter and auxdata layout from the public ModelConfig); its rates are validated against expected_actualdata on every case',
                    'models without normsys: exact gradient = FitRate.bin_rate evaluated at dual numbers over Qc (Grad.model_grad); over R that text is '
                    'proved to be the derivative of 2*nll wherever it exists and its left derivative at the kinks of code 0 '
                    '(C13_grad_coord_is_derivative / C13_grad_coord_left_derivative), the histosys pieces being the codes translated from the source',
                    'models with normsys: mpmath (45 digits) only proposes the reference gradient and rates; every case is certified against the real '
                    'instance of the Coq model (GradInterp.xgrad, xrate_dual: C13_xgrad_is_derivative / C13_xgrad_left_derivative) by interval goals, '
                    'relative tolerance %g; an uncertified case is reported as a broken tie' % CERT_RTOL,
                    'harness/props/c03_translate.py (python ast -> Gallina for the scalar reference interpolators the derivative theorems are about)']
    ctx.assumptions += ['exact rational gradients for models without transcendental modifier pieces; interval-certified references for normsys (code1, code4 with pyhf\'s alpha0 = 1)',
                        'at the kinks of code0 / code1 (alpha = 0) no derivative exists: the one-sided (left) derivative of the branch selected by `alpha > 0` is demanded',
                        '2*nll differs from twice_nll by a parameter-independent constant; rates are strictly positive at every generated point']
    cases = []
    import pyhf
    for body in load_corpus():
        c = body['case']
        pyhf.set_backend('numpy')
        c.setdefault('family', 'plain')
        c['cm'] = compile_model(c['spec'], c['code'], case_pdf(c), c.get('ncode', 'code4'))
        c['_cfg'] = [tuple(body['config'])]
        cases.append(c)
    nplain, nbin, nns = ctx.n(24, 150), ctx.n(6, 30), ctx.n(20, 80)
    cases += [make_case(rng, k, 'plain') for k in range(nplain)]
    cases += [make_case(rng, k, 'binwise') for k in range(nbin)]
    fams = ['code4' if k % 5 < 3 else 'code1' for k in range(nns)]
    cases += [make_case(rng, k, fams[k], small=ctx.quick, slot=fams[:k].count(fams[k])) for k in range(nns)]
    ctx.log('generated %d cases' % len(cases))
    qidx = [k for k, c in enumerate(cases) if not c['cm']['nalphas']]
    ridx = [k for k, c in enumerate(cases) if c['cm']['nalphas']]
    exact = {}
    coq = {}
    jobs = max(2, core.NCPU // 2)

    def qc_bg():
        # exact gradients in Coq (they do not depend on the implementation)
        try:
            exprs = ['run_grad %s %s' % (coq_model(cases[k]['cm'], cases[k]['data']), core.qlist(cases[k]['x'])) for k in qidx]
            per = max(1, (len(exprs) + jobs - 1) // jobs)
            res = core.coq_eval(ctx, 'grads', HEADER, exprs, shard=per, timeout=1200, jobs=jobs)
            for k, r in zip(qidx, res):
                exact[k] = c05.parse(r)
        except core.CoqEvalError as e:
            coq['qc_error'] = 'model evaluation failed: %s' % str(e)[-800:]

    def r_bg():
        try:
            for k in ridx:
                g, rates = reference_gradient(cases[k]['cm'], cases[k]['data'], cases[k]['x'])
                cases[k]['ref'] = ([mp_to_frac(v) for v in g], [mp_to_frac(v) for v in rates])
                exact[k] = cases[k]['ref']
            th_prove.join()                  # the goal files import GradInterp.vo
            if proof['r'][0]:
                coq['cert'] = run_xgoals(ctx, [(k, cases[k]) for k in ridx], jobs)
            else:
                coq['cert'] = {k: 'error: GradInterp does not build' for k in ridx}
        except Exception as e:      # pragma: no cover
            coq['r_error'] = 'reference / certification machinery failed: %r' % e
    th_q = threading.Thread(target=qc_bg)
    th_r = threading.Thread(target=r_bg)
    th_q.start()
    th_r.start()
    # implementation
    runs = []
    for be in BACKENDS:
        for k, c in enumerate(cases):
            for b2, ds in configs_for(ctx, k, c):
                if b2 == be:
                    runs.append((k, run_impl(c, be, ds)))
    ctx.log('ran %d gradient evaluations' % len(runs))
    th_prove.join()
    th_q.join()
    th_r.join()
    ok, txt = proof['r']
    if not ok:
        tie = tie or ('proof obligations of props/C13.v no longer check: ' + txt[-1200:])
    for key in ('qc_error', 'r_error'):
        if key in coq:
            tie = tie or coq[key]
    cert = coq.get('cert', {})
    uncert = [k for k in ridx if cert.get(k) != 'ok']
    if uncert and ok:
        k = uncert[0]
        tie = tie or ('reference gradient of case %s is not certified against GradInterp.xgrad (%s)' % (cases[k]['id'], str(cert.get(k))[:300]))
    ctx.log('exact gradients: %d in Qc, %d interval-certified of %d normsys cases' % (len([k for k in qidx if k in exact]), len(ridx) - len(uncert), len(ridx)))
    stats = dict(evaluations=len(runs), ok=0, components=0, by_backend={}, stitched=0, with_fixed=0, codes={}, ncodes={}, families={}, alpha_regimes={},
                 normsys_regimes={}, errors={}, max_rel_err=0.0, rate_mismatch=0, fd_searched=0, interval_cases=len(ridx), interval_certified=len(ridx) - len(uncert),
                 poi_less=0)
    distinct = set()
    found = False
    for k, rec in runs:
        c = cases[k]
        cm = c['cm']
        if rec['status'] != 'ok':
            stats['errors'][rec['status']] = stats['errors'].get(rec['status'], 0) + 1
            ctx.violation('grad-path-raises:%s:%s' % (rec['backend'], rec['status']), 'value-and-gradient function raised %s: %s' % (rec['status'], rec.get('msg')),
                          replay_body(c, rec))
            found = True
            continue
        stats['ok'] += 1
        stats['by_backend'][rec['backend']] = stats['by_backend'].get(rec['backend'], 0) + 1
        stats['stitched'] += bool(rec['do_stitch'])
        stats['with_fixed'] += any(c['mask'])
        stats['poi_less'] += c.get('poi', 'mu') is None
        stats['families'][c['family']] = stats['families'].get(c['family'], 0) + 1
        if cm['alphas'] != cm['nalphas']:
            stats['codes'][c['code']] = stats['codes'].get(c['code'], 0) + 1
        for i in cm['alphas']:
            reg = regime_of(c['x'][i])
            if i in cm['nalphas']:
                key = '%s:%s%s' % (cm['ncode'], reg, '' if c['mask'][i] else ':free')
                stats['normsys_regimes'][key] = stats['normsys_regimes'].get(key, 0) + 1
            else:
                key = '%s:%s%s' % (c['code'], reg, '' if c['mask'][i] else ':free')
                stats['alpha_regimes'][key] = stats['alpha_regimes'].get(key, 0) + 1
        if cm['nalphas']:
            stats['ncodes'][cm['ncode']] = stats['ncodes'].get(cm['ncode'], 0) + 1
        if not all(math.isfinite(v) for v in [rec['value'], rec['value_nograd']] + rec['grad']):
            ctx.violation('nonfinite:%s:stitch%d' % (rec['backend'], rec['do_stitch']), 'value-and-gradient function returned a non-finite number at a point with '
                          'strictly positive rates (value %r, plain path %r)' % (rec['value'], rec['value_nograd']), replay_body(c, rec))
            found = True
            continue
        # value of the grad path = value of the non-grad path
        if not core.close(core.frac(rec['value_nograd']), rec['value'], rtol=VALUE_RTOL, atol=1e-9):
            ctx.violation('grad-path-value:%s' % rec['backend'], 'objective from the gradient path %r differs from the plain path %r' % (rec['value'], rec['value_nograd']),
                          replay_body(c, rec, expected=rec['value_nograd']))
            found = True
        if k not in exact:
            continue
        g_exact, rates = exact[k]
        # own rate model validated against the implementation's expected rates (a mismatch is a broken tie, not a gradient bug)
        if any(not core.close(r, ri, rtol=1e-9, atol=1e-9) for r, ri in zip(rates, rec['rates'])) or len(rates) != len(rec['rates']):
            stats['rate_mismatch'] += 1
            tie = tie or 'own rate model disagrees with expected_actualdata on case %s: %r vs %r' % (c['id'], [float(r) for r in rates][:5], rec['rates'][:5])
            # the model side is unusable for this case: evaluate the property on the implementation itself (gradient path against
            # central differences of the plain path, away from the breakpoints)
            if stats['fd_searched'] < 8:
                stats['fd_searched'] += 1
                try:
                    fd = fd_gradient(c)
                except Exception:
                    fd = None
                if fd is not None:
                    sc = max([abs(v) for v in fd if v is not None] + [1.0])
                    off = [(i, gi, fd[i]) for gi, i in zip(rec['grad'], rec['index']) if fd[i] is not None and abs(gi - fd[i]) > 1e-5 * sc]
                    if off:
                        i, gi, ge = off[0]
                        ctx.violation('gradient-vs-finite-difference:%s:stitch%d' % (rec['backend'], rec['do_stitch']),
                                      'd twice_nll / d %s = %r from the gradient path on %s, central difference of the plain path %r' % (c['par_names'][i], gi, rec['backend'], ge),
                                      replay_body(c, rec, expected=[fd[j] for j in rec['index']], bad_components=off[:6], theorem='search: gradient path vs central differences'))
                        found = True
            continue
        for which in ('grad_repeat', 'grad_first_after_repeat'):
            g2 = rec.get(which)
            if g2 is not None and (len(g2) != len(rec['grad']) or any(abs(a - b) > 1e-9 * max(1.0, abs(a)) for a, b in zip(rec['grad'], g2))):
                ctx.violation('gradient-depends-on-call-history:%s' % rec['backend'],
                              'evaluating the value-and-gradient function a second time on the same point object changes the gradient (%s): first %r, then %r'
                              % ('second call' if which == 'grad_repeat' else 'the array returned by the first call', rec['grad'], g2),
                              replay_body(c, rec, expected=rec['grad']))
                found = True
                break
        if len(rec['grad']) != len(rec['index']):
            ctx.violation('gradient-dimension:%s' % rec['backend'], 'gradient has %d components for %d parameters' % (len(rec['grad']), len(rec['index'])), replay_body(c, rec))
            found = True
            continue
        scale = max([abs(float(g)) for g in g_exact] + [1.0])
        bad = []
        for gi, i in zip(rec['grad'], rec['index']):
            ge = g_exact[i]
            stats['components'] += 1
            if not math.isfinite(gi):
                bad.append((i, gi, float(ge)))
                continue
            err = abs(core.frac(gi) - ge)
            rel = float(err / max(abs(ge), Fraction(scale)))
            stats['max_rel_err'] = max(stats['max_rel_err'], rel) if rel <= GRAD_RTOL else stats['max_rel_err']
            if rel > GRAD_RTOL:
                bad.append((i, gi, float(ge)))
        if bad:
            i, gi, ge = bad[0]
            a = c['x'][i]
            kink = i in cm['alphas'] and a in (0.0, 1.0, -1.0)
            what_par = ('normsys(%s)' % cm['ncode']) if i in cm['nalphas'] else ('histosys(%s)' % c['code']) if i in cm['alphas'] else 'non-interpolation'
            fd = None
            try:
                fd = finite_difference(c, i)
            except Exception:
                pass
            if cm['ncode'] == 'code1' and all(j in cm['nalphas'] and c['x'][j] == 0.0 for j, _, _ in bad):
                # the exponent |alpha| of the vectorised code1 is differentiated by the backend's abs rule at 0 instead of by the selected branch
                sig = 'kink-code1-abs-gradient:%s' % rec['backend']
            else:
                sig = 'gradient-wrong:%s:stitch%d%s' % (rec['backend'], rec['do_stitch'], ':breakpoint' if kink else '')
            ctx.violation(sig,
                          'd twice_nll / d %s = %r from the gradient path on %s (do_stitch=%s), %s %r (%d of %d components off); %s parameter at %r' % (
                              c['par_names'][i], gi, rec['backend'], rec['do_stitch'],
                              'left derivative (branch selected by `alpha > 0` at the kink)' if (kink and a == 0.0) else 'exact derivative', ge, len(bad), len(rec['grad']),
                              what_par, a),
                          replay_body(c, rec, expected=[float(g_exact[j]) for j in rec['index']], bad_components=bad[:6], differences_numpy=fd,
                                      certified=(cert.get(k) == 'ok') if k in ridx else 'exact (Qc)',
                                      theorem='C13_xgrad_is_derivative / C13_xgrad_left_derivative' if k in ridx else
                                      'C13_grad_coord_is_derivative / C13_grad_coord_left_derivative / C13_stitched_gradient'))
            found = True
        elif k in qidx or cert.get(k) == 'ok':
            distinct.add(json.dumps([c['id'], rec['backend'], rec['do_stitch']]))
    if tie and not found and not ctx.violations:
        ctx.violation('tie-broken', tie[:300], dict(kind='tie', detail=tie, theorem='props/C13.v'), nofail=True)
    ex = next(((k, r) for k, r in runs if r['status'] == 'ok' and k in exact), None)
    exn = next(((k, r) for k, r in runs if r['status'] == 'ok' and k in ridx and k in exact), None)
    ctx.coverage.update(
        evaluations=len(runs), distinct_nontrivial=len(distinct),
        rule='cases: random models of the normfactor/shapefactor/shapesys/staterror/lumi/histosys(code0|code2|code4p)/normsys(code1|code4) family (1-2 channels, '
             '1-4 bins, 1-3 samples, products of factors allowed; POI-less models with bin-wise parameters only), parameter points with alphas in every '
             'regime and exactly on -1, 0, 1 (normsys parameters are put in turn on every breakpoint and into every regime, free), data incl. zeros and '
             'non-integers, random fixed masks; evaluated on jax/pytorch/tensorflow, stitched or not. non-trivial = every gradient component within 1e-7 of '
             'the exact derivative (Qc duals, or interval-certified reference for normsys models) and the value equal to the non-grad path; distinct by '
             '(case, backend, stitch)',
        tolerances=dict(gradient_rel=GRAD_RTOL, value_rel=VALUE_RTOL, certification_rel=CERT_RTOL), stats=stats,
        samples=[dict(case=pub(cases[e[0]]), impl={k: e[1].get(k) for k in ('backend', 'do_stitch', 'value', 'grad', 'index')},
                      exact=[float(g) for g in exact[e[0]][0]]) for e in (ex, exn) if e])


def replay(body):
    if body.get('kind') != 'grad':
        print(body.get('detail'))
        return 0
    import pyhf
    c = body['case']
    pyhf.set_backend('numpy')
    rec = run_impl(c, body['config'][0], body['config'][1])
    print(json.dumps({k: rec.get(k) for k in ('status', 'msg', 'value', 'value_nograd', 'grad', 'index')}, indent=1))
    print('expected (exact) at detection:', body.get('expected'))
    return 0
