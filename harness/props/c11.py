"""C11 - results are independent of the history of backend switches.

extract(ctx)  : python ast -> coq/gen/FactsC11.v (per tensor-holding class: cached / refreshed / read attributes,
                subscription, member construction order, guards, shape cache)   [fail closed]
run(ctx)      : prove props/C11.v ; random histories of set_backend / create / delete / evaluate run against the
                real pyhf with an instrumented events registry, the same histories replayed by the Coq model
                (Events.run_hist) which predicts every trigger, every _precompute invocation and the raw registry
                length ; every live object compared with a freshly built one under the current backend.
"""
import ast
import copy
import gc
import json
import os
import weakref

from harness import core, facts

# files that hold the objects the property talks about (models, interpolators, viewers)
ANCHORS = ['pdf.py', 'constraints.py', 'tensor/common.py', 'parameters/paramview.py',
           'interpolators/code0.py', 'interpolators/code1.py', 'interpolators/code2.py', 'interpolators/code4.py',
           'interpolators/code4p.py', 'modifiers/histosys.py', 'modifiers/normsys.py', 'modifiers/shapesys.py',
           'modifiers/staterror.py', 'modifiers/shapefactor.py', 'modifiers/normfactor.py', 'modifiers/lumi.py']
EVENT = 'tensorlib_changed'
INTERP = '<interpolator>'


# =========================================================================================
# fact extraction
def _is_self_attr(n):
    return isinstance(n, ast.Attribute) and isinstance(n.value, ast.Name) and n.value.id == 'self'


def _mangle(cls, attr):
    if attr.startswith('__') and not attr.endswith('__'):
        return '_' + cls.lstrip('_') + attr
    return attr


def _calls_get_backend(node):
    for n in ast.walk(node):
        if isinstance(n, ast.Call) and isinstance(n.func, ast.Name) and n.func.id == 'get_backend':
            return True
        if isinstance(n, ast.Call) and isinstance(n.func, ast.Attribute) and n.func.attr == 'get_backend':
            return True
    return False


class _Method:
    """syntactic summary of one method of a class"""

    def __init__(self, cls, fn, backend_funcs):
        self.cls, self.fn, self.name = cls, fn, fn.name
        self.backend_names = set()
        self.backend_funcs = backend_funcs
        self._find_backend_names()
        self.calls = set()         # self.m(...) calls
        for n in ast.walk(fn):
            if isinstance(n, ast.Call) and _is_self_attr(n.func):
                self.calls.add(n.func.attr)
        self.loads = {}            # attr -> first lineno loaded
        self.stores = []           # (attr, value-node or None, lineno, stmt)
        self._collect()

    def _find_backend_names(self):
        """names bound to the current tensor backend:  `tensorlib, _ = get_backend()` / `tb = get_backend()[0]`"""
        n_get = 0
        for n in ast.walk(self.fn):
            if isinstance(n, ast.Call) and ((isinstance(n.func, ast.Name) and n.func.id == 'get_backend')
                                            or (isinstance(n.func, ast.Attribute) and n.func.attr == 'get_backend')):
                n_get += 1
                if n.args or n.keywords:
                    raise facts.TieBroken('%s.%s: get_backend called with arguments' % (self.cls, self.name))
        n_rec = 0
        for n in ast.walk(self.fn):
            if isinstance(n, ast.Assign) and len(n.targets) == 1 and _calls_get_backend(n.value):
                t, v = n.targets[0], n.value
                if isinstance(v, ast.Call) and isinstance(t, ast.Tuple) and len(t.elts) == 2 and isinstance(t.elts[0], ast.Name):
                    self.backend_names.add(t.elts[0].id)
                    n_rec += 1
                elif isinstance(v, ast.Subscript) and isinstance(v.value, ast.Call) and isinstance(t, ast.Name) \
                        and isinstance(v.slice, ast.Constant) and v.slice.value == 0:
                    self.backend_names.add(t.id)
                    n_rec += 1
        if n_rec != n_get:
            raise facts.TieBroken('%s.%s: unrecognised use of get_backend()' % (self.cls, self.name))

    def _collect(self):
        for n in ast.walk(self.fn):
            if _is_self_attr(n) and isinstance(n.ctx, ast.Load):
                a = _mangle(self.cls, n.attr)
                self.loads[a] = min(self.loads.get(a, 10 ** 9), n.lineno)
        for st in ast.walk(self.fn):
            if isinstance(st, ast.Assign):
                for t in st.targets:
                    self._store_target(t, st.value, st)
            elif isinstance(st, ast.AugAssign):
                self._store_target(st.target, st.value, st)
            elif isinstance(st, ast.AnnAssign) and st.value is not None:
                self._store_target(st.target, st.value, st)
            elif isinstance(st, (ast.Delete,)):
                for t in st.targets:
                    if _is_self_attr(t):
                        raise facts.TieBroken('%s.%s deletes self.%s' % (self.cls, self.name, t.attr))
            elif isinstance(st, ast.Call) and isinstance(st.func, ast.Name) and st.func.id in ('setattr', 'delattr'):
                raise facts.TieBroken('%s.%s uses %s' % (self.cls, self.name, st.func.id))

    def _store_target(self, t, value, st):
        if isinstance(t, (ast.Tuple, ast.List)):
            for e in t.elts:
                self._store_target(e, value, st)
        elif _is_self_attr(t):
            self.stores.append((_mangle(self.cls, t.attr), value, st.lineno, st))
        elif isinstance(t, ast.Subscript):
            b = t.value
            while isinstance(b, ast.Subscript):
                b = b.value
            if _is_self_attr(b):
                self.stores.append((_mangle(self.cls, b.attr), value, st.lineno, st))
        elif isinstance(t, ast.Starred):
            self._store_target(t.value, value, st)

    def tainted_locals(self, cached):
        """local names holding backend-typed values (flow-insensitive fixpoint)"""
        loc = set()
        changed = True
        while changed:
            changed = False
            for st in ast.walk(self.fn):
                if isinstance(st, ast.Assign) and self.expr_tainted(st.value, cached, loc):
                    for t in st.targets:
                        for e in ast.walk(t):
                            if isinstance(e, ast.Name) and e.id not in loc and e.id not in self.backend_names:
                                loc.add(e.id)
                                changed = True
        return loc

    def expr_tainted(self, e, cached, loc):
        for n in ast.walk(e):
            if isinstance(n, ast.Call):
                f = n.func
                if isinstance(f, ast.Attribute) and isinstance(f.value, ast.Name) and f.value.id in self.backend_names:
                    return True
                if isinstance(f, ast.Name) and f.id in self.backend_funcs:
                    return True
            if _is_self_attr(n) and isinstance(n.ctx, ast.Load) and _mangle(self.cls, n.attr) in cached:
                return True
            if isinstance(n, ast.Name) and n.id in loc:
                return True
        return False


def _closure(methods, start):
    seen, todo = set(), [start]
    while todo:
        m = todo.pop()
        if m in seen or m not in methods:
            continue
        seen.add(m)
        todo += list(methods[m].calls)
    return seen


def _top_guards(fn, methods=None):
    """conditions of leading `if c: return [None]` statements (before anything else happens to self); a leading
    `x = self.m(...)` followed by `if x is None: return ...` inherits the guards of method m"""
    out = []
    pending = {}
    for st in fn.body:
        if isinstance(st, ast.Expr) and isinstance(st.value, ast.Constant):
            continue   # docstring
        if methods is not None and isinstance(st, ast.Assign) and len(st.targets) == 1 and isinstance(st.targets[0], ast.Name) \
                and isinstance(st.value, ast.Call) and _is_self_attr(st.value.func) and st.value.func.attr in methods:
            pending[st.targets[0].id] = _top_guards(methods[st.value.func.attr].fn)
            continue
        if isinstance(st, ast.If) and not st.orelse and isinstance(st.test, ast.Compare) and isinstance(st.test.left, ast.Name) \
                and st.test.left.id in pending and len(st.test.ops) == 1 and isinstance(st.test.ops[0], ast.Is) \
                and isinstance(st.test.comparators[0], ast.Constant) and st.test.comparators[0].value is None \
                and isinstance(st.body[-1], ast.Return):
            out += pending.pop(st.test.left.id)
            continue
        if isinstance(st, ast.If) and not st.orelse and len(st.body) == 1 and isinstance(st.body[0], ast.Return) \
                and (st.body[0].value is None or (isinstance(st.body[0].value, ast.Constant) and st.body[0].value.value is None)):
            out.append(ast.unparse(st.test))
            continue
        if isinstance(st, ast.Assign) and _calls_get_backend(st.value):
            continue
        break
    return out


def _module_tables(trees):
    """module-level functions: which ones return backend-typed values, which are factories of table classes"""
    funcs = {}
    for rel, tree in trees.items():
        for n in tree.body:
            if isinstance(n, ast.FunctionDef):
                funcs[n.name] = n
    backend_funcs = {name for name, fn in funcs.items() if _calls_get_backend(fn)}
    return funcs, backend_funcs


def _resolve_callee(call, funcs, classes, depth=0):
    """class name (or INTERP) constructed by this call expression, None if it constructs no table object"""
    if not isinstance(call, ast.Call) or depth > 6:
        return None
    f = call.func
    if isinstance(f, ast.Name):
        if f.id in classes:
            return f.id
        if f.id in funcs:
            res = set()
            for n in ast.walk(funcs[f.id]):
                if isinstance(n, ast.Return) and n.value is not None and not (isinstance(n.value, ast.Constant) and n.value.value is None):
                    res.add(_resolve_callee(n.value, funcs, classes, depth + 1))
            res.discard(None)
            if len(res) > 1:
                raise facts.TieBroken('factory %s returns objects of several classes' % f.id)
            return res.pop() if res else None
    if isinstance(f, ast.Attribute) and f.attr in classes:
        return f.attr
    if isinstance(f, ast.Call) and isinstance(f.func, ast.Name) and f.func.id == 'getattr' and f.args \
            and isinstance(f.args[0], ast.Name) and f.args[0].id == 'interpolators':
        return INTERP
    if isinstance(f, ast.Call) and isinstance(f.func, ast.Attribute) and isinstance(f.func.value, ast.Name) \
            and f.func.value.id == 'interpolators' and f.func.attr == 'get':
        return INTERP
    return None


def _stmt_index(init, node):
    """index of the top-level statement of __init__ that contains node"""
    for i, st in enumerate(init.body):
        for n in ast.walk(st):
            if n is node:
                return i, st
    raise facts.TieBroken('statement not found')


def extract_class(rel, cd, funcs, backend_funcs, classes, ext_loads):
    cls = cd.name
    methods = {}
    for n in cd.body:
        if isinstance(n, ast.FunctionDef):
            methods[n.name] = _Method(cls, n, backend_funcs)
        elif isinstance(n, ast.AsyncFunctionDef):
            raise facts.TieBroken('%s: async method' % cls)
    has_pre = '_precompute' in methods
    # cached attributes: fixpoint of "assigned from a backend-typed expression"
    cached = set()
    changed = True
    while changed:
        changed = False
        for m in methods.values():
            loc = m.tainted_locals(cached)
            for a, v, _, _ in m.stores:
                if a not in cached and v is not None and m.expr_tainted(v, cached, loc):
                    cached.add(a)
                    changed = True
    if not has_pre and not cached:
        return None
    init = methods.get('__init__')
    if init is None:
        raise facts.TieBroken('%s: no __init__' % cls)
    pre = _closure(methods, '_precompute') if has_pre else set()
    # methods reachable only from __init__
    callers = {m: {c for c, mm in methods.items() if m in mm.calls} for m in methods}
    init_only = set()
    changed = True
    while changed:
        changed = False
        for m in methods:
            if m in init_only or m == '__init__' or m in pre:
                continue
            if callers[m] and all(c == '__init__' or c in init_only for c in callers[m]) and m.startswith('_') and not m.startswith('__'):
                init_only.add(m)
                changed = True
    evalm = sorted(m for m in methods if m != '__init__' and m not in pre and m not in init_only)
    refreshed, pre_loads, first_store, first_load = set(), set(), {}, {}
    for m in pre:
        for a, v, ln, _ in methods[m].stores:
            refreshed.add(a)
            first_store[a] = min(first_store.get(a, 10 ** 9), ln)
        for a, ln in methods[m].loads.items():
            pre_loads.add(a)
            first_load[a] = min(first_load.get(a, 10 ** 9), ln)
    read = set()
    for m in evalm:
        for mm in _closure(methods, m):
            if mm != '__init__':
                read |= set(methods[mm].loads)
    read -= set(methods)
    read |= cached & ext_loads         # attributes of this name read through another object anywhere in the package
    # subscription
    subs = []
    for n in ast.walk(cd):
        if isinstance(n, ast.Attribute) and isinstance(n.value, ast.Name) and n.value.id == 'events':
            subs.append(n)
    subscribes, conditional, sub_idx = False, False, None
    if subs:
        if len(subs) != 1 or subs[0].attr != 'subscribe':
            raise facts.TieBroken('%s: unrecognised use of the events module' % cls)
        found = None
        for n in ast.walk(init.fn):
            if isinstance(n, ast.Call) and isinstance(n.func, ast.Call) and n.func.func is subs[0]:
                found = n
        if found is None or len(found.func.args) != 1 or not isinstance(found.func.args[0], ast.Constant) \
                or len(found.args) != 1 or not _is_self_attr(found.args[0]):
            raise facts.TieBroken('%s: subscription is not of the form events.subscribe(<name>)(self.<method>) in __init__' % cls)
        if found.func.args[0].value == EVENT and found.args[0].attr == '_precompute':
            subscribes = True
        sub_idx, st = _stmt_index(init.fn, found)
        if isinstance(st, ast.Expr) and st.value is found:
            conditional = False
        elif isinstance(st, ast.If) and isinstance(st.test, ast.Name) and st.test.id in [a.arg for a in init.fn.args.args] \
                and not st.orelse and len(st.body) == 1 and isinstance(st.body[0], ast.Expr) and st.body[0].value is found:
            conditional = True
        else:
            raise facts.TieBroken('%s: subscription sits inside unrecognised control flow' % cls)
    sub_hazards = []
    if conditional:
        args = init.fn.args
        names_ = [a.arg for a in args.args]
        pname = init.fn.body[sub_idx].test.id
        k = names_.index(pname) - (len(names_) - len(args.defaults))
        if k < 0 or not (isinstance(args.defaults[k], ast.Constant) and args.defaults[k].value is True):
            sub_hazards.append('subscribe-default-not-True')
    # members constructed in __init__
    members = []
    for a, v, ln, st in init.stores:
        c = _resolve_callee(v, funcs, classes) if v is not None else None
        if c is not None:
            idx, top = _stmt_index(init.fn, st)
            members.append((a, c, idx))
            if len(v.args) > 1 or any(kw.arg in (None, 'subscribe') for kw in v.keywords):
                if c == INTERP or any(kw.arg in (None, 'subscribe') for kw in v.keywords):
                    sub_hazards.append('member-may-be-unsubscribed:' + a)
    for m in methods.values():
        if m.name != '__init__':
            for a, v, ln, st in m.stores:
                if v is not None and _resolve_callee(v, funcs, classes) is not None:
                    raise facts.TieBroken('%s.%s constructs a tensor-holding member outside __init__' % (cls, m.name))
    members.sort(key=lambda t: t[2])
    pre_call_idx = None
    for n in ast.walk(init.fn):
        if isinstance(n, ast.Call) and _is_self_attr(n.func) and n.func.attr == '_precompute':
            pre_call_idx = _stmt_index(init.fn, n)[0]
    members_before = all(i < (sub_idx if sub_idx is not None else 10 ** 9) and (pre_call_idx is None or i < pre_call_idx)
                         for _, _, i in members)
    init_pre_before_sub = pre_call_idx is not None and (sub_idx is None or pre_call_idx < sub_idx)
    mnames = {a for a, _, _ in members}
    pre_members = sorted(a for a in pre_loads if a in mnames)
    # hazards inside _precompute
    hazards = list(sub_hazards)
    for a in sorted(pre_loads & cached - refreshed):
        hazards.append('stale-dependency:' + a)
    for a in sorted(refreshed & pre_loads):
        if first_load[a] <= first_store[a] and not _same_stmt_rebind_ok(methods, pre, a):
            hazards.append('read-before-write:' + a)
    neutral = pre_loads - refreshed - mnames
    for m in evalm:
        for mm in _closure(methods, m):
            if mm == '__init__' or mm in pre:
                continue
            for a, v, ln, _ in methods[mm].stores:
                if a in neutral and a != 'alphasets_shape':
                    hazards.append('neutral-data-reassigned:%s in %s' % (a, mm))
    # guards
    pre_guards = _top_guards(methods['_precompute'].fn) if has_pre else []
    unguarded = []
    for m in evalm:
        reads_cached = set(methods[m].loads) & cached      # each method answers for its own reads
        if reads_cached and not set(pre_guards) <= set(_top_guards(methods[m].fn, methods)):
            unguarded.append(m)
    # shape cache
    shape_attrs, shape_refreshed, shape_ok = [], [], True
    if any(a == 'alphasets_shape' for m in methods.values() for a, _, _, _ in m.stores):
        dep = {'alphasets_shape'}
        changed = True
        while changed:
            changed = False
            for m in pre:
                for a, v, _, _ in methods[m].stores:
                    if a not in dep and v is not None and any(_is_self_attr(n) and _mangle(cls, n.attr) in dep for n in ast.walk(v)):
                        dep.add(a)
                        changed = True
        shape_attrs = sorted(dep - {'alphasets_shape'})
        setters = [m for m in methods.values() if m.name != '__init__' and any(a == 'alphasets_shape' for a, _, _, _ in m.stores)]
        if len(setters) != 1:
            raise facts.TieBroken('%s: alphasets_shape assigned in %d methods besides __init__' % (cls, len(setters)))
        s = setters[0]
        shape_refreshed = sorted({a for a, _, _, _ in s.stores} - {'alphasets_shape'})
        g = _top_guards(s.fn)
        arg = [a.arg for a in s.fn.args.args][1:]
        shape_ok = len(arg) == 1 and g in (['%s == self.alphasets_shape' % arg[0]], ['self.alphasets_shape == %s' % arg[0]]) \
            and any(a == 'alphasets_shape' and isinstance(v, ast.Name) and v.id == arg[0] for a, v, _, _ in s.stores) \
            and s.name in {c for m in evalm for c in methods[m].calls}
        if not shape_ok:
            hazards.append('shape-cache-protocol:' + s.name)
    return dict(name=cls, file=rel, has_precompute=has_pre, cached=sorted(cached), refreshed=sorted(refreshed), read=sorted(read),
                subscribes=subscribes, conditional=conditional, members=[(a, c) for a, c, _ in members],
                members_before=members_before and (init_pre_before_sub or not has_pre), pre_members=pre_members,
                hazards=hazards, pre_guards=pre_guards, unguarded_eval=unguarded,
                shape_attrs=shape_attrs, shape_refreshed=shape_refreshed, eval_methods=evalm)


def _same_stmt_rebind_ok(methods, pre, a):
    """`self.x = f(self.x)` directly after `self.x = ...` is fine: the first store precedes the first load"""
    return False


def coq_facts(tab):
    def sl(xs):
        return '[' + '; '.join(core.cstr(x) for x in xs) + ']'
    rows = []
    for c in tab:
        rows.append('  {| cf_name := %s; cf_has_pre := %s; cf_cached := %s; cf_refreshed := %s; cf_read := %s;\n'
                    '     cf_subscribes := %s; cf_conditional := %s; cf_members := %s; cf_members_before := %s;\n'
                    '     cf_pre_members := %s; cf_hazards := %s; cf_pre_guarded := %s; cf_unguarded_eval := %s;\n'
                    '     cf_shape_attrs := %s; cf_shape_refreshed := %s |}' % (
                        core.cstr(c['name']), core.cbool(c['has_precompute']), sl(c['cached']), sl(c['refreshed']), sl(c['read']),
                        core.cbool(c['subscribes']), core.cbool(c['conditional']),
                        '[' + '; '.join('(%s, %s)' % (core.cstr(a), core.cstr(k)) for a, k in c['members']) + ']',
                        core.cbool(c['members_before']), sl(c['pre_members']), sl(c['hazards']),
                        core.cbool(bool(c['pre_guards'])), sl(c['unguarded_eval']),
                        sl(c['shape_attrs']), sl(c['shape_refreshed'])))
    return ('Require Import PV.Events.\nOpen Scope string_scope.\n'
            'Definition facts_c11 : list cfacts := [\n' + ';\n'.join(rows) + '\n].\n')


def extract(ctx=None, write=True):
    trees = {}
    for rel in ANCHORS:
        trees[rel] = facts.parse(rel)[0]
    funcs, backend_funcs = _module_tables(trees)
    # attribute names loaded through anything but `self`, anywhere in the package
    ext_loads = set()
    for root, _, files in os.walk(core.SRC):
        for fn in sorted(files):
            if fn.endswith('.py'):
                rel = os.path.relpath(os.path.join(root, fn), core.SRC)
                t = trees.get(rel) or facts.parse(rel)[0]
                for n in ast.walk(t):
                    if isinstance(n, ast.Attribute) and isinstance(n.ctx, ast.Load) and not _is_self_attr(n):
                        ext_loads.add(n.attr)
    # the interpolator family (what getattr(interpolators, code) can return)
    itree, _ = facts.parse('interpolators/__init__.py')
    interps = None
    for n in itree.body:
        if isinstance(n, ast.Assign) and len(n.targets) == 1 and isinstance(n.targets[0], ast.Name) and n.targets[0].id == '__all__':
            if not (isinstance(n.value, ast.List) and all(isinstance(e, ast.Constant) and isinstance(e.value, str) for e in n.value.elts)):
                raise facts.TieBroken('interpolators.__all__ is not a literal list')
            interps = [e.value for e in n.value.elts]
    if not interps:
        raise facts.TieBroken('interpolators.__all__ not found')
    classdefs = [(rel, n) for rel, t in trees.items() for n in t.body if isinstance(n, ast.ClassDef)]
    # table classes = classes with a _precompute or with backend-typed attributes; two passes so that members resolve
    names = {cd.name for _, cd in classdefs if any(isinstance(n, ast.FunctionDef) and n.name == '_precompute' for n in cd.body)}
    tab = []
    for rel, cd in classdefs:
        r = extract_class(rel, cd, funcs, backend_funcs, names, ext_loads)
        if r is not None:
            tab.append(r)
    got = {c['name'] for c in tab}
    if not names <= got:
        raise facts.TieBroken('classes with _precompute missing from the table')
    for c in tab:
        for a, k in c['members']:
            if k != INTERP and k not in got:
                raise facts.TieBroken('%s.%s holds an object of unknown class %s' % (c['name'], a, k))
    if not tab:
        raise facts.TieBroken('no tensor-holding class found')
    # set_backend: fire events iff changed; order of statements
    mgr = manager_facts()
    for k in interps:
        if k not in got:
            raise facts.TieBroken('interpolator class %s holds no tensors / has no _precompute' % k)
    if write:
        facts.write_gen('FactsC11', coq_facts(tab) + 'Definition interp_classes : list string := %s.\n' % facts.coq_strlist(interps) + mgr['coq'])
    return dict(classes=tab, manager=mgr['facts'], interps=interps)


def manager_facts():
    """shape of set_backend that the model transcribes: the two change tests, state swap before the triggers,
    trigger order, _setup last.  Emitted as booleans so that props/C11.v can tie the model's flags to them."""
    tree, _ = facts.parse('tensor/manager.py')
    fn = facts.find_func(tree, 'set_backend')
    src = {}
    order = []
    for st in fn.body:
        for n in ast.walk(st):
            if isinstance(n, ast.Assign) and len(n.targets) == 1 and isinstance(n.targets[0], ast.Name) \
                    and n.targets[0].id in ('tensorlib_changed', 'optimizer_changed'):
                src[n.targets[0].id] = ast.unparse(n.value)
                order.append('test:' + n.targets[0].id)
        if isinstance(st, ast.Assign) and ast.unparse(st.targets[0]) == "this.state['current']":
            order.append('swap')
            src['swap'] = ast.unparse(st.value)
        if isinstance(st, ast.If) and isinstance(st.test, ast.Name) and st.test.id in ('tensorlib_changed', 'optimizer_changed'):
            body = ast.unparse(st.body[0]) if len(st.body) == 1 and not st.orelse else '?'
            order.append('fire:%s:%s' % (st.test.id, body))
        if isinstance(st, ast.Expr) and ast.unparse(st.value) == 'new_backend._setup()':
            order.append('setup')
    want_order = ['test:tensorlib_changed', 'test:optimizer_changed', 'swap',
                  "fire:tensorlib_changed:events.trigger('tensorlib_changed')()",
                  "fire:optimizer_changed:events.trigger('optimizer_changed')()", 'setup']
    tl_test = src.get('tensorlib_changed', '').replace(' ', '')
    want_tl = "bool((new_backend.name!=this.state['current'][0].name)|(new_backend.precision!=this.state['current'][0].precision))"
    opt_test = src.get('optimizer_changed', '').replace(' ', '')
    want_opt = "bool(this.state['current'][1]!=new_optimizer)"
    deco = [ast.unparse(d) for d in fn.decorator_list]
    f = dict(order_ok=order == want_order, tensorlib_test_ok=tl_test == want_tl, optimizer_test_ok=opt_test == want_opt,
             swap_ok=src.get('swap', '').replace(' ', '') == '(new_backend,new_optimizer)',
             registered=deco == ["events.register('change_backend')"], order=order)
    # events.Callables: append keeps order, call iterates in order and flushes afterwards
    etree, _ = facts.parse('events.py')
    cal = facts.find_class(etree, 'Callables')
    call = facts.find_func(cal, '__call__')
    f['call_loop_then_flush'] = (len(call.body) == 2 and isinstance(call.body[0], ast.For)
                                 and ast.unparse(call.body[0].iter) == 'self._callbacks'
                                 and ast.unparse(call.body[1]) == 'self._flush()')
    app = facts.find_func(cal, 'append')
    f['append_at_end'] = ast.unparse(app.body[-1]) == 'self._callbacks.append(callback_ref)'
    f['weak_self'] = 'weakref.ref(callback.__self__)' in ast.unparse(app)
    coq = ('Definition set_backend_shape_ok : bool := %s.\nDefinition callables_shape_ok : bool := %s.\n' % (
        core.cbool(f['order_ok'] and f['tensorlib_test_ok'] and f['optimizer_test_ok'] and f['swap_ok'] and f['registered']),
        core.cbool(f['call_loop_then_flush'] and f['append_at_end'] and f['weak_self'])))
    return dict(facts=f, coq=coq)


# =========================================================================================
# instrumentation (harness side only: wraps pyhf.events.trigger / subscribe and the classes' _precompute)
BACKENDS = ['numpy', 'jax', 'pytorch', 'tensorflow']
PRECS = ['64b', '32b']
OPTS = ['scipy', 'minuit']
COQ_B = dict(numpy='Numpy', jax='Jax', pytorch='Pytorch', tensorflow='Tensorflow')
COQ_P = {'64b': 'B64', '32b': 'B32'}
COQ_O = dict(scipy='Scipy', minuit='Minuit')


class Tracker:
    """process-wide observation of the events machinery"""
    inst = None

    def __init__(self, table):
        import importlib
        import pyhf
        from pyhf import events
        self.pyhf, self.events = pyhf, events
        self.table = {c['name']: c for c in table}
        self.order = [c['name'] for c in table]
        self.cname = None
        self.log = []               # ('trigger', name) | ('pre', serial) | ('sub', serial, cls, event)
        self.serials = {}           # id(obj) -> (serial, weakref)
        self.objs = {}              # serial -> weakref
        self.next_serial = 0
        self.roots = []             # live trees, in subscription order: dict(root=serial, stamp=None, members=[serials], tree=...)
        self.classes = {}
        for c in table:
            mod = importlib.import_module('pyhf.' + c['file'][:-3].replace('/', '.'))
            k = getattr(mod, c['name'])
            self.classes[c['name']] = k
            if c['has_precompute']:
                self._wrap_pre(k)
        self._orig_trigger, self._orig_subscribe = events.trigger, events.subscribe
        tr = self

        def trigger(event):
            tr.log.append(('trigger', event))
            return tr._orig_trigger(event)

        def subscribe(event):
            deco = tr._orig_subscribe(event)

            def d(func):
                o = getattr(func, '__self__', None)
                tr.log.append(('sub', tr.serial(o) if o is not None else -1, type(o).__name__ if o is not None else '<function>', event))
                return deco(func)
            return d
        events.trigger, events.subscribe = trigger, subscribe
        # import every backend once, then park everything allocated so far in the permanent generation:
        # gc.collect() after a deletion then only walks what the histories allocate (0.4 s -> a few ms per call)
        import logging
        logging.getLogger('pyhf').setLevel(logging.CRITICAL)
        for b in BACKENDS:
            pyhf.set_backend(b)
        pyhf.set_backend('numpy')
        self.log = []
        gc.collect()
        gc.freeze()

    def _wrap_pre(self, k):
        orig = k._precompute
        tr = self

        def _precompute(self_, *a, **kw):
            tr.log.append(('pre', tr.serial(self_)))
            return orig(self_, *a, **kw)
        _precompute.__wrapped__ = orig
        k._precompute = _precompute

    def serial(self, o):
        e = self.serials.get(id(o))
        if e is not None and e[1]() is o:
            return e[0]
        s = self.next_serial
        self.next_serial += 1
        w = weakref.ref(o)
        self.serials[id(o)] = (s, w)
        self.objs[s] = w
        return s

    def alive(self, serial):
        w = self.objs.get(serial)
        return w is not None and w() is not None

    def registry(self):
        return vars(self.events)['__events'].get(EVENT)

    def raw_len(self):
        r = self.registry()
        return len(r._callbacks) if r is not None else 0

    def take(self):
        l, self.log = self.log, []
        return l

    @classmethod
    def get(cls, table):
        if cls.inst is None:
            cls.inst = Tracker(table)
        return cls.inst


SHAPES = {}


def shape_id(t):
    t = tuple(int(x) for x in t)
    return SHAPES.setdefault(t, len(SHAPES) + 1)


def obj_tree(tr, o, mattr=''):
    """(cls, mattr, active, shape, kids, serial) following the member attributes named by the fact table"""
    c = tr.table[type(o).__name__]
    active = True
    for g in c['pre_guards']:
        if eval(g, {}, {'self': o}):
            active = False
    sh = shape_id(o.alphasets_shape) if c['shape_refreshed'] or hasattr(o, 'alphasets_shape') else 0
    kids = []
    for a, k in c['members']:
        m = getattr(o, a, None)
        if m is not None and type(m).__name__ in tr.table:
            kids.append(obj_tree(tr, m, a))
    return dict(cls=c['name'], mattr=mattr, active=active, shape=sh, kids=kids, serial=tr.serial(o))


def tree_serials(t):
    out = [t['serial']]
    for k in t['kids']:
        out += tree_serials(k)
    return out


def coq_tree(t):
    nm = Tracker.inst.cname if Tracker.inst is not None and getattr(Tracker.inst, 'cname', None) else None
    cls = nm[t['cls']] if nm and t['cls'] in nm else core.cstr(t['cls'])
    mat = nm[t['mattr']] if nm and t['mattr'] in nm else core.cstr(t['mattr'])
    return '(T %s %s %s true %d [%s])' % (cls, mat, core.cbool(t['active']), t['shape'], '; '.join(coq_tree(k) for k in t['kids']))


# =========================================================================================
# things the histories create
SPECS = {
    'uncorr': {'channels': [{'name': 'c', 'samples': [
        {'name': 'sig', 'data': [5.0, 6.0], 'modifiers': [{'name': 'mu', 'type': 'normfactor', 'data': None}]},
        {'name': 'bkg', 'data': [50.0, 60.0], 'modifiers': [{'name': 'unc', 'type': 'shapesys', 'data': [7.0, 8.0]}]}]}]},
    'corr': {'channels': [{'name': 'c', 'samples': [
        {'name': 'sig', 'data': [5.0, 6.0], 'modifiers': [{'name': 'mu', 'type': 'normfactor', 'data': None}]},
        {'name': 'bkg', 'data': [50.0, 60.0], 'modifiers': [
            {'name': 'h', 'type': 'histosys', 'data': {'lo_data': [45.0, 57.0], 'hi_data': [56.0, 62.0]}},
            {'name': 'n', 'type': 'normsys', 'data': {'lo': 0.9, 'hi': 1.15}}]}]}]},
    'all': {'channels': [
        {'name': 'a', 'samples': [
            {'name': 'sig', 'data': [3.0, 4.0, 5.0], 'modifiers': [{'name': 'mu', 'type': 'normfactor', 'data': None},
                                                                   {'name': 'lumi', 'type': 'lumi', 'data': None},
                                                                   {'name': 'ns', 'type': 'normsys', 'data': {'lo': 0.8, 'hi': 1.1}}]},
            {'name': 'bkg', 'data': [30.0, 40.0, 50.0], 'modifiers': [
                {'name': 'hs', 'type': 'histosys', 'data': {'lo_data': [28.0, 37.0, 49.0], 'hi_data': [33.0, 44.0, 52.0]}},
                {'name': 'st', 'type': 'staterror', 'data': [3.0, 4.0, 0.0]},
                {'name': 'sf', 'type': 'shapefactor', 'data': None}]}]},
        {'name': 'b', 'samples': [
            {'name': 'sig', 'data': [2.0, 1.0], 'modifiers': [{'name': 'mu', 'type': 'normfactor', 'data': None},
                                                              {'name': 'ns', 'type': 'normsys', 'data': {'lo': 0.9, 'hi': 1.2}}]},
            {'name': 'bkg', 'data': [20.0, 10.0], 'modifiers': [
                {'name': 'ss', 'type': 'shapesys', 'data': [2.0, 0.0]},
                {'name': 'hs', 'type': 'histosys', 'data': {'lo_data': [19.0, 9.0], 'hi_data': [22.0, 11.5]}}]}]}],
        'parameters': [{'name': 'lumi', 'auxdata': [1.0], 'bounds': [[0.5, 1.5]], 'inits': [1.0], 'sigmas': [0.1]}]},
    'normonly': {'channels': [{'name': 'c', 'samples': [
        {'name': 's1', 'data': [10.0], 'modifiers': [{'name': 'mu', 'type': 'normfactor', 'data': None},
                                                     {'name': 'n1', 'type': 'normsys', 'data': {'lo': 0.7, 'hi': 1.3}}]},
        {'name': 's2', 'data': [20.0], 'modifiers': [{'name': 'n1', 'type': 'normsys', 'data': {'lo': 0.95, 'hi': 1.05}},
                                                     {'name': 'n2', 'type': 'normsys', 'data': {'lo': 0.9, 'hi': 1.1}}]}]}]},
}
INTERP_CODES = {'code0': 0, 'code1': 1, 'code2': 2, 'code4': 4, 'code4p': '4p'}


def gen_handle(rng, kind=None):
    kind = kind or rng.choice(['model', 'model', 'model', 'interp', 'interp', 'tv', 'pv'])
    if kind == 'model':
        name = rng.choice(sorted(SPECS))
        h = dict(kind='model', spec=name, batch=rng.choice([None, None, 2]),
                 normsys=rng.choice(['code1', 'code4']), histosys=rng.choice(['code0', 'code2', 'code4p']),
                 shift=[round(rng.uniform(-0.3, 0.3), 3) for _ in range(24)])
        return h
    if kind == 'interp':
        code = rng.choice(sorted(INTERP_CODES))
        ns, nh, nb = rng.choice([1, 2]), rng.choice([1, 2]), rng.choice([1, 2])
        hs = []
        for _ in range(ns):
            hs.append([])
            for _ in range(nh):
                nom = [round(rng.uniform(5, 20), 2) for _ in range(nb)]
                lo = [round(x * rng.uniform(0.7, 0.98), 3) for x in nom]
                hi = [round(x * rng.uniform(1.02, 1.4), 3) for x in nom]
                hs[-1].append([lo, nom, hi])
        return dict(kind='interp', code=code, hists=hs)
    if kind == 'tv':
        n = rng.choice([3, 5, 6])
        perm = list(range(n))
        rng.shuffle(perm)
        cut = rng.randrange(1, n)
        return dict(kind='tv', parts=[perm[:cut], perm[cut:]], names=['p', 'q'])
    if kind == 'pv':
        sizes = [rng.choice([1, 2, 3]) for _ in range(3)]
        names = ['a', 'b', 'c']
        sel = rng.sample(names, rng.choice([0, 1, 2, 3]))
        return dict(kind='pv', sizes=sizes, names=names, sel=sel, batch=rng.choice([None, 2]))
    raise ValueError(kind)


def build(h):
    import pyhf
    if h['kind'] == 'model':
        spec = copy.deepcopy(SPECS[h['spec']])
        return pyhf.Model(spec, batch_size=h['batch'], poi_name='mu',
                          modifier_settings={'normsys': {'interpcode': h['normsys']}, 'histosys': {'interpcode': h['histosys']}})
    if h['kind'] == 'interp':
        return getattr(pyhf.interpolators, h['code'])(h['hists'])
    if h['kind'] == 'tv':
        from pyhf.tensor.common import _TensorViewer
        return _TensorViewer([list(p) for p in h['parts']], names=list(h['names']))
    if h['kind'] == 'pv':
        from pyhf.parameters import ParamViewer
        par_map, start = {}, 0
        for n, s in zip(h['names'], h['sizes']):
            par_map[n] = {'slice': slice(start, start + s)}
            start += s
        shape = (h['batch'], start) if h['batch'] else (start,)
        return ParamViewer(shape, par_map, list(h['sel']))
    raise ValueError(h['kind'])


def model_inputs(h, m):
    init = m.config.suggested_init()
    bounds = m.config.suggested_bounds()
    pars = []
    for i, (x, (lo, hi)) in enumerate(zip(init, bounds)):
        v = x + h['shift'][i % len(h['shift'])]
        pars.append(min(max(v, lo + 1e-3), hi - 1e-3))
    data = [float(int(x) + 1 + (i % 3)) for i, x in enumerate(SPEC_DATA(h))] + list(m.config.auxdata)
    return pars, data


def SPEC_DATA(h):
    spec = SPECS[h['spec']]
    out = []
    for ch in sorted(spec['channels'], key=lambda c: c['name']):
        nb = len(ch['samples'][0]['data'])
        out += [sum(s['data'][b] for s in ch['samples']) for b in range(nb)]
    return out


def evaluate(h, o, arg=None):
    """API-level observables of one object: list of (label, tensor)"""
    import pyhf
    tl = pyhf.tensorlib
    if h['kind'] == 'model':
        pars, data = model_inputs(h, o)
        if h['batch']:
            pars = [pars, [p * 1.01 for p in pars]][:h['batch']]
        out = [('expected_data', o.expected_data(tl.astensor(pars))),
               ('logpdf', o.logpdf(tl.astensor(pars), tl.astensor(data)))]
        if not h['batch']:
            out.append(('expected_actualdata', o.expected_actualdata(tl.astensor(pars))))
        return out
    if h['kind'] == 'interp':
        return [('call', o(tl.astensor(arg)))]
    if h['kind'] == 'tv':
        n = sum(len(p) for p in h['parts'])
        vec = tl.astensor([float(10 + i) for i in range(n)])
        pieces = [tl.astensor([float(100 * (k + 1) + i) for i in range(len(p))]) for k, p in enumerate(h['parts'])]
        sp = o.split(vec)
        return [('stitch', o.stitch(pieces)), ('split0', sp[0]), ('split1', sp[1]), ('split_sel', o.split(vec, selection=['q'])[0])]
    if h['kind'] == 'pv':
        n = sum(h['sizes'])
        if h['batch']:
            pars = tl.astensor([[float(i + 10 * r) for i in range(n)] for r in range(h['batch'])])
        else:
            pars = tl.astensor([float(i) for i in range(n)])
        r = o.get(pars)
        return [('get', r)] if r is not None else [('get-none', tl.astensor([0.0]))]
    raise ValueError(h['kind'])


def interp_arg(rng, h):
    ns = len(h['hists'])
    k = rng.choice([1, 1, 2, 3])
    return [[round(rng.uniform(-2.0, 2.0), 3) for _ in range(k)] for _ in range(ns)]


def tol(prec):
    return 1e-9 if prec == '64b' else 2e-3


def compare(old, new, prec):
    """list of discrepancies between the observables of the old object and of the fresh one"""
    import numpy as np
    import pyhf
    tl = pyhf.tensorlib
    want = type(tl.astensor([0.0]))
    bad = []
    for (la, a), (lb, b) in zip(old, new):
        if not isinstance(a, want):
            bad.append(dict(kind='type', what=la, got=type(a).__module__ + '.' + type(a).__name__, want=want.__module__ + '.' + want.__name__))
            continue
        da, db = str(getattr(a, 'dtype', '')), str(getattr(b, 'dtype', ''))
        if da != db:
            bad.append(dict(kind='dtype', what=la, got=da, want=db))
        xa, xb = np.asarray(tl.tolist(a), dtype=float), np.asarray(tl.tolist(b), dtype=float)
        if xa.shape != xb.shape:
            bad.append(dict(kind='shape', what=la, got=list(xa.shape), want=list(xb.shape)))
        elif not np.allclose(xa, xb, rtol=tol(prec), atol=tol(prec) * 1e-3, equal_nan=True):
            bad.append(dict(kind='value', what=la, got=xa.tolist(), want=xb.tolist()))
    return bad


# =========================================================================================
# running one history against pyhf, collecting what the Coq model needs
class Runner:
    def __init__(self, tr):
        self.tr = tr
        self.handles = {}       # hid -> dict(h=..., obj=..., roots=[root records])
        self.mops = []          # model ops (Coq text)
        self.expect = []        # per model op: what was observed (dict)
        self.ids = {}           # serial -> model id
        self.next_id = 0
        self.next_stamp = 0
        self.cur = ('numpy', '64b', 'scipy')
        self.problems = []      # API-level discrepancies (concrete)
        self.mismatch = []      # bookkeeping surprises on the harness side
        self.stats = dict(switches=0, tl_changes=0, creates=0, deletes=0, evals=0, zombies=0, fits=0, objects=0, callbacks=0)

    # -- model-history bookkeeping --------------------------------------------------------
    def _account_subs(self, log, owner=None):
        """turn the subscriptions observed in `log` into Create ops (one per root tree)"""
        tr = self.tr
        subs = [(e[1], e[2]) for e in log if e[0] == 'sub' and e[3] == EVENT and e[1] >= 0]
        if not subs:
            return []
        objs = {s: tr.objs[s]() for s, _ in subs}
        owned = set()
        trees = {}
        for s, cls in subs:
            o = objs[s]
            if o is None or cls not in tr.table:
                continue
            t = obj_tree(tr, o)
            trees[s] = t
            for k in t['kids']:
                owned |= set(tree_serials(k))
        new_roots = []
        for s, cls in subs:
            if s in owned:
                continue
            if s not in trees:
                # subscribed and already gone (or an unknown class): a leaf that lived only inside this operation
                t = dict(cls=cls, mattr='', active=True, shape=0, kids=[], serial=s)
                if cls not in tr.table:
                    self.mismatch.append('subscription by an object of class %s that the fact table does not know' % cls)
                    continue
            else:
                t = trees[s]
            ser = tree_serials(t)
            self._assign(t)
            rec = dict(root=s, stamp=self.next_stamp, serials=ser, tree=t, owner=owner)
            self.next_stamp += 1
            self.mops.append('Create ' + coq_tree(t))
            # observed subscription order restricted to this tree
            order = [(x, c) for x, c in subs if x in set(ser)]
            self.expect.append(dict(op='create', subs=order, raw=None, tree=t))
            tr.roots.append(rec)
            new_roots.append(rec)
            self.stats['objects'] += len(ser)
        return new_roots

    def _account_deaths(self):
        tr = self.tr
        for rec in list(tr.roots):
            if not tr.alive(rec['root']):
                tr.roots.remove(rec)
                self.mops.append('Delete %d' % rec['stamp'])
                self.expect.append(dict(op='delete', raw=None))
                self.stats['deletes'] += 1

    def _stamp_raw(self):
        if self.expect:
            self.expect[-1]['raw'] = self.tr.raw_len()

    def prefix_from_live_roots(self):
        """objects that survived earlier histories (e.g. models pinned by a jit cache): re-created in the model, in order"""
        tr = self.tr
        for rec in list(tr.roots):
            if not tr.alive(rec['root']):
                tr.roots.remove(rec)
        for rec in tr.roots:
            rec['stamp'] = self.next_stamp
            self.next_stamp += 1
            o = tr.objs[rec['root']]()
            rec['tree'] = obj_tree(tr, o)
            rec['serials'] = tree_serials(rec['tree'])
            self._assign(rec['tree'])
            self.mops.append('Create ' + coq_tree(rec['tree']))
            self.expect.append(dict(op='create', subs=None, raw=None, tree=rec['tree'], prefix=True))
            self.stats['zombies'] += 1

    # -- operations -----------------------------------------------------------------------
    def op_set_backend(self, b, p, o):
        import pyhf
        tr = self.tr
        tr.take()
        if o == 'current':
            pyhf.set_backend(b, custom_optimizer=pyhf.optimizer, precision=p)
            oa = 'OCurrent'
            oname = self.cur[2]
        else:
            pyhf.set_backend(b, custom_optimizer=o, precision=p)
            oa = '(OByName %s)' % COQ_O[o]
            oname = o
        log = tr.take()
        # objects that died INSIDE this set_backend call before the round reached them (constructing a jax backend of the other precision flips
        # jax_enable_x64, which drops jax's jit caches and with them the fitted models they pinned): the model gets their Delete before the switch.
        # Evidence: the weak reference is dead now and none of the tree's callbacks was invoked in this round.
        called = {e[1] for e in log if e[0] == 'pre'}
        for rec in list(tr.roots):
            if not tr.alive(rec['root']) and not (set(rec['serials']) & called):
                tr.roots.remove(rec)
                self.mops.append('Delete %d' % rec['stamp'])
                self.expect.append(dict(op='delete', raw=None))
                self.stats['deletes'] += 1
        self.stats['switches'] += 1
        self.stats['tl_changes'] += (b, p) != self.cur[:2]
        self.cur = (b, p, oname)
        self.mops.append('SetBackend %s %s %s' % (COQ_B[b], COQ_P[p], oa))
        ev = [('T', e[1]) if e[0] == 'trigger' else ('P', e[1]) for e in log if e[0] in ('trigger', 'pre')]
        self.stats['callbacks'] += sum(1 for e in ev if e[0] == 'P')
        self.expect.append(dict(op='set_backend', events=ev, raw=tr.raw_len()))
        self._account_subs(log)      # nothing should subscribe here
        self._account_deaths()
        self._stamp_raw()
        got = (pyhf.tensorlib.name, pyhf.tensorlib.precision, pyhf.optimizer.name)
        if got != self.cur:
            self.problems.append(dict(sig='get_backend-wrong', what='after set_backend%r get_backend reports %r' % (self.cur, got)))

    def op_create(self, hid, h):
        tr = self.tr
        tr.take()
        obj = build(h)
        log = tr.take()
        roots = self._account_subs(log, owner=hid)
        self.handles[hid] = dict(h=h, obj=obj, roots=roots)
        self.stats['creates'] += 1
        self._stamp_raw()

    def op_delete(self, hid):
        e = self.handles.pop(hid, None)
        if e is None:
            return
        roots = e['roots']
        e.clear()
        del e
        gc.collect()
        n0 = len(self.mops)
        self._account_deaths()
        if any(self.tr.alive(r['root']) for r in roots):
            self.stats['zombies'] += 1
            reg = self.tr.registry()
            strong = [type(a).__name__ for _, a in (reg._callbacks if reg is not None else [])
                      if a is not None and not isinstance(a, weakref.ReferenceType)]
            if strong:
                self.problems.append(dict(sig='registry-holds-strong-reference',
                                          what='a deleted object stays alive: the events registry holds %d non-weak references (%s)' % (len(strong), strong[0])))
        self._stamp_raw()

    def op_eval(self, hid, arg=None, fit=False, data_as='list'):
        """evaluate the handle's object against a freshly built twin under the current backend"""
        import pyhf
        tr = self.tr
        e = self.handles.get(hid)
        if e is None:
            return
        h, obj = e['h'], e['obj']
        self.stats['evals'] += 1
        # the model side: interpolator shape caches, then every object of the handle
        tr.take()
        try:
            old = evaluate(h, obj, arg)
            err_old = None
        except Exception as ex:   # noqa
            old, err_old = None, core.exc_enum(ex) + ': ' + str(ex)[:160]
        self._after_eval(e, evalall=False)
        twin = build(h)
        log = tr.take()
        troots = self._account_subs(log, owner='twin')
        try:
            new = evaluate(h, twin, arg)
            err_new = None
        except Exception as ex:   # noqa
            new, err_new = None, core.exc_enum(ex) + ': ' + str(ex)[:160]
        te = dict(h=h, obj=twin, roots=troots)
        self._after_eval(te)
        what = dict(handle=h, arg=arg, backend=list(self.cur))
        if err_old != err_new and (err_old is None or err_new is None or err_old.split(':')[0] != err_new.split(':')[0]):
            self.problems.append(dict(sig='exception-after-switch:%s:%s' % (h['kind'], (err_old or 'none').split(':')[0]),
                                      what='object built earlier raises %r where a fresh one gives %r' % (err_old, err_new), detail=what))
        elif err_new is not None:
            # old and fresh fail alike: not a history effect, but the object does not evaluate under this backend at all
            self.problems.append(dict(sig='evaluation-raises:%s:%s' % (h['kind'], err_new.split(':')[0]),
                                      what='evaluation under %s/%s raises %r (old and freshly built object alike)' % (self.cur[0], self.cur[1], err_new),
                                      detail=what))
        elif old is not None and new is not None:
            for d in compare(old, new, self.cur[1]):
                self.problems.append(dict(sig='%s-differs:%s:%s' % (d['kind'], h['kind'], d['what']),
                                          what='%s of an object built earlier: %s %r, fresh object gives %r' % (d['what'], d['kind'], d['got'], d['want']),
                                          detail=dict(what, diff=d)))
        # internal diagnostics: cached attributes of old and fresh objects carry the same tensor types
        diag = attr_diag(tr, e, te)
        if fit and h['kind'] == 'model' and not h['batch']:
            self._fit(h, obj, twin, data_as)
        del twin, te, troots
        self._account_deaths()
        self._stamp_raw()
        return diag

    def _after_eval(self, e, evalall=True):
        """model ops mirroring what the evaluation did: shape caches of interpolators, then observations"""
        tr = self.tr
        for rec in e['roots']:
            for s in rec['serials']:
                o = tr.objs[s]()
                if o is not None and hasattr(o, 'alphasets_shape') and s in self.ids:
                    self.mops.append('CallInterp %d %d' % (self.ids[s], shape_id(o.alphasets_shape)))
                    self.expect.append(dict(op='callinterp', serial=s, shape=shape_id(o.alphasets_shape), raw=None))
        if evalall:
            self.mops.append('EvalAll')
            self.expect.append(dict(op='eval', raw=None))

    def _fit(self, h, obj, twin, data_as='list'):
        """inference on the object built earlier versus on a freshly built one, under the now-current backend: best-fit parameters, twice_nll,
        tensor type and dtype.  data_as: the observations handed to mle.fit as a plain python list (as in the documentation) or as a tensor of
        the current backend.  Both fits run the same deterministic optimiser from the same start, so at 64b they have to agree to 64b accuracy
        (1e-9 relative on twice_nll; a compiled objective left over from a 32b setting misses that at ~1e-6)."""
        import numpy as np
        import pyhf
        self.stats['fits'] += 1
        _, data = model_inputs(h, obj)
        res = []
        for m in (obj, twin):
            try:
                d = list(data) if data_as == 'list' else pyhf.tensorlib.astensor(data)
                r = pyhf.infer.mle.fit(d, m, return_fitted_val=True)
                res.append(('ok', np.asarray(pyhf.tensorlib.tolist(r[0]), dtype=float), float(np.asarray(pyhf.tensorlib.tolist(r[1])).ravel()[0]),
                            type(r[0]), str(getattr(r[0], 'dtype', '')) + '/' + str(getattr(r[1], 'dtype', ''))))
            except Exception as ex:   # noqa
                res.append((core.exc_enum(ex), None, None, None, None))
        a, b = res
        what = dict(handle=h, backend=list(self.cur), data_as=data_as)
        t = 1e-6 if self.cur[1] == '64b' else 2e-2
        tn = 1e-9 if self.cur[1] == '64b' else 2e-2
        if a[0] != b[0]:
            self.problems.append(dict(sig='fit-differs:outcome', what='fit on the old model: %s, on a fresh one: %s' % (a[0], b[0]), detail=what))
        elif a[0] == 'ok':
            if a[3] is not b[3]:
                self.problems.append(dict(sig='fit-differs:type', what='fit result types differ %s / %s' % (a[3], b[3]), detail=what))
            elif a[4] != b[4]:
                self.problems.append(dict(sig='fit-differs:dtype', what='fit on the old model returns dtype %s (bestfit/twice_nll), on a fresh one %s, under %s/%s'
                                          % (a[4], b[4], self.cur[0], self.cur[1]), detail=what))
            if not np.allclose(a[1], b[1], rtol=t, atol=t) or not np.isclose(a[2], b[2], rtol=tn, atol=tn):
                self.problems.append(dict(sig='fit-differs:value', what='fit on the old model gives %r (twice_nll %r), on a fresh one %r (twice_nll %r), under %s/%s' % (
                    a[1].tolist(), a[2], b[1].tolist(), b[2], self.cur[0], self.cur[1]), detail=what))

    def _assign(self, t):
        """heap ids as Events.create allocates them (checked afterwards against the EvSub events Coq reports)"""
        c = self.tr.table.get(t['cls'])
        if c is None:
            return
        if c['members_before']:
            for k in t['kids']:
                self._assign(k)
            self.ids[t['serial']] = self.next_id
            self.next_id += 1
        else:
            self.ids[t['serial']] = self.next_id
            self.next_id += 1
            for k in t['kids']:
                self._assign(k)


def attr_diag(tr, e_old, e_new):
    """per cached attribute read at evaluation: does the old object hold the same kind of tensor as the fresh one"""
    out = []
    so = [s for r in e_old['roots'] for s in r['serials']]
    sn = [s for r in e_new['roots'] for s in r['serials']]
    if len(so) != len(sn):
        return [('structure', len(so), len(sn))]
    for a, b in zip(so, sn):
        oa, ob = tr.objs[a](), tr.objs[b]()
        if oa is None or ob is None or type(oa) is not type(ob):
            out.append(('structure', type(oa).__name__, type(ob).__name__))
            continue
        c = tr.table[type(oa).__name__]
        for at in c['read']:
            if at in c['cached']:
                ta, tb = tagof(getattr(oa, at, None)), tagof(getattr(ob, at, None))
                if ta != tb:
                    out.append((c['name'], at, ta, tb))
    return out


def tagof(v, depth=0):
    if isinstance(v, (list, tuple)):
        return [tagof(x, depth + 1) for x in v][:6]
    if isinstance(v, dict):
        return {str(k): tagof(x, depth + 1) for k, x in list(v.items())[:6]}
    if v is None or isinstance(v, (int, float, bool, str)):
        return type(v).__name__
    return type(v).__name__ + ':' + str(getattr(v, 'dtype', '')) + ':' + str(tuple(getattr(v, 'shape', ())))


# =========================================================================================
# histories
def gen_history(rng, n_ops, backends, fit_prob=0.5):
    ops, live, nh = [], {}, 0
    for _ in range(n_ops):
        r = rng.random()
        if r < 0.38 or (not live and r < 0.5):
            ops.append(dict(op='set_backend', b=rng.choice(backends), p=rng.choice(PRECS), o=rng.choice(['scipy', 'minuit', 'scipy', 'current'])))
            if live and rng.random() < 0.6:
                hid = rng.choice(sorted(live))
                ops.append(dict(op='eval', hid=hid, arg=interp_arg(rng, live[hid]) if live[hid]['kind'] == 'interp' else None))
        elif r < 0.66 or not live:
            h = gen_handle(rng)
            live[nh] = h
            ops.append(dict(op='create', hid=nh, h=h))
            nh += 1
        elif r < 0.76:
            hid = rng.choice(sorted(live))
            del live[hid]
            ops.append(dict(op='delete', hid=hid))
        else:
            hid = rng.choice(sorted(live))
            ops.append(dict(op='eval', hid=hid, arg=interp_arg(rng, live[hid]) if live[hid]['kind'] == 'interp' else None))
    fitted = False
    for hid in sorted(live):
        h = live[hid]
        dofit = (not fitted) and h['kind'] == 'model' and not h['batch'] and rng.random() < fit_prob
        fitted = fitted or dofit
        ops.append(dict(op='eval', hid=hid, arg=interp_arg(rng, h) if h['kind'] == 'interp' else None, fit=dofit))
    return ops


def fit_switch_history(rng, b, first, short=False):
    """inference on ONE live model before and after switches: created and fitted under (b, first), then a precision-only switch on the same
    backend name and a fit, then back and a fit, then another backend and back with a fit each - every fit on the old object is compared with
    the fit of a freshly built model under the now-current backend; the observations go in as a plain list and as a tensor alternately"""
    other = '32b' if first == '64b' else '64b'
    h = gen_handle(rng, 'model')
    h['batch'] = None
    h['spec'] = rng.choice([k for k in sorted(SPECS) if k != 'normonly'] or sorted(SPECS))
    o = rng.choice(OPTS)
    ops = [dict(op='set_backend', b=b, p=first, o=o), dict(op='create', hid=0, h=h), dict(op='eval', hid=0, arg=None, fit=True, data_as='list')]
    stops = [(b, other), (b, first)]
    if not short:
        b2 = rng.choice([x for x in BACKENDS if x != b])
        stops += [(b, other), (b2, rng.choice(PRECS)), (b, first)]
    for k, (bb, pp) in enumerate(stops):
        ops.append(dict(op='set_backend', b=bb, p=pp, o=o if k % 2 == 0 else 'current'))
        ops.append(dict(op='eval', hid=0, arg=None, fit=True, data_as='list' if k % 2 == 0 else 'tensor'))
    return ops


def tour_history(rng, settings, kinds):
    """every kind of object built under the first setting, then carried through all the others and evaluated at each stop"""
    ops = [dict(op='set_backend', b=settings[0][0], p=settings[0][1], o='scipy')]
    hs = {}
    for i, k in enumerate(kinds):
        hs[i] = k
        ops.append(dict(op='create', hid=i, h=k))
    for b, p in settings[1:]:
        ops.append(dict(op='set_backend', b=b, p=p, o=rng.choice(OPTS)))
        for i in sorted(hs):
            ops.append(dict(op='eval', hid=i, arg=interp_arg(rng, hs[i]) if hs[i]['kind'] == 'interp' else None))
    return ops


def reset_process_state(tr, hard=False):
    """bring pyhf back to numpy/64b/scipy with a flushed registry (two rounds)"""
    import pyhf
    # models that went through a jax fit stay pinned by jax's jit caches (static argument `pdf`): they survive into the
    # next history, where they form the prefix of the model history (Runner.prefix_from_live_roots).  Beyond a few such
    # survivors the caches are dropped (between histories only), otherwise every later switch re-computes all of them.
    if len(tr.roots) > 40 or hard:
        import sys
        if 'jax' in sys.modules:
            sys.modules['jax'].clear_caches()
    gc.collect()
    try:
        if hard:
            raise RuntimeError('hard reset requested')
        pyhf.set_backend('numpy', precision='32b')
        pyhf.set_backend('numpy', precision='64b')
    except Exception:   # noqa  (only after a history in which a callback raised: forget every survivor)
        vars(tr.events)['__events'].pop(EVENT, None)
        tr.roots = []
        pyhf.set_backend('numpy', precision='32b')
        pyhf.set_backend('numpy', precision='64b')
    tr.take()


def run_history(tr, ops):
    reset_process_state(tr)
    R = Runner(tr)
    R.prefix_from_live_roots()
    R._stamp_raw()
    diags = []
    R.aborted = None
    for k, o in enumerate(ops):
        try:
            if o['op'] == 'set_backend':
                R.op_set_backend(o['b'], o['p'], o['o'])
            elif o['op'] == 'create':
                R.op_create(o['hid'], o['h'])
            elif o['op'] == 'delete':
                R.op_delete(o['hid'])
            elif o['op'] == 'eval':
                d = R.op_eval(o['hid'], o.get('arg'), fit=o.get('fit', False), data_as=o.get('data_as', 'list'))
                if d:
                    diags.append(dict(op=o, diag=d[:4]))
        except Exception as ex:   # noqa
            import traceback
            tb = traceback.extract_tb(ex.__traceback__)
            where = [f for f in tb if '/pyhf/' in f.filename]
            place = (os.path.basename(where[-1].filename) + ':' + where[-1].name) if where else 'harness'
            if not where:
                raise
            R.problems.append(dict(sig='%s-raises:%s:%s' % (o['op'], core.exc_enum(ex), place),
                                   what='%s (operation %d of the history) raises %s: %s [in %s]' % (o['op'], k, core.exc_enum(ex), str(ex)[:200], place),
                                   detail=dict(op=o, backend=list(R.cur))))
            R.aborted = k
            break
    for hid in list(R.handles):
        e = R.handles.pop(hid)
        e.clear()
    gc.collect()
    if R.aborted is not None:
        reset_process_state(tr, hard=True)
    else:
        R._account_deaths()
        R._stamp_raw()
    R.diags = diags
    return R


COQ_HEADER = '''From Coq Require Import ZArith String List.
Require Import PV.Run PV.Events PV.EventsRun PV.gen.FactsC11.
Import ListNotations. Open Scope string_scope.
'''
TRIGGERS = ['change_backend::before', 'tensorlib_changed', 'optimizer_changed', 'change_backend::after']


def coq_header(tr):
    """string constants are named once so that the (long) histories contain no string literal"""
    names = sorted(set(tr.table) | {a for c in tr.table.values() for a, _ in c['members']} | {''})
    tr.cname = {n: 'S%d' % i for i, n in enumerate(names)}
    return COQ_HEADER + ''.join('Notation %s := %s (only parsing).\n' % (v, core.cstr(k)) for k, v in sorted(tr.cname.items(), key=lambda kv: kv[1]))


def decode_report(tr, rep):
    """[( [(kind,a,b)...], raw )] -> the tuples check_against_model expects"""
    classes = [c for c in tr.order]
    out = []
    for evs, raw in rep:
        l = []
        for k, a, b in evs:
            if k == 0:
                l.append(('EvTrigger', TRIGGERS[a] if 0 <= a < len(TRIGGERS) else '?'))
            elif k == 1:
                l.append(('EvPre', a))
            elif k == 2:
                l.append(('EvSub', a, classes[b] if 0 <= b < len(classes) else '?'))
            elif k == 3:
                l.append(('EvObs', a, 'true' if b else 'false'))
            elif k == 5:
                l.append(('EvAllObs', a, 'true' if b else 'false'))
            else:
                l.append(('EvShape', a, b))
        out.append((l, raw))
    return out


def check_against_model(R, rep):
    """compare what Coq's `report` says for R.mops with what was observed; returns list of disagreement strings"""
    out = []
    if len(rep) != len(R.expect):
        return ['model reports %d steps for %d operations' % (len(rep), len(R.expect))]
    inv = {v: k for k, v in R.ids.items()}
    for i, ((evs, raw), ex, mop) in enumerate(zip(rep, R.expect, R.mops)):
        evs = [e if isinstance(e, tuple) else (e,) for e in evs]
        if ex.get('raw') is not None and ex['raw'] != raw:
            out.append('step %d (%s): raw registry length %d, model says %d' % (i, mop[:60], ex['raw'], raw))
        if ex['op'] == 'set_backend':
            mod = [('T', e[1]) if e[0] == 'EvTrigger' else ('P', e[1]) for e in evs]
            obs = [(k, v) if k == 'T' else (k, R.ids.get(v, 'serial%d' % v)) for k, v in ex['events']]
            if mod != obs:
                out.append('step %d (%s): triggers/callbacks observed %r, model predicts %r' % (i, mop, obs[:40], mod[:40]))
        elif ex['op'] == 'create':
            mod = [(e[1], e[2]) for e in evs if e[0] == 'EvSub']
            if ex.get('subs') is not None:
                obs = [(R.ids.get(sr, 'serial%d' % sr), c) for sr, c in ex['subs']]
                if mod != obs:
                    out.append('step %d (%s): subscription order observed %r, model predicts %r' % (i, mop[:80], obs, mod))
        elif ex['op'] == 'eval':
            if not any(e[0] in ('EvObs', 'EvAllObs') and e[2] == 'true' for e in evs):
                out.append('step %d (%s): the model does not hold the object to be as fresh: %r' % (i, mop, evs))
        elif ex['op'] == 'callinterp':
            if not any(e[0] == 'EvShape' and e[2] == ex['shape'] for e in evs):
                out.append('step %d (%s): shape cache observed %d, model %r' % (i, mop, ex['shape'], evs))
    return out


def shrink(tr, ops, sig, budget=16):
    """greedy removal of operations that keeps a problem with the same signature"""
    cur = list(ops)
    tries = 0
    i = len(cur) - 1
    while i >= 0 and tries < budget:
        o = cur[i]
        cand = cur[:i] + cur[i + 1:]
        if o['op'] == 'create':
            cand = [x for x in cand if x.get('hid') != o['hid']]
        tries += 1
        try:
            R = run_history(tr, cand)
            if any(p['sig'] == sig for p in R.problems):
                cur = cand
                i = min(i, len(cur)) - 1
                continue
        except Exception:   # noqa
            pass
        i -= 1
    return cur


def all_kinds(rng):
    ks = []
    for spec in sorted(SPECS):
        h = gen_handle(rng, 'model')
        h['spec'] = spec
        ks.append(h)
    hb = gen_handle(rng, 'model')
    hb.update(spec='all', batch=2)
    ks.append(hb)
    for code in sorted(INTERP_CODES):
        h = gen_handle(rng, 'interp')
        h['code'] = code
        ks.append(h)
    ks.append(gen_handle(rng, 'tv'))
    for b in (None, 2):
        h = gen_handle(rng, 'pv')
        h.update(batch=b, sel=['c', 'a'])
        ks.append(h)
    return ks


def search(ctx, tr, tie, backends):
    """property-directed sweep on the implementation alone: every kind of object x every ordered pair of settings"""
    rng = ctx.rng
    settings = [(b, p) for b in backends for p in PRECS]
    pairs = [(a, b) for a in settings for b in settings if a != b]
    if ctx.quick:
        pairs = rng.sample(pairs, min(len(pairs), 10))
    found = False
    for a, b in pairs:
        ops = tour_history(rng, [a, b, a], all_kinds(rng))
        R = run_history(tr, ops)
        for pr in R.problems[:3]:
            report_problem(ctx, tr, ops, pr)
            found = True
        if found and ctx.quick:
            break
    return found


def report_problem(ctx, tr, ops, pr, do_shrink=True):
    if any(v[0] == pr['sig'] for v in ctx.violations) or any(s_ == pr['sig'] for s_, _ in ctx.known_hits):
        return
    do_shrink = do_shrink and len(ctx.violations) < 3
    small = shrink(tr, ops, pr['sig']) if do_shrink else ops
    ctx.violation(pr['sig'], pr['what'][:400], dict(kind='history', history=small, original_length=len(ops), detail=pr.get('detail'),
                                                    impl=pr['what'], expected='identical to a freshly built object under the current backend',
                                                    theorem='C11_eval_as_fresh / C11_switch_invariant'))


def run(ctx):
    rng = ctx.rng
    tie = None
    fx = None
    try:
        fx = extract(ctx)
        ctx.coverage['extracted_facts'] = dict(
            classes={c['name']: dict(cached=c['cached'], refreshed=c['refreshed'], read_cached=[a for a in c['read'] if a in c['cached']],
                                     subscribes=c['subscribes'], members=c['members'], members_before=c['members_before'],
                                     hazards=c['hazards'], shape_attrs=c['shape_attrs']) for c in fx['classes']},
            manager=fx['manager'], interpolators=fx['interps'])
    except facts.TieBroken as e:
        tie = 'fact extraction failed: %s' % e
    if tie is None:
        # tie to the source: pyhf/events.py and tensor/manager.py:set_backend translated to coq/gen/EventsGen.v (harness/props/c11_tie.py)
        try:
            from harness.props import c11_tie
            ctx.coverage['translated_from_source'] = c11_tie.extract(ctx)
        except facts.TieBroken as e:
            tie = ('translation of pyhf/events.py / pyhf/tensor/manager.py:set_backend to Gallina failed (harness/props/c11_tie.py; the code no longer has '
                   'the shape the model of coq/Events.v transcribes): %s' % e)
            core.coq_make(['EventsRun.vo', 'gen/FactsC11.vo'])
    if tie is None:
        ok, txt = core.prove(ctx)
        if not ok:
            why = ('the functions translated from pyhf/events.py / tensor/manager.py no longer coincide with the hand model (coq/TieEvents.v, '
                   'C11_source_is_model_*): ' if ('TieEvents' in txt or 'source_is_model' in txt or 'EventsGen' in txt) else 'proof obligations of props/C11.v no longer check: ')
            tie = why + txt[-1500:]
        rc, out, _ = core.coq_make(['EventsRun.vo', 'gen/FactsC11.vo'])
        if rc != 0:
            tie = tie or ('coq/EventsRun.v / gen/FactsC11.v do not build: ' + out[-800:])
    ctx.trusted += ['harness/props/c11_tie.py + harness/props/tie_translate.py / tie_translate_x4.py (python ast -> Gallina for Callables.append/_flush/__call__, '
                    'subscribe, trigger, disable, enable, register and set_backend; fail closed; the reading of weak references, of the retrievers and of the '
                    'module-level state is stated in coq/gen/EventsGen.v): C11_source_is_model_* prove the translated definitions equal to the hand model',
                    'harness/props/c11.py:extract (python ast -> FactsC11.v): a syntactic over-approximation of which attributes hold backend tensors, '
                    'which are refreshed by _precompute, which are read at evaluation, and of the statement order in __init__/set_backend',
                    'Python garbage collector and weakref: an object is taken to be collected when a harness-side weak reference to it is dead '
                    '(modelled as an explicit Delete at that point)',
                    'the tensor libraries themselves (numpy, jax, torch, tensorflow kernels)']
    ctx.assumptions += ['histories are finite; objects are built through the public constructors (subscribe=True)',
                        'backend-neutral private copies (the _x attributes) are not mutated after __init__ (checked syntactically as a hazard)']
    if fx is None:
        # the table could not be extracted: fall back to the classes with a _precompute for instrumentation
        try:
            fx = extract(ctx, write=False)
        except facts.TieBroken:
            fx = None
    if fx is None:
        ctx.violation('tie-broken', tie[:300], dict(kind='tie', detail=tie, theorem='props/C11.v'), nofail=True)
        ctx.coverage.update(evaluations=0, distinct_nontrivial=0, rule='fact extraction failed; nothing could be run')
        return
    backends = list(BACKENDS)
    tr = Tracker.get(fx['classes'])
    header = coq_header(tr)
    found_concrete = False
    model_ok = tie is None or 'fact extraction' not in tie
    runs = []

    # ---- corpus ----
    hists = []
    cdir = os.path.join(core.VERIF, 'corpus', 'C11')
    if os.path.isdir(cdir):
        for fn in sorted(os.listdir(cdir)):
            if fn.endswith('.json'):
                hists.append(('corpus:' + fn, json.load(open(os.path.join(cdir, fn)))['history']))
    # ---- a systematic tour through all eight settings, then random histories ----
    settings = [(b, p) for b in backends for p in PRECS]
    order = list(settings)
    rng.shuffle(order)
    hists.append(('tour', tour_history(rng, order if not ctx.quick else order[:5], all_kinds(rng))))
    # inference before and after switches on the same live model (precision-only switches in both directions): jax and one other backend in quick
    fit_backends = ['jax', rng.choice([x for x in backends if x != 'jax'])] if ctx.quick else list(backends)
    for fb in fit_backends:
        for first in (PRECS if (fb == 'jax' or not ctx.quick) else [rng.choice(PRECS)]):
            hists.append(('fit-switch:%s:%s' % (fb, first), fit_switch_history(rng, fb, first, short=ctx.quick)))
    nh = int(os.environ.get('VERIF_C11_HISTORIES', 0)) or ctx.n(32, 150)
    maxlen = ctx.n(12, 40)
    for k in range(nh):
        hists.append(('random%d' % k, gen_history(rng, rng.randrange(4, maxlen + 1), backends, fit_prob=0.3 if ctx.quick else 0.8)))

    stats = dict(switches=0, tl_changes=0, creates=0, deletes=0, evals=0, zombies=0, fits=0, objects=0, callbacks=0)
    visited, sigs, exprs, diag_all = set(), set(), [], []
    for name, ops in hists:
        ctx.log('history %s (%d ops)' % (name, len(ops)))
        R = run_history(tr, ops)
        runs.append((name, ops, R))
        for k in stats:
            stats[k] += R.stats[k]
        cur = ('numpy', '64b')
        for o in ops:
            if o['op'] == 'set_backend':
                cur = (o['b'], o['p'])
                visited.add(cur + (o['o'],))
            elif o['op'] == 'eval':
                sigs.add(json.dumps([cur, [x for x in ops[:ops.index(o)] if x['op'] != 'eval'][-6:], o], sort_keys=True, default=str))
        for pr in R.problems:
            report_problem(ctx, tr, ops, pr)
            found_concrete = True
        if found_concrete and (len(ctx.violations) >= 3 or any(pr['sig'].startswith('registry-holds') for pr in R.problems)):
            ctx.log('concrete failures found; remaining histories skipped')
            break
        if R.mismatch:
            tie = tie or ('harness could not account for what happened: ' + R.mismatch[0])
        diag_all += R.diags
        if R.aborted is not None:
            R.mops, R.expect = [], []
        exprs.append('enc_report facts_c11 [%s]' % '; '.join(R.mops))
    # ---- the same histories inside Coq ----
    disagreements = []
    if model_ok:
        try:
            res = core.coq_eval(ctx, 'hist', header, exprs, shard=1 if ctx.quick else 4)
            for (name, ops, R), r in zip(runs, res):
                rep = decode_report(tr, core.parse_qc(r.replace('%Z', '')))
                for d in check_against_model(R, rep):
                    disagreements.append('%s: %s' % (name, d))
        except core.CoqEvalError as e:
            tie = tie or ('model evaluation failed: %s' % str(e)[-800:])
    if disagreements and not found_concrete:
        tie = tie or ('model and implementation disagree (%d): %s' % (len(disagreements), disagreements[0]))
    if diag_all and not found_concrete:
        tie = tie or ('cached attributes of an object built earlier differ in tensor type from a fresh one: %r' % (diag_all[0],))

    # ---- decide ----
    if tie and not found_concrete:
        ctx.log('tie broken: %s ... searching' % tie[:200])
        if not search(ctx, tr, tie, backends):
            ctx.violation('tie-broken', tie[:300], dict(kind='tie', detail=tie, disagreements=disagreements[:10], diagnostics=diag_all[:5],
                                                        theorem='props/C11.v'), nofail=True)
    nmodel_ops = sum(len(R.mops) for _, _, R in runs)
    ctx.coverage.update(
        evaluations=stats['evals'], distinct_nontrivial=len(sigs),
        rule='histories: one tour (every kind of object built under one setting and evaluated under the others) + random histories of '
             '4..%d operations (set_backend 38%%, create 28%%, delete 10%%, evaluate 24%%, all live objects evaluated at the end, one fit) + fit/switch/fit '
             'sequences (one live model fitted before and after precision-only switches in both directions and after a round trip through another backend, '
             'data as a list and as a tensor; old object vs fresh model: bestfit 1e-6, twice_nll 1e-9 at 64b, dtype); '
             'an evaluation = old object vs freshly built twin under the current backend (values, tensor type, dtype); non-trivial = an evaluation '
             'that follows at least one set_backend; distinct by (current setting, last six preceding non-evaluation operations, evaluated object)' % maxlen,
        histories=len(hists), model_operations_replayed_in_coq=nmodel_ops, settings_visited=sorted('/'.join(v) for v in visited),
        n_settings_visited=len(visited), totals=stats, model_disagreements=len(disagreements),
        backends=backends, precisions=PRECS, optimizers=OPTS + ['<current object>'],
        samples=[dict(name=runs[-1][0], history=runs[-1][1][:8], model_ops=runs[-1][2].mops[:10])])


def replay(body):
    if body.get('kind') != 'history':
        print(body.get('detail'))
        return 0
    fx = extract(None, write=False)
    tr = Tracker.get(fx['classes'])
    R = run_history(tr, body['history'])
    print(json.dumps(dict(problems=R.problems, stats=R.stats, model_ops=R.mops), indent=1, default=str))
    return 1 if R.problems else 0
