"""C11 - results are independent of the history of backend switches.

extract(ctx)  : python ast -> coq/gen/FactsC11.v (per tensor-holding class: cached / refreshed / read attributes,
                subscription, member construction order, guards, shape cache)   [fail closed]
run(ctx)      : prove props/C11.v ; random histories of set_backend / create / delete / evaluate run against the
                real pyhf with an instrumented events registry, the same histories replayed by the Coq model
                (Events.run_hist) which predicts every trigger, every _precompute invocation and the raw registry
                length ; every live object compared with a freshly built one under the current backend.
"""
import ast
import copy
import gc
import json
import os
import weakref

from harness import core, facts

# files that hold the objects the property talks about (models, interpolators, viewers)
ANCHORS = ['pdf.py', 'constraints.py', 'tensor/common.py', 'parameters/paramview.py',
           'interpolators/code0.py', 'interpolators/code1.py', 'interpolators/code2.py', 'interpolators/code4.py',
           'interpolators/code4p.py', 'modifiers/histosys.py', 'modifiers/normsys.py', 'modifiers/shapesys.py',
           'modifiers/staterror.py', 'modifiers/shapefactor.py', 'modifiers/normfactor.py', 'modifiers/lumi.py']
EVENT = 'tensorlib_changed'
INTERP = '<interpolator>'


# =========================================================================================
# fact extraction
def _is_self_attr(n):
    return isinstance(n, ast.Attribute) and isinstance(n.value, ast.Name) and n.value.id == 'self'


def _mangle(cls, attr):
    if attr.startswith('__') and not attr.endswith('__'):
        return '_' + cls.lstrip('_') + attr
    return attr


def _calls_get_backend(node):
    for n in ast.walk(node):
        if isinstance(n, ast.Call) and isinstance(n.func, ast.Name) and n.func.id == 'get_backend':
            return True
        if isinstance(n, ast.Call) and isinstance(n.func, ast.Attribute) and n.func.attr == 'get_backend':
            return True
    return False


class _Method:
    """syntactic summary of one method of a class"""

    def __init__(self, cls, fn, backend_funcs):
        self.cls, self.fn, self.name = cls, fn, fn.name
        self.backend_names = set()
        self.backend_funcs = backend_funcs
        self._find_backend_names()
        self.calls = set()         # self.m(...) calls
        for n in ast.walk(fn):
            if isinstance(n, ast.Call) and _is_self_attr(n.func):
                self.calls.add(n.func.attr)
        self.loads = {}            # attr -> first lineno loaded
        self.stores = []           # (attr, value-node or None, lineno, stmt)
        self._collect()

    def _find_backend_names(self):
        """names bound to the current tensor backend:  `tensorlib, _ = get_backend()` / `tb = get_backend()[0]`"""
        n_get = 0
        for n in ast.walk(self.fn):
            if isinstance(n, ast.Call) and ((isinstance(n.func, ast.Name) and n.func.id == 'get_backend')
                                            or (isinstance(n.func, ast.Attribute) and n.func.attr == 'get_backend')):
                n_get += 1
                if n.args or n.keywords:
                    raise facts.TieBroken('%s.%s: get_backend called with arguments' % (self.cls, self.name))
        n_rec = 0
        for n in ast.walk(self.fn):
            if isinstance(n, ast.Assign) and len(n.targets) == 1 and _calls_get_backend(n.value):
                t, v = n.targets[0], n.value
                if isinstance(v, ast.Call) and isinstance(t, ast.Tuple) and len(t.elts) == 2 and isinstance(t.elts[0], ast.Name):
                    self.backend_names.add(t.elts[0].id)
                    n_rec += 1
                elif isinstance(v, ast.Subscript) and isinstance(v.value, ast.Call) and isinstance(t, ast.Name) \
                        and isinstance(v.slice, ast.Constant) and v.slice.value == 0:
                    self.backend_names.add(t.id)
                    n_rec += 1
        if n_rec != n_get:
            raise facts.TieBroken('%s.%s: unrecognised use of get_backend()' % (self.cls, self.name))

    def _collect(self):
        for n in ast.walk(self.fn):
            if _is_self_attr(n) and isinstance(n.ctx, ast.Load):
                a = _mangle(self.cls, n.attr)
                self.loads[a] = min(self.loads.get(a, 10 ** 9), n.lineno)
        for st in ast.walk(self.fn):
            if isinstance(st, ast.Assign):
                for t in st.targets:
                    self._store_target(t, st.value, st)
            elif isinstance(st, ast.AugAssign):
                self._store_target(st.target, st.value, st)
            elif isinstance(st, ast.AnnAssign) and st.value is not None:
                self._store_target(st.target, st.value, st)
            elif isinstance(st, (ast.Delete,)):
                for t in st.targets:
                    if _is_self_attr(t):
                        raise facts.TieBroken('%s.%s deletes self.%s' % (self.cls, self.name, t.attr))
            elif isinstance(st, ast.Call) and isinstance(st.func, ast.Name) and st.func.id in ('setattr', 'delattr'):
                raise facts.TieBroken('%s.%s uses %s' % (self.cls, self.name, st.func.id))

    def _store_target(self, t, value, st):
        if isinstance(t, (ast.Tuple, ast.List)):
            for e in t.elts:
                self._store_target(e, value, st)
        elif _is_self_attr(t):
            self.stores.append((_mangle(self.cls, t.attr), value, st.lineno, st))
        elif isinstance(t, ast.Subscript):
            b = t.value
            while isinstance(b, ast.Subscript):
                b = b.value
            if _is_self_attr(b):
                self.stores.append((_mangle(self.cls, b.attr), value, st.lineno, st))
        elif isinstance(t, ast.Starred):
            self._store_target(t.value, value, st)

    def tainted_locals(self, cached):
        """local names holding backend-typed values (flow-insensitive fixpoint)"""
        loc = set()
        changed = True
        while changed:
            changed = False
            for st in ast.walk(self.fn):
                if isinstance(st, ast.Assign) and self.expr_tainted(st.value, cached, loc):
                    for t in st.targets:
                        for e in ast.walk(t):
                            if isinstance(e, ast.Name) and e.id not in loc and e.id not in self.backend_names:
                                loc.add(e.id)
                                changed = True
        return loc

    def expr_tainted(self, e, cached, loc):
        for n in ast.walk(e):
            if isinstance(n, ast.Call):
                f = n.func
                if isinstance(f, ast.Attribute) and isinstance(f.value, ast.Name) and f.value.id in self.backend_names:
                    return True
                if isinstance(f, ast.Name) and f.id in self.backend_funcs:
                    return True
            if _is_self_attr(n) and isinstance(n.ctx, ast.Load) and _mangle(self.cls, n.attr) in cached:
                return True
            if isinstance(n, ast.Name) and n.id in loc:
                return True
        return False


def _closure(methods, start):
    seen, todo = set(), [start]
    while todo:
        m = todo.pop()
        if m in seen or m not in methods:
            continue
        seen.add(m)
        todo += list(methods[m].calls)
    return seen


def _top_guards(fn, methods=None):
    """conditions of leading `if c: return [None]` statements (before anything else happens to self); a leading
    `x = self.m(...)` followed by `if x is None: return ...` inherits the guards of method m"""
    out = []
    pending = {}
    for st in fn.body:
        if isinstance(st, ast.Expr) and isinstance(st.value, ast.Constant):
            continue   # docstring
        if methods is not None and isinstance(st, ast.Assign) and len(st.targets) == 1 and isinstance(st.targets[0], ast.Name) \
                and isinstance(st.value, ast.Call) and _is_self_attr(st.value.func) and st.value.func.attr in methods:
            pending[st.targets[0].id] = _top_guards(methods[st.value.func.attr].fn)
            continue
        if isinstance(st, ast.If) and not st.orelse and isinstance(st.test, ast.Compare) and isinstance(st.test.left, ast.Name) \
                and st.test.left.id in pending and len(st.test.ops) == 1 and isinstance(st.test.ops[0], ast.Is) \
                and isinstance(st.test.comparators[0], ast.Constant) and st.test.comparators[0].value is None \
                and isinstance(st.body[-1], ast.Return):
            out += pending.pop(st.test.left.id)
            continue
        if isinstance(st, ast.If) and not st.orelse and len(st.body) == 1 and isinstance(st.body[0], ast.Return) \
                and (st.body[0].value is None or (isinstance(st.body[0].value, ast.Constant) and st.body[0].value.value is None)):
            out.append(ast.unparse(st.test))
            continue
        if isinstance(st, ast.Assign) and _calls_get_backend(st.value):
            continue
        break
    return out


def _module_tables(trees):
    """module-level functions: which ones return backend-typed values, which are factories of table classes"""
    funcs = {}
    for rel, tree in trees.items():
        for n in tree.body:
            if isinstance(n, ast.FunctionDef):
                funcs[n.name] = n
    backend_funcs = {name for name, fn in funcs.items() if _calls_get_backend(fn)}
    return funcs, backend_funcs


def _resolve_callee(call, funcs, classes, depth=0):
    """class name (or INTERP) constructed by this call expression, None if it constructs no table object"""
    if not isinstance(call, ast.Call) or depth > 6:
        return None
    f = call.func
    if isinstance(f, ast.Name):
        if f.id in classes:
            return f.id
        if f.id in funcs:
            res = set()
            for n in ast.walk(funcs[f.id]):
                if isinstance(n, ast.Return) and n.value is not None and not (isinstance(n.value, ast.Constant) and n.value.value is None):
                    res.add(_resolve_callee(n.value, funcs, classes, depth + 1))
            res.discard(None)
            if len(res) > 1:
                raise facts.TieBroken('factory %s returns objects of several classes' % f.id)
            return res.pop() if res else None
    if isinstance(f, ast.Attribute) and f.attr in classes:
        return f.attr
    if isinstance(f, ast.Call) and isinstance(f.func, ast.Name) and f.func.id == 'getattr' and f.args \
            and isinstance(f.args[0], ast.Name) and f.args[0].id == 'interpolators':
        return INTERP
    if isinstance(f, ast.Call) and isinstance(f.func, ast.Attribute) and isinstance(f.func.value, ast.Name) \
            and f.func.value.id == 'interpolators' and f.func.attr == 'get':
        return INTERP
    return None


def _stmt_index(init, node):
    """index of the top-level statement of __init__ that contains node"""
    for i, st in enumerate(init.body):
        for n in ast.walk(st):
            if n is node:
                return i, st
    raise facts.TieBroken('statement not found')


def extract_class(rel, cd, funcs, backend_funcs, classes, ext_loads):
    cls = cd.name
    methods = {}
    for n in cd.body:
        if isinstance(n, ast.FunctionDef):
            methods[n.name] = _Method(cls, n, backend_funcs)
        elif isinstance(n, ast.AsyncFunctionDef):
            raise facts.TieBroken('%s: async method' % cls)
    has_pre = '_precompute' in methods
    # cached attributes: fixpoint of "assigned from a backend-typed expression"
    cached = set()
    changed = True
    while changed:
        changed = False
        for m in methods.values():
            loc = m.tainted_locals(cached)
            for a, v, _, _ in m.stores:
                if a not in cached and v is not None and m.expr_tainted(v, cached, loc):
                    cached.add(a)
                    changed = True
    if not has_pre and not cached:
        return None
    init = methods.get('__init__')
    if init is None:
        raise facts.TieBroken('%s: no __init__' % cls)
    pre = _closure(methods, '_precompute') if has_pre else set()
    # methods reachable only from __init__
    callers = {m: {c for c, mm in methods.items() if m in mm.calls} for m in methods}
    init_only = set()
    changed = True
    while changed:
        changed = False
        for m in methods:
            if m in init_only or m == '__init__' or m in pre:
                continue
            if callers[m] and all(c == '__init__' or c in init_only for c in callers[m]) and m.startswith('_') and not m.startswith('__'):
                init_only.add(m)
                changed = True
    evalm = sorted(m for m in methods if m != '__init__' and m not in pre and m not in init_only)
    refreshed, pre_loads, first_store, first_load = set(), set(), {}, {}
    for m in pre:
        for a, v, ln, _ in methods[m].stores:
            refreshed.add(a)
            first_store[a] = min(first_store.get(a, 10 ** 9), ln)
        for a, ln in methods[m].loads.items():
            pre_loads.add(a)
            first_load[a] = min(first_load.get(a, 10 ** 9), ln)
    read = set()
    for m in evalm:
        for mm in _closure(methods, m):
            if mm != '__init__':
                read |= set(methods[mm].loads)
    read -= set(methods)
    read |= cached & ext_loads         # attributes of this name read through another object anywhere in the package
    # subscription
    subs = []
    for n in ast.walk(cd):
        if isinstance(n, ast.Attribute) and isinstance(n.value, ast.Name) and n.value.id == 'events':
            subs.append(n)
    subscribes, conditional, sub_idx = False, False, None
    if subs:
        if len(subs) != 1 or subs[0].attr != 'subscribe':
            raise facts.TieBroken('%s: unrecognised use of the events module' % cls)
        found = None
        for n in ast.walk(init.fn):
            if isinstance(n, ast.Call) and isinstance(n.func, ast.Call) and n.func.func is subs[0]:
                found = n
        if found is None or len(found.func.args) != 1 or not isinstance(found.func.args[0], ast.Constant) \
                or len(found.args) != 1 or not _is_self_attr(found.args[0]):
            raise facts.TieBroken('%s: subscription is not of the form events.subscribe(<name>)(self.<method>) in __init__' % cls)
        if found.func.args[0].value == EVENT and found.args[0].attr == '_precompute':
            subscribes = True
        sub_idx, st = _stmt_index(init.fn, found)
        if isinstance(st, ast.Expr) and st.value is found:
            conditional = False
        elif isinstance(st, ast.If) and isinstance(st.test, ast.Name) and st.test.id in [a.arg for a in init.fn.args.args] \
                and not st.orelse and len(st.body) == 1 and isinstance(st.body[0], ast.Expr) and st.body[0].value is found:
            conditional = True
        else:
            raise facts.TieBroken('%s: subscription sits inside unrecognised control flow' % cls)
    sub_hazards = []
    if conditional:
        args = init.fn.args
        names_ = [a.arg for a in args.args]
        pname = init.fn.body[sub_idx].test.id
        k = names_.index(pname) - (len(names_) - len(args.defaults))
        if k < 0 or not (isinstance(args.defaults[k], ast.Constant) and args.defaults[k].value is True):
            sub_hazards.append('subscribe-default-not-True')
    # members constructed in __init__
    members = []
    for a, v, ln, st in init.stores:
        c = _resolve_callee(v, funcs, classes) if v is not None else None
        if c is not None:
            idx, top = _stmt_index(init.fn, st)
            members.append((a, c, idx))
            if len(v.args) > 1 or any(kw.arg in (None, 'subscribe') for kw in v.keywords):
                if c == INTERP or any(kw.arg in (None, 'subscribe') for kw in v.keywords):
                    sub_hazards.append('member-may-be-unsubscribed:' + a)
    for m in methods.values():
        if m.name != '__init__':
            for a, v, ln, st in m.stores:
                if v is not None and _resolve_callee(v, funcs, classes) is not None:
                    raise facts.TieBroken('%s.%s constructs a tensor-holding member outside __init__' % (cls, m.name))
    members.sort(key=lambda t: t[2])
    pre_call_idx = None
    for n in ast.walk(init.fn):
        if isinstance(n, ast.Call) and _is_self_attr(n.func) and n.func.attr == '_precompute':
            pre_call_idx = _stmt_index(init.fn, n)[0]
    members_before = all(i < (sub_idx if sub_idx is not None else 10 ** 9) and (pre_call_idx is None or i < pre_call_idx)
                         for _, _, i in members)
    init_pre_before_sub = pre_call_idx is not None and (sub_idx is None or pre_call_idx < sub_idx)
    mnames = {a for a, _, _ in members}
    pre_members = sorted(a for a in pre_loads if a in mnames)
    # hazards inside _precompute
    hazards = list(sub_hazards)
    for a in sorted(pre_loads & cached - refreshed):
        hazards.append('stale-dependency:' + a)
    for a in sorted(refreshed & pre_loads):
        if first_load[a] <= first_store[a] and not _same_stmt_rebind_ok(methods, pre, a):
            hazards.append('read-before-write:' + a)
    neutral = pre_loads - refreshed - mnames
    for m in evalm:
        for mm in _closure(methods, m):
            if mm == '__init__' or mm in pre:
                continue
            for a, v, ln, _ in methods[mm].stores:
                if a in neutral and a != 'alphasets_shape':
                    hazards.append('neutral-data-reassigned:%s in %s' % (a, mm))
    # guards
    pre_guards = _top_guards(methods['_precompute'].fn) if has_pre else []
    unguarded = []
    for m in evalm:
        reads_cached = set(methods[m].loads) & cached      # each method answers for its own reads
        if reads_cached and not set(pre_guards) <= set(_top_guards(methods[m].fn, methods)):
            unguarded.append(m)
    # shape cache
    shape_attrs, shape_refreshed, shape_ok = [], [], True
    if any(a == 'alphasets_shape' for m in methods.values() for a, _, _, _ in m.stores):
        dep = {'alphasets_shape'}
        changed = True
        while changed:
            changed = False
            for m in pre:
                for a, v, _, _ in methods[m].stores:
                    if a not in dep and v is not None and any(_is_self_attr(n) and _mangle(cls, n.attr) in dep for n in ast.walk(v)):
                        dep.add(a)
                        changed = True
        shape_attrs = sorted(dep - {'alphasets_shape'})
        setters = [m for m in methods.values() if m.name != '__init__' and any(a == 'alphasets_shape' for a, _, _, _ in m.stores)]
        if len(setters) != 1:
            raise facts.TieBroken('%s: alphasets_shape assigned in %d methods besides __init__' % (cls, len(setters)))
        s = setters[0]
        shape_refreshed = sorted({a for a, _, _, _ in s.stores} - {'alphasets_shape'})
        g = _top_guards(s.fn)
        arg = [a.arg for a in s.fn.args.args][1:]
        shape_ok = len(arg) == 1 and g in (['%s == self.alphasets_shape' % arg[0]], ['self.alphasets_shape == %s' % arg[0]]) \
            and any(a == 'alphasets_shape' and isinstance(v, ast.Name) and v.id == arg[0] for a, v, _, _ in s.stores) \
            and s.name in {c for m in evalm for c in methods[m].calls}
        if not shape_ok:
            hazards.append('shape-cache-protocol:' + s.name)
    return dict(name=cls, file=rel, has_precompute=has_pre, cached=sorted(cached), refreshed=sorted(refreshed), read=sorted(read),
                subscribes=subscribes, conditional=conditional, members=[(a, c) for a, c, _ in members],
                members_before=members_before and (init_pre_before_sub or not has_pre), pre_members=pre_members,
                hazards=hazards, pre_guards=pre_guards, unguarded_eval=unguarded,
                shape_attrs=shape_attrs, shape_refreshed=shape_refreshed, eval_methods=evalm)


def _same_stmt_rebind_ok(methods, pre, a):
    """`self.x = f(self.x)` directly after `self.x = ...` is fine: the first store precedes the first load"""
    return False


def coq_facts(tab):
    def sl(xs):
        return '[' + '; '.join(core.cstr(x) for x in xs) + ']'
    rows = []
    for c in tab:
        rows.append('  {| cf_name := %s; cf_has_pre := %s; cf_cached := %s; cf_refreshed := %s; cf_read := %s;\n'
                    '     cf_subscribes := %s; cf_conditional := %s; cf_members := %s; cf_members_before := %s;\n'
                    '     cf_pre_members := %s; cf_hazards := %s; cf_pre_guarded := %s; cf_unguarded_eval := %s;\n'
                    '     cf_shape_attrs := %s; cf_shape_refreshed := %s |}' % (
                        core.cstr(c['name']), core.cbool(c['has_precompute']), sl(c['cached']), sl(c['refreshed']), sl(c['read']),
                        core.cbool(c['subscribes']), core.cbool(c['conditional']),
                        '[' + '; '.join('(%s, %s)' % (core.cstr(a), core.cstr(k)) for a, k in c['members']) + ']',
                        core.cbool(c['members_before']), sl(c['pre_members']), sl(c['hazards']),
                        core.cbool(bool(c['pre_guards'])), sl(c['unguarded_eval']),
                        sl(c['shape_attrs']), sl(c['shape_refreshed'])))
    return ('Require Import PV.Events.\nOpen Scope string_scope.\n'
            'Definition facts_c11 : list cfacts := [\n' + ';\n'.join(rows) + '\n].\n')


def extract(ctx=None, write=True):
    trees = {}
    for rel in ANCHORS:
        trees[rel] = facts.parse(rel)[0]
    funcs, backend_funcs = _module_tables(trees)
    # attribute names loaded through anything but `self`, anywhere in the package
    ext_loads = set()
    for root, _, files in os.walk(core.SRC):
        for fn in sorted(files):
            if fn.endswith('.py'):
                rel = os.path.relpath(os.path.join(root, fn), core.SRC)
                t = trees.get(rel) or facts.parse(rel)[0]
                for n in ast.walk(t):
                    if isinstance(n, ast.Attribute) and isinstance(n.ctx, ast.Load) and not _is_self_attr(n):
                        ext_loads.add(n.attr)
    # the interpolator family (what getattr(interpolators, code) can return)
    itree, _ = facts.parse('interpolators/__init__.py')
    interps = None
    for n in itree.body:
        if isinstance(n, ast.Assign) and len(n.targets) == 1 and isinstance(n.targets[0], ast.Name) and n.targets[0].id == '__all__':
            if not (isinstance(n.value, ast.List) and all(isinstance(e, ast.Constant) and isinstance(e.value, str) for e in n.value.elts)):
                raise facts.TieBroken('interpolators.__all__ is not a literal list')
            interps = [e.value for e in n.value.elts]
    if not interps:
        raise facts.TieBroken('interpolators.__all__ not found')
    classdefs = [(rel, n) for rel, t in trees.items() for n in t.body if isinstance(n, ast.ClassDef)]
    # table classes = classes with a _precompute or with backend-typed attributes; two passes so that members resolve
    names = {cd.name for _, cd in classdefs if any(isinstance(n, ast.FunctionDef) and n.name == '_precompute' for n in cd.body)}
    tab = []
    for rel, cd in classdefs:
        r = extract_class(rel, cd, funcs, backend_funcs, names, ext_loads)
        if r is not None:
            tab.append(r)
    got = {c['name'] for c in tab}
    if not names <= got:
        raise facts.TieBroken('classes with _precompute missing from the table')
    for c in tab:
        for a, k in c['members']:
            if k != INTERP and k not in got:
                raise facts.TieBroken('%s.%s holds an object of unknown class %s' % (c['name'], a, k))
    if not tab:
        raise facts.TieBroken('no tensor-holding class found')
    # set_backend: fire events iff changed; order of statements
    mgr = manager_facts()
    for k in interps:
        if k not in got:
            raise facts.TieBroken('interpolator class %s holds no tensors / has no _precompute' % k)
    if write:
        facts.write_gen('FactsC11', coq_facts(tab) + 'Definition interp_classes : list string := %s.\n' % facts.coq_strlist(interps) + mgr['coq'])
    return dict(classes=tab, manager=mgr['facts'], interps=interps)


def manager_facts():
    """shape of set_backend that the model transcribes: the two change tests, state swap before the triggers,
    trigger order, _setup last.  Emitted as booleans so that props/C11.v can tie the model's flags to them."""
    tree, _ = facts.parse('tensor/manager.py')
    fn = facts.find_func(tree, 'set_backend')
    src = {}
    order = []
    for st in fn.body:
        for n in ast.walk(st):
            if isinstance(n, ast.Assign) and len(n.targets) == 1 and isinstance(n.targets[0], ast.Name) \
                    and n.targets[0].id in ('tensorlib_changed', 'optimizer_changed'):
                src[n.targets[0].id] = ast.unparse(n.value)
                order.append('test:' + n.targets[0].id)
        if isinstance(st, ast.Assign) and ast.unparse(st.targets[0]) == "this.state['current']":
            order.append('swap')
            src['swap'] = ast.unparse(st.value)
        if isinstance(st, ast.If) and isinstance(st.test, ast.Name) and st.test.id in ('tensorlib_changed', 'optimizer_changed'):
            body = ast.unparse(st.body[0]) if len(st.body) == 1 and not st.orelse else '?'
            order.append('fire:%s:%s' % (st.test.id, body))
        if isinstance(st, ast.Expr) and ast.unparse(st.value) == 'new_backend._setup()':
            order.append('setup')
    want_order = ['test:tensorlib_changed', 'test:optimizer_changed', 'swap',
                  "fire:tensorlib_changed:events.trigger('tensorlib_changed')()",
                  "fire:optimizer_changed:events.trigger('optimizer_changed')()", 'setup']
    tl_test = src.get('tensorlib_changed', '').replace(' ', '')
    want_tl = "bool((new_backend.name!=this.state['current'][0].name)|(new_backend.precision!=this.state['current'][0].precision))"
    opt_test = src.get('optimizer_changed', '').replace(' ', '')
    want_opt = "bool(this.state['current'][1]!=new_optimizer)"
    deco = [ast.unparse(d) for d in fn.decorator_list]
    f = dict(order_ok=order == want_order, tensorlib_test_ok=tl_test == want_tl, optimizer_test_ok=opt_test == want_opt,
             swap_ok=src.get('swap', '').replace(' ', '') == '(new_backend,new_optimizer)',
             registered=deco == ["events.register('change_backend')"], order=order)
    # events.Callables: append keeps order, call iterates in order and flushes afterwards
    etree, _ = facts.parse('events.py')
    cal = facts.find_class(etree, 'Callables')
    call = facts.find_func(cal, '__call__')
    f['call_loop_then_flush'] = (len(call.body) == 2 and isinstance(call.body[0], ast.For)
                                 and ast.unparse(call.body[0].iter) == 'self._callbacks'
                                 and ast.unparse(call.body[1]) == 'self._flush()')
    app = facts.find_func(cal, 'append')
    f['append_at_end'] = ast.unparse(app.body[-1]) == 'self._callbacks.append(callback_ref)'
    f['weak_self'] = 'weakref.ref(callback.__self__)' in ast.unparse(app)
    coq = ('Definition set_backend_shape_ok : bool := %s.\nDefinition callables_shape_ok : bool := %s.\n' % (
        core.cbool(f['order_ok'] and f['tensorlib_test_ok'] and f['optimizer_test_ok'] and f['swap_ok'] and f['registered']),
        core.cbool(f['call_loop_then_flush'] and f['append_at_end'] and f['weak_self'])))
    return dict(facts=f, coq=coq)
