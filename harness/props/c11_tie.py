"""C11 - tie to the source: pyhf/events.py (Callables.append / _flush / __call__, subscribe, register, trigger, disable, enable) and
pyhf/tensor/manager.py (set_backend) translated to coq/gen/EventsGen.v on every run (translator: harness/props/tie_translate.py +
tie_translate_x4.py, class Exec4; fail closed).  The proofs that the translated definitions equal the hand model of coq/Events.v are in
coq/TieEvents.v; the theorems C11_source_is_model_* in coq/props/C11.v."""
import ast
import os

from harness import core, facts
from harness.props import tie_translate as tt
from harness.props import tie_translate_x4 as t4

GEN_NAME = 'EventsGen'
STR, NAT, BOOL = tt.STR, tt.NAT, tt.BOOL
CB = tt.PROD('fref', tt.OPTION('wref'))
CBS = tt.LIST(CB)
EVENTS = tt.DICT(STR, CBS)
WORLD = t4.WORLD

GEN_HEADER = '''From Coq Require Import Bool Arith String List.
Import ListNotations.
Local Open Scope list_scope.
(* GENERATED on every run by harness/props/c11_tie.py from $VERIF_REPO/src/pyhf/events.py and tensor/manager.py - do not edit.
   Reading of the python values (the trusted part of the translation):
   * events.py.  A weak reference is the identity of what it refers to: fref (a function), wref (an object); `arg()` on a weak reference to an
     object is `deref w arg` (None once the object has been collected - the world w decides); functions outlive their subscriptions, so
     `func()` is the function.  A registered callback is the python pair (weakref to the function, weakref to the object or None) = cbref.
     A Callables object is identified with the list self._callbacks (its __init__ is checked to set it to []).  A callback handed to
     Callables.append is a bound method (has __func__ / __self__) or a plain function (`.__func__` raises AttributeError): one definition
     per kind.  Calling a callback is an effect on the world: `func()(arg_ref, ..)` is call_method w func arg_ref a and
     `func()(..)` is call_func w func a, a standing for the forwarded arguments; the world is threaded through the statements in
     execution order (a `for` loop is a fold_left carrying it).
     The module globals __events / __disabled_events are an association list event -> callbacks (insertion ordered) and a set of texts;
     `d.setdefault(k, Callables()).append(x)` is setdefault_upd d k (append x); what trigger returns is a `callee`: the function noop, a
     Callables, or python None (`dict.get` of an absent key).
     register: `trigger(name)()` is the single effect fire w name (coq/TieEvents.v composes it from gen_trigger and gen_callables_call);
     the wrapped function is run w a, returning the new world and its result.
   * manager.py:set_backend, translated per kind of argument (text / backend object / None; bytes arguments are outside the translation).
     Text methods: lower; BackendRetriever / OptimizerRetriever: getattr(.., name) is getb name / geto name (None for a name the retriever does
     not know: its __getattr__ falls through), calling the result when it is None raises TypeError; cls() / cls(precision=p), written as a call with a keyword dictionary, is
     newb cls None / newb cls (Some p); constructing an optimizer allocates a new object: newo w cls = (w', object);
     .name / .precision of a backend object are bname / bprec, .name of an optimizer oname; isinstance(x, cls) is binst / oinst; `!=` on
     optimizer objects is oneq (the optimizer classes are checked to define no __eq__ / __ne__: identity);
     this.state['current'] / this.state['default'] are cur w / dflt w, assigning them set_cur w v / set_dflt w v;
     events.trigger(name)() is fire w name; new_backend._setup() is setup w new_backend.
   * exceptions are their classes (constructors of `exc`). *)
'''

PRELUDE = '''Inductive exc := Unsupported | InvalidBackend | InvalidOptimizer | PyAttributeError | PyTypeError | PyKeyError.
Inductive result (A : Type) := Ok (a : A) | Err (e : exc).
Arguments Ok {A} a. Arguments Err {A} e.
Definition fref := nat.
Definition wref := nat.
Definition objref := nat.
Definition cbref := (fref * option wref)%type.
Inductive callee := CNoop | CCallables (cbs : list cbref) | CNone.
Definition mem_str (s : string) (l : list string) : bool := existsb (String.eqb s) l.
Fixpoint assoc {A} (k : string) (m : list (string * A)) : option A :=
  match m with [] => None | (k', v) :: t => if String.eqb k k' then Some v else assoc k t end.
Fixpoint setdefault_upd {A} (d : list (string * list A)) (k : string) (f : list A -> list A) : list (string * list A) :=      (* d.setdefault(k, C()).m(x) *)
  match d with [] => [(k, f [])] | (k', l) :: r => if String.eqb k k' then (k', f l) :: r else (k', l) :: setdefault_upd r k f end.
Fixpoint set_remove (s : string) (l : list string) : option (list string) :=                                               (* set.remove: KeyError when absent *)
  match l with [] => None | a :: r => if String.eqb s a then Some r else match set_remove s r with Some r' => Some (a :: r') | None => None end end.
'''

EXC = {'Unsupported': 'Unsupported', 'InvalidBackend': 'InvalidBackend', 'InvalidOptimizer': 'InvalidOptimizer', 'AttributeError': 'PyAttributeError',
       'TypeError': 'PyTypeError', 'KeyError': 'PyKeyError'}

EV_PARAMS = '(W A : Type) (deref : W -> wref -> option objref) (call_method : W -> fref -> objref -> A -> W) (call_func : W -> fref -> A -> W)'
EV_ARGS = 'W A deref call_method call_func'


# ==============================================================================================================================
# events.py
class XE(t4.Exec4):
    exc_names = EXC

    def __init__(self, classes, funcs, kind=None):
        super().__init__(classes)
        self.funcs = funcs
        self.kind = kind

    def coq_cb(self, v):
        """the python pair (weakref to the function, weakref to the object | None)"""
        if isinstance(v, tt.Tup) and len(v.items) == 2 and isinstance(v.items[0], tt.T) and v.items[0].ty == 'fref':
            b = v.items[1]
            if isinstance(b, tt.S) and b.v is None:
                return tt.mk('(%s, None)' % v.items[0].s, CB, 2)
            if isinstance(b, tt.T) and b.ty == 'wref':
                return tt.mk('(%s, Some %s)' % (v.items[0].s, b.s), CB, 2)
            if isinstance(b, tt.T) and b.ty == tt.OPTION('wref'):
                return tt.mk('(%s, %s)' % (v.items[0].s, b.s), CB, 2)
        return None

    def as_term(self, v):
        c = self.coq_cb(v)
        if c is not None:
            return c
        return super().as_term(v)

    def global_name(self, name, st):
        if name in self.classes:
            return tt.Ext('class:' + name)
        if name in ('weakref', 'cast', 'TCallable', 'bool', 'wraps'):
            return tt.Ext(name)
        if name == '__events':
            return st.attrs['__events']
        if name == '__disabled_events':
            return st.attrs['__disabled_events']
        if name == 'noop':
            return tt.T('CNoop', 'callee')
        if name == 'trigger':
            return tt.Ext('events.trigger')
        raise tt.TB('unknown name %s' % name)

    def attr_ext(self, base, attr, node, st):
        if isinstance(base, tt.Ext):
            if base.tag == 'weakref' and attr == 'ref':
                return tt.Ext('weakref.ref')
            if base.tag == 'bound-method' and attr == '__func__':
                return tt.T('f', 'fn')
            if base.tag == 'bound-method' and attr == '__self__':
                return tt.T('o', 'objref')
            if base.tag == 'plain-function' and attr in ('__func__', '__self__'):
                raise t4.StaticRaise('AttributeError')
        return super().attr_ext(base, attr, node, st)

    def call_ext(self, f, args, kwargs, node, st):
        tag = f.tag
        if tag == 'weakref.ref' and len(args) == 1 and not kwargs:
            v = args[0]
            if isinstance(v, tt.T) and v.ty == 'fn':
                return tt.T(v.s, 'fref')
            if isinstance(v, tt.T) and v.ty == 'objref':
                return tt.T(v.s, 'wref')
            if isinstance(v, tt.Ext) and v.tag == 'plain-function':
                return tt.T('f', 'fref')
            raise tt.TB('weakref.ref(%r) (line %d)' % (v, node.lineno))
        if tag == 'cast' and len(args) == 2 and not kwargs:
            return args[1]
        if tag == 'events.trigger' and len(args) == 1 and not kwargs and self.is_str(args[0]):
            return tt.Ext('value:triggered', args[0])
        raise tt.TB('call of %r (line %d)' % (f, node.lineno))

    def construct(self, cls, args, kwargs, node, st):
        if cls.name == 'Callables' and not args and not kwargs:
            return tt.Lst([])                       # checked in generate(): __init__ sets self._callbacks = []
        return super().construct(cls, args, kwargs, node, st)

    def call_value(self, f, args, kwargs, node, st):
        if isinstance(f, tt.T) and f.ty == 'wref' and not args and not kwargs:
            return tt.T('(deref %s %s)' % (self.world(st, node).s, f.s), tt.OPTION('objref'))
        if isinstance(f, tt.T) and f.ty == 'fref' and not args and not kwargs:
            return tt.T(f.s, 'fn')
        raise tt.TB('call of the value %r (line %d)' % (f, node.lineno))

    def forwarded(self, args, kwargs, node, skip=0):
        rest = args[skip:]
        if not (len(rest) == 1 and isinstance(rest[0], tt.Ext) and rest[0].tag == 'forwarded-args'
                and set(kwargs) == {'**'} and isinstance(kwargs['**'], tt.Ext) and kwargs['**'].tag == 'forwarded-kwargs'):
            raise tt.TB('the arguments of the call are not forwarded unchanged as (*args, **kwargs) (line %d)' % node.lineno)

    def effect_stmt(self, e, st):
        if not isinstance(e, ast.Call):
            return False
        if isinstance(e.func, ast.Call) or (isinstance(e.func, ast.Name) and isinstance(st.env.get(e.func.id), (tt.T, tt.Ext))):
            f = self.expr(e.func, st)
            args, kwargs = self.call_args(e, st)
            if isinstance(f, tt.T) and f.ty == 'fn':
                if args and isinstance(args[0], tt.T) and args[0].ty == 'objref':
                    self.forwarded(args, kwargs, e, 1)
                    self.effect(st, '(call_method %s %s %s a)', f.s, args[0].s)
                else:
                    self.forwarded(args, kwargs, e, 0)
                    self.effect(st, '(call_func %s %s a)', f.s)
                return True
            if isinstance(f, tt.Ext) and f.tag == 'value:triggered' and not args and not kwargs:
                self.effect(st, '(fire %s %s)', self.strterm(f.data))
                return True
            if isinstance(f, tt.Ext) and f.tag == 'wrapped-function':
                self.forwarded(args, kwargs, e, 0)
                raise tt.TB('the result of the wrapped function is dropped (line %d)' % e.lineno)
            raise tt.TB('call of %r as a statement (line %d)' % (f, e.lineno))
        return False

    def call(self, e, st):
        if isinstance(e.func, ast.Name) and isinstance(st.env.get(e.func.id), tt.Ext) and st.env[e.func.id].tag == 'wrapped-function':
            args, kwargs = self.call_args(e, st)
            self.forwarded(args, kwargs, e, 0)
            var = self.fresh_var('r')
            self.pending.append(('(run %s a)' % self.world(st, e).s, var, None))
            self.set_world(st, '(fst %s)' % var)
            return tt.T('(snd %s)' % var, 'R')
        return super().call(e, st)

    def inline_target(self, call, st):
        # self.<method>() of the class being translated, as a statement: the body is inlined (it updates self)
        if (isinstance(call.func, ast.Attribute) and isinstance(call.func.value, ast.Name) and call.func.value.id == 'self' and 'self' not in st.env
                and self.cls is not None and not call.args and not call.keywords):
            m = self.class_member(self.cls, call.func.attr)
            if m is not None and not m[1] and [a.arg for a in m[0].args.args] == ['self'] and not m[0].args.vararg and not m[0].args.kwarg:
                return m[0], tt.St(env={}, attrs=st.attrs, warns=st.warns)
        return None

    def mutator(self, e, st):
        # __events.setdefault(event, Callables()).append(func)
        if (isinstance(e, ast.Call) and isinstance(e.func, ast.Attribute) and isinstance(e.func.value, ast.Call)
                and isinstance(e.func.value.func, ast.Attribute) and e.func.value.func.attr == 'setdefault'
                and isinstance(e.func.value.func.value, ast.Name) and e.func.value.func.value.id == '__events'):
            sd = e.func.value
            if len(sd.args) != 2 or sd.keywords or len(e.args) != 1 or e.keywords:
                raise tt.TB('setdefault(..).%s(..) arguments (line %d)' % (e.func.attr, e.lineno))
            new = self.expr(sd.args[1], st)
            if not (isinstance(new, tt.Lst) and not new.items):
                raise tt.TB('the default entry of the event table is not a new Callables() (line %d)' % e.lineno)
            cls = self.classes['Callables']
            m = self.class_member(cls, e.func.attr)
            if m is None or m[1]:
                raise tt.TB('Callables has no method %s (line %d)' % (e.func.attr, e.lineno))
            key = self.strterm(self.expr(sd.args[0], st), e)
            arg = self.expr(e.args[0], st)
            body = self.method_update(cls, m[0], arg, 'x_cbs')
            ev = st.attrs['__events']
            st.attrs['__events'] = tt.mk('(setdefault_upd %s %s (fun x_cbs => %s))' % (ev.s, key, body), EVENTS, 1)
            return True
        if (isinstance(e, ast.Call) and isinstance(e.func, ast.Attribute) and isinstance(e.func.value, ast.Name) and e.func.value.id == '__disabled_events'
                and e.func.attr in ('add', 'remove') and len(e.args) == 1 and not e.keywords):
            x = self.strterm(self.expr(e.args[0], st), e)
            cur = st.attrs['__disabled_events']
            if e.func.attr == 'add':
                st.attrs['__disabled_events'] = tt.mk('(if mem_str %s %s then %s else %s ++ [%s])' % (x, cur.s, cur.s, cur.s, x), tt.SET(STR), 1)
            else:
                var = self.fresh_var('d')
                self.pending.append(('(set_remove %s %s)' % (x, cur.s), var, 'KeyError'))
                st.attrs['__disabled_events'] = tt.mk(var, tt.SET(STR), 1)
            return True
        return super().mutator(e, st)

    def method_update(self, cls, fn, arg, var):
        """the new value of self._callbacks after cls.fn(self, arg) on an object whose callbacks are `var`"""
        if [a.arg for a in fn.args.args][:1] != ['self'] or len(fn.args.args) != 2 or fn.args.vararg or fn.args.kwarg:
            raise tt.TB('%s.%s: signature' % (cls.name, fn.name))
        x = XE(self.classes, self.funcs, self.kind)
        x.cls = cls
        x.nvar = self.nvar + 100
        x.locals = tt.assigned_locals(fn)
        o = x.block(fn.body, tt.St(env={fn.args.args[1].arg: arg}, attrs={'_callbacks': tt.mk(var, CBS, 1)}))
        body, r = x.render_fn(o, None, lambda st: self.need_cbs(st))
        if r:
            raise tt.TB('%s.%s can raise' % (cls.name, fn.name))
        return body

    def need_cbs(self, st):
        v = st.attrs.get('_callbacks')
        if isinstance(v, tt.Lst) and not v.items:
            return tt.mk('[]', CBS, 2)
        if not (isinstance(v, tt.T) and tt.coqty3(v.ty) == tt.coqty3(CBS)):
            raise tt.TB('self._callbacks is not a list of callback references at the end')
        return v

    def method_ext(self, base, name, args, kwargs, node, st):
        if isinstance(base, tt.T) and base.ty == EVENTS and name == 'get' and len(args) == 1 and not kwargs:
            return tt.T('(match assoc %s %s with Some x_c => CCallables x_c | None => CNone end)' % (self.strterm(args[0], node), base.s), 'callee')
        return super().method_ext(base, name, args, kwargs, node, st)

    def stmt(self, s, st, rest):
        if isinstance(s, ast.Global):
            if not set(s.names) <= {'__events', '__disabled_events', 'noop'}:
                raise tt.TB('global %s (line %d)' % (', '.join(s.names), s.lineno))
            return None
        if isinstance(s, ast.FunctionDef) and s.args.vararg and s.args.kwarg and not s.args.args and not s.args.kwonlyargs:
            decs = [ast.unparse(d) for d in s.decorator_list]
            if decs not in ([], ['wraps(func)']):
                raise tt.TB('local function %s: decorators %r (line %d)' % (s.name, decs, s.lineno))
            st.env[s.name] = tt.Ext('wrapper', (s, dict(st.env)))
            return None
        return super().stmt(s, st, rest)


def params_of(fn):
    a = fn.args
    if a.posonlyargs or a.kwonlyargs:
        raise tt.TB('%s: signature outside the translator' % fn.name)
    return [x.arg for x in a.args], (a.vararg.arg if a.vararg else None), (a.kwarg.arg if a.kwarg else None)


def gen_events(text, info):
    tree, path = facts.parse('events.py')
    classes = {n.name: n for n in tree.body if isinstance(n, ast.ClassDef)}
    funcs = {n.name: n for n in tree.body if isinstance(n, ast.FunctionDef)}
    if 'Callables' not in classes:
        raise tt.TB('class Callables not found')
    CAL = classes['Callables']
    hdr = lambda fn: '\n' + tt.source_comment('events.py', fn, path)
    # module globals
    glob = {ast.unparse(n.targets[0]): ast.unparse(n.value) for n in tree.body if isinstance(n, ast.Assign) and len(n.targets) == 1}
    if glob.get('__events') != '{}' or glob.get('__disabled_events') != 'set()':
        raise tt.TB('events.py: __events / __disabled_events are not initialised to {} / set()')
    init = facts.find_func(CAL, '__init__')
    if [ast.unparse(s) for s in init.body if not isinstance(s, ast.Expr)] != ['self._callbacks = []'] or params_of(init) != (['self'], None, None):
        raise tt.TB('Callables.__init__ is not `self._callbacks = []`')
    noop = funcs.get('noop')
    if noop is None or [type(s).__name__ for s in noop.body] != ['Pass'] or not noop.args.vararg or not noop.args.kwarg:
        raise tt.TB('events.noop is not `def noop(*args, **kwargs): pass`')

    def ex(cls=None, kind=None):
        x = XE(classes, funcs, kind)
        x.cls = cls
        return x
    base_attrs = lambda: {'_callbacks': tt.mk('cbs', CBS, 1)}

    # ---- Callables.append(self, callback): one definition per kind of callback
    fn = facts.find_func(CAL, 'append')
    if params_of(fn) != (['self', 'callback'], None, None):
        raise tt.TB('Callables.append: signature changed')
    text += hdr(fn)
    for kind, tag, sig in (('method', 'bound-method', '(cbs : list cbref) (f : fref) (o : objref)'), ('function', 'plain-function', '(cbs : list cbref) (f : fref)')):
        x = ex(CAL, kind)
        x.locals = tt.assigned_locals(fn)
        o = x.block(fn.body, tt.St(env={'callback': tt.Ext(tag)}, attrs=base_attrs()))
        body, r = x.render_fn(o, None, lambda st, x=x: x.need_cbs(st))
        if r:
            raise tt.TB('Callables.append can raise')
        text += 'Definition gen_append_%s %s : list cbref :=\n  %s.\n' % (kind, sig, body)
    info['gen_append'] = True

    # ---- Callables._flush(self)
    fn = facts.find_func(CAL, '_flush')
    if params_of(fn) != (['self'], None, None):
        raise tt.TB('Callables._flush: signature changed')
    x = ex(CAL)
    x.locals = tt.assigned_locals(fn)
    o = x.block(fn.body, tt.St(attrs=dict(base_attrs(), **{WORLD: tt.mk('w', 'W', 2)})))

    def fall_flush(st, x=x):
        if st.attrs[WORLD].s != 'w':
            raise tt.TB('Callables._flush has an effect on the world')
        return x.need_cbs(st)
    body, r = x.render_fn(o, None, fall_flush)
    if r:
        raise tt.TB('Callables._flush can raise')
    text += hdr(fn) + 'Definition gen_flush %s (w : W) (cbs : list cbref) : list cbref :=\n  %s.\n' % (EV_PARAMS, body)
    info['gen_flush'] = True

    # ---- Callables.__call__(self, *args, **kwargs)
    fn = facts.find_func(CAL, '__call__')
    if params_of(fn) != (['self'], 'args', 'kwargs'):
        raise tt.TB('Callables.__call__: signature changed')
    x = ex(CAL)
    x.locals = tt.assigned_locals(fn)
    o = x.block(fn.body, tt.St(env={'args': tt.Ext('forwarded-args'), 'kwargs': tt.Ext('forwarded-kwargs')}, attrs=dict(base_attrs(), **{WORLD: tt.mk('w', 'W', 2)})))
    body, r = x.render_fn(o, None, lambda st, x=x: tt.T('(%s, %s)' % (st.attrs[WORLD].s, x.need_cbs(st).s), tt.PROD('W', CBS)))
    if r:
        raise tt.TB('Callables.__call__ can raise')
    text += hdr(fn) + 'Definition gen_callables_call %s (w : W) (cbs : list cbref) (a : A) : W * list cbref :=\n  %s.\n' % (EV_PARAMS, body)
    info['gen_callables_call'] = True

    # ---- subscribe(event)(func): one definition per kind of callback
    fn = funcs.get('subscribe')
    if fn is None or params_of(fn) != (['event'], None, None):
        raise tt.TB('events.subscribe(event) not found')
    text += hdr(fn)
    for kind, tag, sig, cbargs in (('method', 'bound-method', '(f : fref) (o : objref)', 'f o'), ('function', 'plain-function', '(f : fref)', 'f')):
        x = ex(None, kind)
        x.locals = tt.assigned_locals(fn)
        st0 = tt.St(env={'event': tt.mk('event', STR, 2)}, attrs={'__events': tt.mk('events', EVENTS, 1)})
        o = x.block(fn.body, st0)
        if not (isinstance(o, tt.Ret) and isinstance(o.val, tt.Fun) and len(o.val.params) == 1 and o.st.attrs['__events'].s == 'events'):
            raise tt.TB('subscribe does not simply return a one-argument decorator')
        dec = o.val
        x.locals = set()
        o2 = x.block(dec.body, tt.St(env=dict(dec.env, **{dec.params[0]: tt.Ext(tag)}), attrs=o.st.attrs))
        if not (isinstance(o2, tt.Ret) and isinstance(o2.val, tt.Ext) and o2.val.tag == tag):
            raise tt.TB('the decorator of subscribe does not return the function it is given')
        text += 'Definition gen_subscribe_%s (events : list (string * list cbref)) (event : string) %s : list (string * list cbref) :=\n  %s.\n' % (kind, sig, o2.st.attrs['__events'].s)
    info['gen_subscribe'] = True

    # ---- trigger(event)
    fn = funcs.get('trigger')
    if fn is None or params_of(fn) != (['event'], None, None):
        raise tt.TB('events.trigger(event) not found')
    x = ex()
    x.locals = tt.assigned_locals(fn)
    o = x.block(fn.body, tt.St(env={'event': tt.mk('event', STR, 2)}, attrs={'__events': tt.mk('events', EVENTS, 1), '__disabled_events': tt.mk('disabled', tt.SET(STR), 1)}))
    body, r = x.render_fn(o, 'callee')
    if r:
        raise tt.TB('events.trigger can raise')
    text += hdr(fn) + 'Definition gen_trigger (events : list (string * list cbref)) (disabled : list string) (event : string) : callee :=\n  %s.\n' % body
    info['gen_trigger'] = True

    # ---- disable(event) / enable(event)
    for name in ('disable', 'enable'):
        fn = funcs.get(name)
        if fn is None or params_of(fn) != (['event'], None, None):
            raise tt.TB('events.%s(event) not found' % name)
        x = ex()
        x.locals = tt.assigned_locals(fn)
        o = x.block(fn.body, tt.St(env={'event': tt.mk('event', STR, 2)}, attrs={'__disabled_events': tt.mk('disabled', tt.SET(STR), 1)}))
        body, r = x.render_fn(o, None, lambda st: st.attrs['__disabled_events'])
        rty = 'result (list string)' if r else 'list string'
        text += hdr(fn) + 'Definition gen_%s (disabled : list string) (event : string) : %s :=\n  %s.\n' % (name, rty, body)
        info['gen_' + name] = True

    # ---- register(event)(func)(*args, **kwargs)
    fn = funcs.get('register')
    if fn is None or params_of(fn) != (['event'], None, None):
        raise tt.TB('events.register(event) not found')
    x = ex()
    x.locals = tt.assigned_locals(fn)
    o = x.block(fn.body, tt.St(env={'event': tt.mk('event', STR, 2)}))
    if not (isinstance(o, tt.Ret) and isinstance(o.val, tt.Fun) and len(o.val.params) == 1):
        raise tt.TB('register does not simply return a one-argument decorator')
    dec = o.val
    o2 = x.block(dec.body, tt.St(env=dict(dec.env, **{dec.params[0]: tt.Ext('wrapped-function')})))
    if not (isinstance(o2, tt.Ret) and isinstance(o2.val, tt.Ext) and o2.val.tag == 'wrapper'):
        raise tt.TB('the decorator of register does not return its wrapper function')
    wfn, wenv = o2.val.data
    x.locals = tt.assigned_locals(wfn)
    env = dict(wenv, **{wfn.args.vararg.arg: tt.Ext('forwarded-args'), wfn.args.kwarg.arg: tt.Ext('forwarded-kwargs')})
    o3 = x.block(wfn.body, tt.St(env=env, attrs={WORLD: tt.mk('w', 'W', 2)}))

    def leaf(l):
        if not (isinstance(l, tt.Ret) and isinstance(l.val, tt.T) and l.val.ty == 'R'):
            raise tt.TB('the wrapper of register does not return the result of the wrapped function')
        return '(%s, %s)' % (l.st.attrs[WORLD].s, l.val.s)
    body = tt.render2(o3, leaf)
    text += hdr(fn) + ('Definition gen_register_wrapper (W A R : Type) (fire : W -> string -> W) (run : W -> A -> W * R) (event : string) (w : W) (a : A) : W * R :=\n  %s.\n' % body)
    info['gen_register_wrapper'] = True
    return text


# ==============================================================================================================================
# tensor/manager.py:set_backend
SB_PARAMS = ('(W tobj oobj bcls ocls : Type) (lower : string -> string) (getb : string -> option bcls) (newb : bcls -> option string -> tobj)\n'
             '    (bname bprec : tobj -> string) (binst : tobj -> bcls -> bool) (geto : string -> option ocls) (newo : W -> ocls -> W * oobj)\n'
             '    (oname : oobj -> string) (oinst : oobj -> ocls -> bool) (oneq : oobj -> oobj -> bool)\n'
             '    (cur dflt : W -> tobj * oobj) (set_cur set_dflt : W -> tobj * oobj -> W) (fire : W -> string -> W) (setup : W -> tobj -> W)')
OBJ_ATTRS = {('tobj', 'name'): ('bname', STR), ('tobj', 'precision'): ('bprec', STR), ('oobj', 'name'): ('oname', STR)}


class XM(t4.Exec4):
    exc_names = EXC

    def global_name(self, name, st):
        if name in ('isinstance', 'bytes', 'str', 'getattr', 'BackendRetriever', 'OptimizerRetriever', 'exceptions', 'events', 'this', 'bool', 'type'):
            return tt.Ext(name)
        raise tt.TB('unknown name %s' % name)

    def is_obj(self, v):
        return isinstance(v, tt.T) and v.ty in ('tobj', 'oobj')

    def obj_attr(self, obj, attr, node, st):
        if (obj.ty, attr) in OBJ_ATTRS:
            f, ty = OBJ_ATTRS[(obj.ty, attr)]
            return tt.mk('(%s %s)' % (f, obj.s), ty, 2)
        if obj.ty == 'tobj' and attr == '_setup':
            return tt.Ext('value:setup', obj)
        raise tt.TB('attribute .%s of a %s (line %d)' % (attr, obj.ty, node.lineno))

    def str_method(self, base, name, args, kwargs, node, st):
        if name == 'lower' and not args and not kwargs:
            return tt.mk('(lower %s)' % base.s, STR, 2)
        raise tt.TB('method .%s of a text (line %d)' % (name, node.lineno))

    def expr(self, e, st):
        if isinstance(e, ast.Subscript) and ast.unparse(e.value) == 'this.state' and isinstance(e.slice, ast.Constant) and e.slice.value in ('current', 'default'):
            return tt.mk('(%s %s)' % ('cur' if e.slice.value == 'current' else 'dflt', self.world(st, e).s), tt.PROD('tobj', 'oobj'), 2)
        return super().expr(e, st)

    def attr_ext(self, base, attr, node, st):
        if isinstance(base, tt.Ext):
            if base.tag == 'events' and attr == 'trigger':
                return tt.Ext('events.trigger')
            if base.tag == 'OptimizerRetriever':
                return tt.Ext('value:cls', tt.T('(geto %s)' % tt.coq_string(attr), tt.OPTION('ocls')))
            if base.tag == 'BackendRetriever':
                return tt.Ext('value:cls', tt.T('(getb %s)' % tt.coq_string(attr), tt.OPTION('bcls')))
        return super().attr_ext(base, attr, node, st)

    def compare1(self, op, a, b, node):
        opn = type(op).__name__
        if opn in ('Eq', 'NotEq') and isinstance(a, tt.T) and isinstance(b, tt.T) and a.ty == b.ty == 'oobj':
            s = '(oneq %s %s)' % (a.s, b.s)
            return tt.T(s if opn == 'NotEq' else '(negb %s)' % s, BOOL)
        return super().compare1(op, a, b, node)

    def call_builtin(self, f, args, kwargs, e, st):
        if f.tag == 'isinstance' and len(args) == 2 and not kwargs:
            v, c = args
            if isinstance(c, tt.Ext) and c.tag in ('str', 'bytes'):
                if self.is_str(v):
                    return tt.S(c.tag == 'str')
                if isinstance(v, tt.T) and v.ty in ('tobj', 'oobj'):
                    return tt.S(False)
                raise tt.TB('isinstance(%r, %s) (line %d)' % (v, c.tag, e.lineno))
            if isinstance(v, tt.T) and isinstance(c, tt.T) and (v.ty, c.ty) in (('tobj', 'bcls'), ('oobj', 'ocls')):
                return tt.T('(%s %s %s)' % ('binst' if v.ty == 'tobj' else 'oinst', v.s, c.s), BOOL)
            raise tt.TB('isinstance(%r, %r) (line %d)' % (v, c, e.lineno))
        return super().call_builtin(f, args, kwargs, e, st)

    def call_ext(self, f, args, kwargs, node, st):
        tag = f.tag
        if tag == 'getattr' and len(args) == 2 and not kwargs and isinstance(args[0], tt.Ext) and args[0].tag in ('BackendRetriever', 'OptimizerRetriever') and self.is_str(args[1]):
            g, ty = ('getb', 'bcls') if args[0].tag == 'BackendRetriever' else ('geto', 'ocls')
            return tt.T('(%s %s)' % (g, self.strterm(args[1])), tt.OPTION(ty))
        if tag == 'value:cls':
            return self.call_value(f.data, args, kwargs, node, st)
        if tag == 'events.trigger' and len(args) == 1 and not kwargs and self.is_str(args[0]):
            return tt.Ext('value:triggered', args[0])
        raise tt.TB('call of %r (line %d)' % (f, node.lineno))

    def call_value(self, f, args, kwargs, node, st):
        if isinstance(f, tt.T) and f.ty == tt.OPTION('bcls') and not args and set(kwargs) <= {'precision'}:
            var = self.fresh_var('c')
            self.pending.append((f.s, var, 'TypeError'))           # None(**kwargs): 'NoneType' object is not callable
            kw = '(Some %s)' % self.strterm(kwargs['precision'], node) if kwargs else 'None'
            return tt.mk('(newb %s %s)' % (var, kw), 'tobj', 2)
        if isinstance(f, tt.T) and f.ty == tt.OPTION('ocls') and not args and not kwargs:
            var, var2 = self.fresh_var('c'), self.fresh_var('n')
            self.pending.append((f.s, var, 'TypeError'))
            self.pending.append(('(newo %s %s)' % (self.world(st, node).s, var), var2, None))
            self.set_world(st, '(fst %s)' % var2)
            return tt.mk('(snd %s)' % var2, 'oobj', 2)
        raise tt.TB('call of the value %r (line %d)' % (f, node.lineno))

    def effect_stmt(self, e, st):
        if isinstance(e, ast.Call) and (isinstance(e.func, ast.Call) or isinstance(e.func, ast.Attribute)):
            if isinstance(e.func, ast.Attribute) and not (isinstance(e.func.value, ast.Name) and e.func.value.id in st.env and self.is_obj(st.env[e.func.value.id])):
                return False
            f = self.expr(e.func, st)
            if isinstance(f, tt.Ext) and f.tag == 'value:triggered' and not e.args and not e.keywords:
                self.effect(st, '(fire %s %s)', self.strterm(f.data))
                return True
            if isinstance(f, tt.Ext) and f.tag == 'value:setup' and not e.args and not e.keywords:
                self.effect(st, '(setup %s %s)', f.data.s)
                return True
            raise tt.TB('call of %r as a statement (line %d)' % (f, e.lineno))
        return False

    def assign(self, target, val, st, node):
        if isinstance(target, ast.Subscript) and ast.unparse(target.value) == 'this.state' and isinstance(target.slice, ast.Constant) and target.slice.value in ('current', 'default'):
            v = self.as_term(val)
            if tt.coqty3(v.ty) != tt.coqty3(tt.PROD('tobj', 'oobj')):
                raise tt.TB('this.state[..] is assigned something else than a (backend, optimizer) pair (line %d)' % node.lineno)
            self.set_world(st, '(%s %s %s)' % ('set_cur' if target.slice.value == 'current' else 'set_dflt', self.world(st, node).s, v.s))
            return
        super().assign(target, val, st, node)


KINDS = [('str_str_str', dict(backend='str', custom_optimizer='str', precision='str'), '(backend : string) (custom_optimizer : string) (precision : string)'),
         ('str_obj_str', dict(backend='str', custom_optimizer='obj', precision='str'), '(backend : string) (custom_optimizer : oobj) (precision : string)'),
         ('str_none_none', dict(backend='str', custom_optimizer='none', precision='none'), '(backend : string)'),
         ('obj_obj_none', dict(backend='obj', custom_optimizer='obj', precision='none'), '(backend : tobj) (custom_optimizer : oobj)')]


def gen_manager(text, info):
    tree, path = facts.parse('tensor/manager.py')
    fn = facts.find_func(tree, 'set_backend')
    if params_of(fn) != (['backend', 'custom_optimizer', 'precision', 'default'], None, None) or [ast.unparse(d) for d in fn.args.defaults] != ['None', 'None', 'False']:
        raise tt.TB('set_backend: signature changed')
    decs = [ast.unparse(d) for d in fn.decorator_list]
    if len(decs) != 1 or not decs[0].startswith('events.register(') or not isinstance(fn.decorator_list[0].args[0], ast.Constant):
        raise tt.TB('set_backend is not decorated with events.register(<literal>) only')
    # `this` is the module itself, `this.state` its dict with the two slots
    glob = [ast.unparse(n) for n in tree.body if isinstance(n, (ast.Assign, ast.AnnAssign))]
    if 'this: HasState = sys.modules[__name__]' not in glob and 'this = sys.modules[__name__]' not in glob:
        raise tt.TB('manager.py: `this` is not the module object')
    # python `!=` on optimizer objects is identity: no __eq__ / __ne__ in the optimizer classes
    for rel in ('optimize/mixins.py', 'optimize/opt_scipy.py', 'optimize/opt_minuit.py'):
        t, _ = facts.parse(rel)
        for n in ast.walk(t):
            if isinstance(n, ast.FunctionDef) and n.name in ('__eq__', '__ne__', '__hash__'):
                raise tt.TB('%s defines %s: `!=` on optimizer objects is no longer identity' % (rel, n.name))
    text += '\n' + tt.source_comment('tensor/manager.py', fn, path)
    text += 'Definition gen_set_backend_event : string := %s.\n' % tt.coq_string(fn.decorator_list[0].args[0].value)
    for kname, kinds, sig in KINDS:
        x = XM({})
        x.locals = tt.assigned_locals(fn)
        env = {'default': tt.T('default', BOOL)}
        for p, k in kinds.items():
            env[p] = {'str': tt.mk(p, STR, 2), 'obj': tt.mk(p, 'tobj' if p == 'backend' else 'oobj', 0), 'none': tt.S(None)}[k]
        o = x.block(fn.body, tt.St(env=env, attrs={WORLD: tt.mk('w', 'W', 2)}))
        body, r = x.render_fn(o, None, lambda st: st.attrs[WORLD])
        text += 'Definition gen_set_backend_%s %s\n    %s (default : bool) (w : W) : result W :=\n  %s.\n' % (kname, SB_PARAMS, sig, body if r else '(Ok %s)' % body)
        info['gen_set_backend_' + kname] = True
    return text


def generate():
    info = {}
    text = GEN_HEADER + PRELUDE
    text = gen_events(text, info)
    text = gen_manager(text, info)
    return text, info


def extract(ctx):
    text, info = generate()
    core.write_if_changed(os.path.join(core.COQ, 'gen', GEN_NAME + '.v'), text)
    return dict(file='coq/gen/%s.v' % GEN_NAME, definitions=sorted(k for k in info if k.startswith('gen_')))
