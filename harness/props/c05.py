"""C05 - maximum-likelihood fits return a feasible, honest, optimal point.

Coq side: coq/FitWrap.v (mle.fit / fixed_poi_fit / shim / stitch / postprocess), coq/FitCert.v (KKT certificate),
coq/FitRate.v (own rate model of the restricted family + reduction to affine form), coq/Fit.v (collects them).
Everything numeric about a returned point is computed by Coq in exact rationals: in-bounds, fixed values
bit-exact, the wrapper model's returned vector, the certificate values eps / eps_witness."""
import copy
import json
import math
from fractions import Fraction

from harness import core, facts

# ----------------------------------------------------------------------------------------------
# optimiser tolerance budgets on twice_nll (= 2 f + const): the certificate value 2*eps bounds
# twice_nll(x*) - min twice_nll from above.  MIGRAD stops at EDM < 0.002*tol*errordef = 2e-4 (tol=0.1),
# SLSQP at ftol=1e-6; worst certified values over 2067 fits of a thorough run on the pinned tree: scipy 1.6e-6, minuit 5.2e-4.
BUDGET = {'scipy': 1e-4, 'minuit': 3e-3}
SPREAD = 5e-3            # cross-configuration spread of the attained twice_nll on one problem
FUN_RTOL = 1e-9          # reported fun vs twice_nll re-evaluated at the returned point (same backend)
BACKENDS = ['numpy', 'jax', 'pytorch', 'tensorflow']


# ----------------------------------------------------------------------------------------------
# tie to the source: coq/gen/FitGen.v is written from $VERIF_REPO/src on every run (harness/props/c05_tie.py)
def generate():
    from harness.props import c05_tie
    return c05_tie.generate()


def extract(ctx):
    from harness.props import c05_tie
    return c05_tie.extract(ctx)


# ----------------------------------------------------------------------------------------------
# generation of models of the restricted family
def gen_spec(rng, family='affine'):
    """channels x samples with multiplicative modifiers only (normfactor / shapefactor / shapesys / staterror).
    family 'affine': every sample carries at most one parameter per bin; 'product': some samples carry two.
    Well-posedness: every channel ends with a sample that has no unconstrained parameter, so every bin keeps a
    strictly positive expectation whatever the POI / free normalisations do."""
    nch = rng.choice([1, 1, 2, 3])
    chans = []
    shared_k = rng.random() < 0.5
    for ci in range(nch):
        nb = rng.choice([1, 2, 3, 4, 5])
        nsamp = 3 if family == 'product' else rng.choice([2, 2, 3])
        kinds = ['sig'] + [rng.choice(['shapesys', 'staterror', 'plain'] if family == 'product' else ['shapesys', 'staterror', 'normfactor', 'shapefactor', 'plain'])
                           for _ in range(nsamp - 2)]
        kinds.append(rng.choice(['shapesys', 'staterror', 'plain', 'shapesys']))
        if ci > 0 and rng.random() < 0.3:
            kinds[0] = rng.choice(['shapesys', 'normfactor'])      # a control region without signal
        samples = []
        used = set()
        for si, kind in enumerate(kinds):
            scale = rng.choice([1.0, 5.0, 30.0, 120.0])
            nom = [round(scale * rng.uniform(0.3, 2.0), rng.choice([0, 1, 2])) or 1.0 for _ in range(nb)]
            mods = []
            if kind in ('shapefactor', 'staterror') and kind in used and family == 'affine' and kind == 'shapefactor':
                kind = 'plain'
            used.add(kind)
            if kind == 'sig':
                mods.append({'name': 'mu', 'type': 'normfactor', 'data': None})
            elif kind == 'normfactor':
                mods.append({'name': 'k' if shared_k else 'k_%d' % ci, 'type': 'normfactor', 'data': None})
            elif kind == 'shapefactor':
                mods.append({'name': 'sf_%d' % ci, 'type': 'shapefactor', 'data': None})
            elif kind == 'shapesys':
                mods.append({'name': 'unc_%d_%d' % (ci, si), 'type': 'shapesys',
                             'data': [round(v * rng.uniform(0.03, 0.4), 3) or 0.5 for v in nom]})
            elif kind == 'staterror':
                mods.append({'name': 'stat_%d' % ci, 'type': 'staterror',
                             'data': [round(v * rng.uniform(0.02, 0.3), 3) or 0.25 for v in nom]})
            if family == 'product' and kind in ('shapesys', 'staterror', 'plain') and si < len(kinds) - 1 and (ci == 0 or rng.random() < 0.7):
                mods.append({'name': 'mu' if rng.random() < 0.3 else 'nf_%d_%d' % (ci, si), 'type': 'normfactor', 'data': None})
            samples.append({'name': 's%d_%d' % (ci, si), 'data': nom, 'modifiers': mods})
        chans.append({'name': 'ch%d' % ci, 'samples': samples})
    if not any(m['name'] == 'mu' for c in chans for s in c['samples'] for m in s['modifiers']):
        chans[0]['samples'][0]['modifiers'].append({'name': 'mu', 'type': 'normfactor', 'data': None})
    return {'channels': chans}


def counting_spec(rng):
    s = rng.choice([1.0, 2.5, 7.0, 12.0, 0.5])
    b = rng.choice([0.5, 3.0, 10.0, 55.5, 120.0])
    return {'channels': [{'name': 'ch0', 'samples': [
        {'name': 'sig', 'data': [s], 'modifiers': [{'name': 'mu', 'type': 'normfactor', 'data': None}]},
        {'name': 'bkg', 'data': [b], 'modifiers': []}]}]}, s, b


# ----------------------------------------------------------------------------------------------
# own model of the family (layout taken from the public config: parameter slices, channel order, auxdata order)
def compile_model(spec, pdf):
    """-> dict(bins=[[(nom, [par indices])...] per global bin], pois=[(tau, idx)], gaus=[(w, idx)], aux_kind=[...]).
    All numbers exact Fractions of the floats in the spec."""
    cfg = pdf.config
    chans = {c['name']: c for c in spec['channels']}
    bins = []
    pois, gaus = {}, {}
    for cname in cfg.channels:
        ch = chans[cname]
        nb = len(ch['samples'][0]['data'])
        stat = {}
        for s in ch['samples']:
            for m in s['modifiers']:
                if m['type'] == 'staterror':
                    st = stat.setdefault(m['name'], dict(nom=[Fraction(0)] * nb, d2=[Fraction(0)] * nb))
                    for b in range(nb):
                        st['nom'][b] += core.frac(s['data'][b])
                        st['d2'][b] += core.frac(m['data'][b]) ** 2
        for b in range(nb):
            cells = []
            for s in ch['samples']:
                idx = []
                for m in s['modifiers']:
                    sl = cfg.par_slice(m['name'])
                    if m['type'] == 'normfactor':
                        idx.append(sl.start)
                    elif m['type'] in ('shapefactor', 'shapesys', 'staterror'):
                        assert sl.stop - sl.start == nb
                        idx.append(sl.start + b)
                        if m['type'] == 'shapesys':
                            tau = (core.frac(s['data'][b]) / core.frac(m['data'][b])) ** 2
                            pois[sl.start + b] = tau
                    else:
                        raise ValueError('modifier outside the family: ' + m['type'])
                cells.append((core.frac(s['data'][b]), idx))
            bins.append(cells)
        for name, st in stat.items():
            sl = cfg.par_slice(name)
            for b in range(nb):
                gaus[sl.start + b] = st['nom'][b] ** 2 / st['d2'][b]      # 1/sigma^2, sigma = sqrt(sum d^2)/sum nom
    # auxiliary data layout
    aux = []
    for name in cfg.auxdata_order:
        sl = cfg.par_slice(name)
        for i in range(sl.start, sl.stop):
            aux.append(('pois', i) if i in pois else ('gaus', i))
    assert len(aux) == len(cfg.auxdata), 'auxdata layout'
    return dict(bins=bins, pois=pois, gaus=gaus, aux=aux, npars=cfg.npars, nmain=len(bins))


def nominal_aux(cm):
    return [float(cm['pois'][i]) if k == 'pois' else 1.0 for k, i in cm['aux']]


def rate_float(cm, x):
    out = []
    for cells in cm['bins']:
        r = 0.0
        for nom, idx in cells:
            t = float(nom)
            for i in idx:
                t *= x[i]
            r += t
        out.append(r)
    return out


def gen_data(rng, cm, truth):
    lam = rate_float(cm, truth)
    mode = rng.choice(['poisson', 'asimov', 'noninteger', 'zeros'])
    main = []
    for v in lam:
        if mode == 'asimov':
            main.append(v)
        elif mode == 'noninteger':
            main.append(round(max(0.0, rng.gauss(v, math.sqrt(v))), 2))
        else:
            n = _poisson(rng, v)
            if mode == 'zeros' and rng.random() < 0.4:
                n = 0
            main.append(float(n))
    aux = []
    for kind, i in cm['aux']:
        if kind == 'pois':
            tau = float(cm['pois'][i])
            aux.append(tau if rng.random() < 0.5 else round(max(0.0, rng.gauss(tau, math.sqrt(tau))), 3))
        else:
            aux.append(1.0 if rng.random() < 0.5 else round(rng.gauss(1.0, 1.0 / math.sqrt(float(cm['gaus'][i]))), 4))
    return main + aux, mode


def _poisson(rng, lam):
    if lam > 50:
        return max(0, int(round(rng.gauss(lam, math.sqrt(lam)))))
    L, k, p = math.exp(-lam), 0, 1.0
    while True:
        p *= rng.random()
        if p <= L:
            return k
        k += 1


# ----------------------------------------------------------------------------------------------
# untrusted polisher: proposes a feasible witness point close to the true optimum of the affine problem
# (own float implementation of f and its derivatives; the result only enters through eps_witness, computed in Coq)
def affine_float(cm, mask, x, data):
    """float mirror of FitRate.affine_terms: (nP, cP, AP, wG, aG, AG) or None when some sample keeps two free factors"""
    import numpy as np
    m = cm['npars']
    nP, cP, AP, wG, aG, AG = [], [], [], [], [], []
    for b, cells in enumerate(cm['bins']):
        c, a = 0.0, [0.0] * m
        for nom, idx in cells:
            k, fr = float(nom), []
            for i in idx:
                if mask[i]:
                    k *= x[i]
                else:
                    fr.append(i)
            if not fr:
                c += k
            elif len(fr) == 1:
                a[fr[0]] += k
            else:
                return None
        nP.append(data[b]); cP.append(c); AP.append(a)
    for j, (kind, i) in enumerate(cm['aux']):
        a = [0.0] * m
        if kind == 'pois':
            a[i] = float(cm['pois'][i])
            nP.append(data[cm['nmain'] + j]); cP.append(0.0); AP.append(a)
        else:
            a[i] = 1.0
            wG.append(float(cm['gaus'][i])); aG.append(data[cm['nmain'] + j]); AG.append(a)
    return (np.array(nP), np.array(cP), np.array(AP).reshape(len(nP), m), np.array(wG), np.array(aG), np.array(AG).reshape(len(wG), m))


def polish(aff, x0, lo, hi):
    import numpy as np
    import scipy.optimize
    nP, cP, AP, wG, aG, AG = aff
    lo, hi = np.array(lo, float), np.array(hi, float)

    def f(x):
        lam = cP + AP @ x
        if (lam <= 0).any():
            return np.inf
        with np.errstate(all='ignore'):
            v = np.sum(lam - np.where(nP > 0, nP * np.log(lam), 0.0))
        return v + np.sum(0.5 * wG * (AG @ x - aG) ** 2)

    def g(x):
        lam = cP + AP @ x
        return AP.T @ (1 - nP / lam) + AG.T @ (wG * (AG @ x - aG))

    def hess(x):
        lam = cP + AP @ x
        return AP.T @ ((nP / lam ** 2)[:, None] * AP) + AG.T @ (wG[:, None] * AG)

    def epsf(x):
        gr = g(x)
        return float(np.sum(np.where(gr > 0, gr * (x - lo), -gr * (hi - x))))

    x = np.clip(np.array(x0, float), lo, hi)
    best = (epsf(x), x)
    free0 = lo < hi
    if free0.any():
        try:
            big = lambda z: f(z) if np.isfinite(f(z)) else 1e300                # noqa: E731
            r = scipy.optimize.minimize(big, x, jac=lambda z: g(z) if np.isfinite(f(z)) else np.zeros_like(z), method='L-BFGS-B',
                                        bounds=list(zip(lo, hi)), options=dict(ftol=1e-16, gtol=1e-13, maxiter=500, maxcor=30))
            if np.isfinite(f(r.x)) and f(r.x) <= f(x):
                x = np.clip(r.x, lo, hi)
                best = min(best, (epsf(x), x), key=lambda t: t[0])
        except Exception:
            pass
    fx = f(x)
    for _ in range(40):
        gr, H = g(x), hess(x)
        tol = 1e-9 * np.maximum(1.0, np.abs(x))
        act = ((x - lo <= tol) & (gr > 0)) | ((hi - x <= tol) & (gr < 0)) | (lo == hi)
        xs = np.where(act & (x - lo <= tol), lo, np.where(act & (hi - x <= tol), hi, x))
        if np.isfinite(f(xs)):
            x = xs
            gr, H = g(x), hess(x)
        fr = ~act
        if not fr.any():
            break
        Hf = H[np.ix_(fr, fr)]
        try:
            step = np.linalg.lstsq(Hf + 1e-13 * max(1.0, float(np.trace(Hf))) * np.eye(int(fr.sum())), -gr[fr], rcond=None)[0]
        except Exception:
            break
        t, moved = 1.0, False
        while t > 1e-8:
            xn = x.copy()
            xn[fr] = np.clip(x[fr] + t * step, lo[fr], hi[fr])
            fn = f(xn)
            if fn <= fx + 1e-13 * abs(fx) and np.any(xn != x):
                moved = True
                break
            t /= 2
        if not moved:
            break
        x, fx = xn, fn
        e = epsf(x)
        if e < best[0]:
            best = (e, x)
    best = min(best, (epsf(x), x), key=lambda t: t[0])
    return [float(v) for v in best[1]]


# ----------------------------------------------------------------------------------------------
# Coq expressions
HEADER = '''From Coq Require Import ZArith QArith Qcanon Bool List.
Require Import PV.Num PV.Run PV.Fit.
Import ListNotations.
Definition mkcell (nom : Qc) (idx : list nat) : cell QcNum := @Build_cell QcNum nom [] idx.
Definition mkmodel (bins : list (Qc * list (cell QcNum))) (pois gaus : list (Qc * Qc * nat)) : model QcNum := @Build_model QcNum bins pois gaus.
'''


def coq_model(cm, data):
    bins = core.clist(range(cm['nmain']), lambda b: '(%s, %s)' % (core.q(data[b]), core.clist(
        cm['bins'][b], lambda c: '(mkcell %s %s)' % (core.q(c[0]), core.clist(c[1], lambda i: '%d%%nat' % i)))))
    pois = core.clist([(j, i) for j, (k, i) in enumerate(cm['aux']) if k == 'pois'],
                      lambda t: '(%s, %s, %d%%nat)' % (core.q(data[cm['nmain'] + t[0]]), core.q(cm['pois'][t[1]]), t[1]))
    gaus = core.clist([(j, i) for j, (k, i) in enumerate(cm['aux']) if k == 'gaus'],
                      lambda t: '(%s, %s, %d%%nat)' % (core.q(cm['gaus'][t[1]]), core.q(data[cm['nmain'] + t[0]]), t[1]))
    return '(mkmodel %s %s %s)' % (bins, pois, gaus)


def coq_bounds(bounds):
    return core.clist(bounds, lambda b: '(%s, %s)' % (core.q(b[0]), core.q(b[1])))


def coq_mask(mask):
    return core.clist(mask, core.cbool)


def coq_poi(prob):
    return '(Some (%d%%nat, %s))' % (prob['poi_index'], core.q(prob['poi_val'])) if prob['kind'] == 'fixed_poi' else 'None'


def expr_fit(prob, rec):
    unc = 'None' if rec.get('raw_unc') is None else '(Some %s)' % core.qlist(rec['raw_unc'])
    return '(out_fit (run_fit %s %d%%nat %s %s %s %s %s %s %s), out_kwargs (shim_kwargs %s %d%%nat %s %s %s %s))' % (
        coq_poi(prob), prob['npars'], core.qlist(prob['init']), coq_bounds(prob['bounds']), coq_mask(prob['mask']),
        core.cbool(rec['do_stitch']), core.qlist(rec['raw_x']), core.q(rec['raw_fun']), unc,
        coq_poi(prob), prob['npars'], core.qlist(prob['init']), coq_bounds(prob['bounds']), coq_mask(prob['mask']), core.cbool(rec['do_stitch']))


def expr_validate(prob):
    return 'out_fit (run_fit %s %d%%nat %s %s %s false [] 0%%Qc None)' % (
        coq_poi(prob), prob['npars'], core.qlist(prob['init']), coq_bounds(prob['bounds']), coq_mask(prob['mask']))


def eff_mask(prob):
    m = list(prob['mask'])
    if prob['kind'] == 'fixed_poi':
        m[prob['poi_index']] = True
    return m


def ref_vector(prob):
    r = list(prob['init'])
    if prob['kind'] == 'fixed_poi':
        r[prob['poi_index']] = prob['poi_val']
    return r


def expr_problem_cert(prob, w):
    wq = core.qlist(w) if not isinstance(w, str) else w
    return 'problem_cert %s %s %s %s %s' % (coq_model(prob['cm'], prob['data']), coq_mask(eff_mask(prob)), coq_bounds(prob['bounds']),
                                            core.qlist(ref_vector(prob)), wq)


def expr_fit_cert(prob, x, w):
    wq = core.qlist(w) if not isinstance(w, str) else w
    return 'fit_cert %s %s %s %s %s %s' % (coq_model(prob['cm'], prob['data']), coq_mask(eff_mask(prob)), coq_bounds(prob['bounds']),
                                           core.qlist(ref_vector(prob)), core.qlist(x), wq)


# ----------------------------------------------------------------------------------------------
# running pyhf
_REC = []


def _install_recorder():
    import importlib
    mx = importlib.import_module('pyhf.optimize.mixins')
    if getattr(mx.OptimizerMixin, '_verif_wrapped', False):
        return
    orig = mx.OptimizerMixin._internal_minimize

    def recording(self, func, x0, do_grad=False, bounds=None, fixed_vals=None, options={}, par_names=None):
        rec = dict(x0=[float(v) for v in x0], kbounds=[[float(b[0]), float(b[1])] for b in (bounds or [])],
                   kfixed=[[int(i), float(v)] for i, v in (fixed_vals or [])])
        _REC.append(rec)
        result = orig(self, func, x0, do_grad=do_grad, bounds=bounds, fixed_vals=fixed_vals, options=options, par_names=par_names)
        rec['raw_x'] = [float(v) for v in result.x]
        rec['raw_fun'] = float(result.fun)
        unc = getattr(result, 'unc', None)
        rec['raw_unc'] = None if unc is None else [float(v) for v in unc]
        return result
    mx.OptimizerMixin._internal_minimize = recording
    mx.OptimizerMixin._verif_wrapped = True


_MODELS = {}


def run_impl(prob, cfg):
    """run one fit; returns a record (never raises)"""
    import logging
    import numpy as np
    import pyhf
    logging.getLogger('pyhf').setLevel(logging.CRITICAL)
    _install_recorder()
    be, optn, dg, ds = cfg
    pyhf.set_backend(be, optn, precision='64b')
    pdf = pyhf.Model(copy.deepcopy(prob['spec']), poi_name='mu')
    tl = pyhf.tensorlib
    rec = dict(backend=be, optimizer=optn, do_grad=dg, do_stitch=ds)
    del _REC[:]
    init, bounds, mask = list(prob['init']), [tuple(b) for b in prob['bounds']], list(prob['mask'])
    try:
        with np.errstate(all='ignore'):
            if prob['kind'] == 'fixed_poi':
                x, fun = pyhf.infer.mle.fixed_poi_fit(prob['poi_val'], list(prob['data']), pdf, init, bounds, mask,
                                                      return_fitted_val=True, do_grad=dg, do_stitch=ds)
            else:
                x, fun = pyhf.infer.mle.fit(list(prob['data']), pdf, init, bounds, mask, return_fitted_val=True, do_grad=dg, do_stitch=ds)
            rec['x'] = [float(v) for v in tl.tolist(x)]
            rec['fun'] = float(tl.tolist(fun)) if not isinstance(tl.tolist(fun), list) else float(tl.tolist(fun)[0])
            re = pyhf.infer.mle.twice_nll(tl.astensor(rec['x']), tl.astensor(list(prob['data'])), pdf)
            rec['refun'] = float(tl.tolist(re)[0])
        rec['status'] = 'ok'
        if _REC:
            rec.update(_REC[-1])
        rec['inputs_mutated'] = (init != list(prob['init'])) or (mask != list(prob['mask']))
    except Exception as e:
        rec['status'] = core.exc_enum(e)
        rec['msg'] = str(e)[:160]
    return rec


def configs_for(ctx, k, kind='affine'):
    """numpy always; other backends rotate in quick, all in thorough.  scipy without gradients on torch/tensorflow is skipped
    (scipy's finite differences choke on their tensors: the fit never reports success)."""
    out = []
    for optn in ('scipy', 'minuit'):
        for ds in (False, True):
            out.append(('numpy', optn, False, ds))
    others = BACKENDS[1:] if not ctx.quick else ([BACKENDS[1 + (k // 2) % 3]] if k % 2 == 0 else [])
    for be in others:
        combos = [(o, dg, ds) for o in ('scipy', 'minuit') for dg in (False, True) for ds in (False, True)
                  if not (o == 'scipy' and not dg and be in ('pytorch', 'tensorflow'))]
        r = ctx.rng
        if ctx.quick:
            combos = r.sample(combos, 2 if be != 'tensorflow' else 1)
        elif k % 8:                    # thorough: every eighth problem runs every combination, the others a sample of each backend
            combos = r.sample(combos, 3 if be != 'tensorflow' else 1)
        out += [(be,) + c for c in combos]
    return out


# ----------------------------------------------------------------------------------------------
def make_problem(rng, family, idx, small=False):
    import pyhf
    pyhf.set_backend('numpy')
    for _ in range(200):
        spec = gen_spec(rng, family)
        pdf = pyhf.Model(copy.deepcopy(spec), poi_name='mu')
        cm = compile_model(spec, pdf)
        n = cm['npars']
        if small and (n > 12 or cm['nmain'] > 8):      # exact rational certificates grow cubically with the model
            continue
        sb = pdf.config.suggested_bounds()
        bounds = []
        for lo, hi in sb:
            if rng.random() < 0.3:
                lo2 = lo if lo > 0 else rng.choice([0.0, 0.0, 0.05, 0.3])
                hi2 = rng.choice([2.5, 4.0, 7.5, 10.0, 3.3])
                bounds.append([float(lo2), float(hi2)])
            else:
                bounds.append([float(lo), float(hi)])
        truth = [rng.uniform(0.6, 1.5) for _ in range(n)]
        data, mode = gen_data(rng, cm, truth)
        init = [rng.choice([1.0, 1.0, round(rng.uniform(0.5, 1.7), rng.choice([1, 3, 15]))]) for _ in range(n)]
        init = [min(max(v, b[0]), b[1]) for v, b in zip(init, bounds)]
        mask = [rng.random() < 0.2 for _ in range(n)]
        kind = 'fixed_poi' if rng.random() < 0.45 else 'fit'
        poi = pdf.config.poi_index
        poi_val = rng.choice([0.0, 1.0, 0.1, 0.5, 1.3, round(rng.uniform(0.0, 2.0), rng.choice([2, 15]))])
        em = list(mask)
        if kind == 'fixed_poi':
            em[poi] = True
        if all(em):
            free = [i for i in range(n) if i != poi] or [poi]
            if free == [poi] and kind == 'fixed_poi':
                kind = 'fit'
            mask[rng.choice(free)] = False
        prob = dict(id='%s%d' % (family[0], idx), family=family, spec=spec, cm=cm, npars=n, data=data, data_mode=mode, init=init, bounds=bounds,
                    mask=mask, kind=kind, poi_index=poi, poi_val=float(poi_val), par_names=list(pdf.config.par_names))
        if kind == 'fixed_poi' and not (bounds[poi][0] <= poi_val <= bounds[poi][1]):
            continue
        return prob
    raise RuntimeError('could not generate a problem')


def counting_problem(rng, idx):
    import pyhf
    pyhf.set_backend('numpy')
    spec, s, b = counting_spec(rng)
    pdf = pyhf.Model(copy.deepcopy(spec), poi_name='mu')
    cm = compile_model(spec, pdf)
    lam = s * rng.uniform(0.0, 3.0) + b
    n = rng.choice([float(_poisson(rng, lam)), round(lam, 2), 0.0, float(int(b)), float(int(b + 12 * s))])
    lo = rng.choice([0.0, 0.0, 0.5, 1.0])
    hi = rng.choice([10.0, 10.0, 2.0, 5.0])
    init = [min(max(rng.choice([1.0, 0.7, 2.2]), lo), hi)]
    return dict(id='c%d' % idx, family='counting', spec=spec, cm=cm, npars=1, data=[n], data_mode='counting', init=init, bounds=[[lo, hi]],
                mask=[False], kind='fit', poi_index=0, poi_val=0.0, par_names=['mu'], counting=(s, b, n, lo, hi))


def pub(prob):
    """json-able view of a problem (without the compiled model)"""
    return {k: v for k, v in prob.items() if k != 'cm' and not k.startswith('_')}


# ----------------------------------------------------------------------------------------------
def conv(v):
    """printed Coq value -> python: (n, d) -> Fraction, nested lists/tuples kept, true/false -> bool"""
    if isinstance(v, list):
        return [conv(x) for x in v]
    if isinstance(v, tuple):
        if len(v) == 2 and all(isinstance(x, int) for x in v):
            return Fraction(v[0], v[1])
        return tuple(conv(x) for x in v)
    if v == 'true':
        return True
    if v == 'false':
        return False
    return v


def parse(res):
    return conv(core.parse_qc(res.replace('%Z', '').replace('%positive', '').replace('%nat', '')))


def f32(v):
    import numpy as np
    return float(np.float32(v))


def witness_for(prob, xstart):
    """untrusted proposal of a near-optimal feasible point of the affine problem (None if not affine)"""
    em = eff_mask(prob)
    ref = ref_vector(prob)
    x = [ref[i] if em[i] else xstart[i] for i in range(prob['npars'])]
    aff = affine_float(prob['cm'], em, x, prob['data'])
    if aff is None:
        return None
    lo = [x[i] if em[i] else prob['bounds'][i][0] for i in range(prob['npars'])]
    hi = [x[i] if em[i] else prob['bounds'][i][1] for i in range(prob['npars'])]
    try:
        import numpy as np
        with np.errstate(all='ignore'):
            w = polish(aff, x, lo, hi)
    except Exception:
        return list(x)
    return [x[i] if em[i] else min(max(w[i], lo[i]), hi[i]) for i in range(prob['npars'])]


def replay_body(prob, rec, **kw):
    d = dict(kind='fit', problem=pub(prob), config=[rec['backend'], rec['optimizer'], rec['do_grad'], rec['do_stitch']],
             impl={k: rec.get(k) for k in ('status', 'x', 'fun', 'refun', 'raw_x', 'raw_fun', 'x0', 'kbounds', 'kfixed', 'msg')})
    d.update(kw)
    return d


def load_corpus():
    import glob
    import os
    out = []
    for fn in sorted(glob.glob(os.path.join(core.VERIF, 'corpus', 'C05', '*.json'))):
        out.append(json.load(open(fn)))
    return out


def run(ctx):
    import pyhf
    rng = ctx.rng
    tie = None
    try:
        ctx.coverage['translated_from_source'] = extract(ctx)
    except facts.TieBroken as e:
        tie = ('translation of pyhf/optimize/{common,mixins,opt_*}.py and infer/mle.py to Gallina failed (harness/props/c05_tie.py): %s' % e)
    if tie is None:
        ok, txt = core.prove(ctx)
        if not ok:
            why = ('the functions translated from the source no longer coincide with the hand model (coq/TieFit.v, C05_source_is_model_*): '
                   if ('TieFit' in txt or 'source_is_model' in txt or 'FitGen' in txt) else 'proof obligations of props/C05.v no longer check: ')
            tie = why + txt[-1200:]
    rc_model, mout, _ = core.coq_make(['Fit.vo'])          # the hand model is run for the correspondence even when a tie theorem no longer checks
    if rc_model != 0:
        tie = tie or ('coq/Fit.v does not build: ' + mout[-800:])
    ctx.trusted += ['harness/props/c05_tie.py + harness/props/tie_translate.py (python ast -> Gallina for _make_stitch_pars, shim, the objective wrappers, '
                    'OptimizerMixin.minimize with _internal_minimize / _internal_postprocess inlined, mle.fit with _validate_fit_inputs inlined, mle.fixed_poi_fit; '
                    'fail closed): C05_source_is_model_* prove the translated definitions equal to the hand model; the reading of the external names '
                    '(_TensorViewer, tensorlib.gather/zeros, the optimiser, minuit.fixed) is stated in the header of coq/gen/FitGen.v']
    ctx.trusted += ['SLSQP (scipy) and MIGRAD (iminuit) are modelled by their reported outputs (x, fun, success); '
                    'theorem premises: the optimiser returns a vector of the dimension of x0 (stitched path), holds the fixed values it is handed '
                    '(unstitched path), reports func at its own x',
                    'harness/props/c05.py: compile_model (own rate model of the normfactor/shapefactor/shapesys/staterror family; parameter and '
                    'auxdata layout read from the public ModelConfig), polish (untrusted witness proposer)',
                    'the certificate is evaluated in Qc by the generic-Num text whose R instance the theorems are about; the transfer Qc -> R '
                    'is proved (C05_checked_certificate); the final addition gapbound + eps of two Coq-computed rationals is done by the harness']
    ctx.assumptions += ['well-posed models only: every Poisson rate positive on the box (checked exactly at the returned point and at the witness)',
                        'non-convex models (a sample keeping two free factors): no certificate; feasibility, honesty, cross-configuration agreement only']
    found = False
    # ---- problems ----
    problems = []
    for body in load_corpus():
        p = body['problem']
        pyhf.set_backend('numpy')
        p['cm'] = compile_model(p['spec'], pyhf.Model(copy.deepcopy(p['spec']), poi_name='mu'))
        p['_corpus_cfg'] = [tuple(body['config'])]
        p['_corpus'] = True
        problems.append(p)
    na, npr, nc = ctx.n(36, 60), ctx.n(8, 12), ctx.n(8, 12)
    problems += [make_problem(rng, 'affine', i, small=ctx.quick or i % 8 != 0) for i in range(na)]
    problems += [make_problem(rng, 'product', i, small=True) for i in range(npr)]
    problems += [counting_problem(rng, i) for i in range(nc)]
    # the float32 sweep: a fixed-POI fit at values that are not float32 numbers on every backend
    for i, be in enumerate(BACKENDS):
        p = make_problem(rng, 'affine', 1000 + i, small=True)
        while p['npars'] < 3:
            p = make_problem(rng, 'affine', 1000 + i, small=True)
        p['kind'], p['poi_val'] = 'fixed_poi', 0.1
        p['bounds'][p['poi_index']] = [0.0, 10.0]
        j = next((k for k in range(p['npars']) if k != p['poi_index']), None)
        if j is not None and p['npars'] > 2:
            p['mask'][j] = True
            p['init'][j] = min(max(1.3, p['bounds'][j][0]), p['bounds'][j][1])
        em = eff_mask(p)
        if all(em):                                  # keep the problem well-posed: something must be left to fit
            for q_ in range(p['npars']):
                if q_ != p['poi_index'] and q_ != j:
                    p['mask'][q_] = False
                    break
            else:
                p['mask'][j] = False
        p['_corpus_cfg'] = [(be, 'minuit', False, True), (be, 'scipy', be != 'numpy', True)] + ([('numpy', 'scipy', False, False)] if be != 'numpy' else [])
        problems.append(p)
    for i in range(ctx.n(4, 10)):          # starting points outside the bounds must be refused before any optimiser runs
        p = make_problem(rng, 'affine', 2000 + i, small=True)
        j = rng.choice([q_ for q_ in range(p['npars']) if not (p['kind'] == 'fixed_poi' and q_ == p['poi_index'])] or [0])
        if p['kind'] == 'fixed_poi' and rng.random() < 0.5:
            p['poi_val'] = p['bounds'][p['poi_index']][1] + 0.5
        else:
            p['init'][j] = p['bounds'][j][1] + rng.choice([0.25, 1e-9]) if rng.random() < 0.5 else p['bounds'][j][0] - 0.125
        p['_corpus_cfg'] = [('numpy', rng.choice(['scipy', 'minuit']), False, rng.random() < 0.5)]
        p['expect_error'] = True
        problems.append(p)
    ctx.log('generated %d problems' % len(problems))

    # ---- run the implementation ----
    runs = []          # (problem index, record)
    skipped = {}
    for k, prob in enumerate(problems):
        cfgs = prob.get('_corpus_cfg') or configs_for(ctx, k)
        # configurations are grouped by backend to avoid needless backend switches
        for cfg in sorted(cfgs, key=lambda c: BACKENDS.index(c[0])):
            rec = run_impl(prob, cfg)
            runs.append((k, rec))
            if rec['status'] != 'ok':
                skipped[rec['status']] = skipped.get(rec['status'], 0) + 1
    ctx.log('ran %d fits (%d successful)' % (len(runs), sum(1 for _, r in runs if r['status'] == 'ok')))

    # ---- model inside Coq ----
    exprs, owner = [], []
    by_prob = {}
    for ri, (k, rec) in enumerate(runs):
        if rec['status'] == 'ok' and 'raw_x' in rec and all(math.isfinite(v) for v in rec['x'] + [rec['fun']]):
            by_prob.setdefault(k, []).append(ri)
    witness = {}
    for k, ris in by_prob.items():
        prob = problems[k]
        if prob['family'] == 'counting':
            s_, b_, n_, lo_, hi_ = prob['counting']
            witness[k] = '[qclip %s %s ((%s - %s) / %s)%%Qc]' % (core.q(lo_), core.q(hi_), core.q(n_), core.q(b_), core.q(s_))
        else:
            best = min(ris, key=lambda ri: runs[ri][1]['fun'])
            w = witness_for(prob, runs[best][1]['x'])
            witness[k] = w if w is not None else ref_vector(prob)
        exprs.append(expr_problem_cert(prob, witness[k])); owner.append((k, 'prob'))
    for ri, (k, rec) in enumerate(runs):
        prob = problems[k]
        if k in by_prob and ri in by_prob[k]:
            exprs.append(expr_fit(prob, rec)); owner.append((ri, 'fit'))
            exprs.append(expr_fit_cert(prob, rec['x'], witness[k])); owner.append((ri, 'cert'))
            rec['witness'] = witness[k]
        elif rec['status'] == 'PyValueError' and rec.get('msg', '').startswith('fit initialization parameter'):
            exprs.append(expr_validate(prob)); owner.append((ri, 'val'))
    results = {}
    try:
        nsh = core.NCPU
        order = sorted(range(len(exprs)), key=lambda i: -len(exprs[i]))
        per = (len(exprs) + nsh - 1) // nsh
        buckets = [order[j::nsh] for j in range(nsh)]          # deal by decreasing size: balanced shards
        flat = [i for b in buckets for i in (b + [None] * (per - len(b)))]
        res = core.coq_eval(ctx, 'fits', HEADER, [exprs[i] if i is not None else 'tt' for i in flat], shard=per, timeout=1500)
        for i, r in zip(flat, res):
            if i is not None:
                results[owner[i]] = parse(r)
    except core.CoqEvalError as e:
        tie = tie or ('model evaluation failed: %s' % str(e)[-800:])
    ctx.log('evaluated %d Coq expressions' % len(exprs))

    # ---- decide ----
    stats = dict(fits=len(runs), ok=0, certified=0, nonconvex=0, not_wellposed=0, witness_infeasible=0, by_backend={}, by_optimizer={}, by_kind={}, data_modes={},
                 skipped=skipped, misses={}, eligible={'scipy': 0, 'minuit': 0}, max_cert={'scipy': 0.0, 'minuit': 0.0}, validation_errors=0)
    misses = {'scipy': [], 'minuit': []}
    disagree = []
    distinct = set()
    groups = {}
    for ri, (k, rec) in enumerate(runs):
        prob = problems[k]
        be, optn = rec['backend'], rec['optimizer']
        if rec['status'] == 'PyValueError' and rec.get('msg', '').startswith('fit initialization parameter'):
            stats['validation_errors'] += 1
            mo = results.get((ri, 'val'))
            if mo is not None:
                import re as _re
                m_ = _re.search(r'index: (\d+)', rec.get('msg', ''))
                if mo[0] != 1 or m_ is None or int(m_.group(1)) != mo[1]:
                    disagree.append((ri, 'impl raised ValueError (%s), model gives code %r index %r' % (rec.get('msg', '')[:60], mo[0], mo[1])))
            continue
        if rec['status'] != 'ok':
            if prob['family'] == 'counting' and not (rec['status'] == 'PyAttributeError' and optn == 'scipy' and not rec['do_grad']):
                ctx.violation('closed-form-fit-failed:%s' % optn, 'fit of a one-bin counting model did not succeed (%s: %s)' % (rec['status'], rec.get('msg')),
                              replay_body(prob, rec, expected='success at clip((n-b)/s)', theorem='C05_closed_form_counting'))
                found = True
            continue
        stats['ok'] += 1
        for key, val in (('by_backend', be), ('by_optimizer', optn), ('by_kind', prob['kind']), ('data_modes', prob['data_mode'])):
            stats[key][val] = stats[key].get(val, 0) + 1
        em = eff_mask(prob)
        x = rec['x']
        if 'nonfinite' in rec or not all(math.isfinite(v) for v in x + [rec['fun']]):
            ctx.violation('nonfinite-result:%s:%s' % (be, optn), 'successful fit returned a non-finite value', replay_body(prob, rec))
            found = True
            continue
        # (1) fixed parameters exact -- the property itself, bitwise
        want = {i: (prob['poi_val'] if (prob['kind'] == 'fixed_poi' and i == prob['poi_index']) else prob['init'][i]) for i in range(prob['npars']) if em[i]}
        badfix = [(i, want[i], x[i]) for i in want if core.frac(x[i]) != core.frac(want[i])]
        if len(x) != prob['npars']:
            ctx.violation('wrong-dimension:%s:%s' % (be, optn), 'returned %d parameters for a model of %d' % (len(x), prob['npars']), replay_body(prob, rec))
            found = True
            continue
        if badfix:
            is32 = be == 'tensorflow' and all(xi == f32(w) for _, w, xi in badfix)
            sig = 'tf-astensor-float32' if is32 else 'fixed-not-exact:%s:%s:stitch%d' % (be, optn, rec['do_stitch'])
            ctx.violation(sig, 'fixed parameter(s) not returned at the supplied value: %s' % ', '.join(
                '%s supplied %r returned %r' % (prob['par_names'][i], w, xi) for i, w, xi in badfix[:3]),
                replay_body(prob, rec, expected={prob['par_names'][i]: w for i, w, _ in badfix}, theorem='C05_stitched_fixed_exact / C05_fixed_poi_stitched_exact'))
            found = True
        # (2) wrapper model (Coq) vs implementation: the returned vector, the arguments handed to the optimiser
        mo = results.get((ri, 'fit'))
        if mo is not None:
            code, _, mx, _munc, (kx0, klo, khi, kf) = mo
            kb = list(zip(klo, khi))
            if code != 0 or mx != [core.frac(v) for v in x]:
                if not badfix:
                    is32 = be == 'tensorflow' and code == 0 and len(mx) == len(x) and all(xi == f32(float(m)) or core.frac(xi) == m for m, xi in zip(mx, x))
                    if is32:
                        ctx.violation('tf-astensor-float32', 'returned parameters are the float32 roundings of the optimiser\'s values',
                                      replay_body(prob, rec, model_x=[float(m) for m in mx]))
                        found = True
                    else:
                        disagree.append((ri, 'returned vector differs from stitch(fixed, optimiser x): model %r impl %r' % ([float(m) for m in mx][:6], x[:6])))
            elif kx0 != [core.frac(v) for v in rec['x0']] or [list(b) for b in kb] != [[core.frac(b[0]), core.frac(b[1])] for b in rec['kbounds']] \
                    or [[i, v] for i, v in kf] != [[i, core.frac(v)] for i, v in rec['kfixed']]:
                if not (be == 'tensorflow' and all(a == f32(float(m)) or core.frac(a) == m for m, a in zip(kx0, rec['x0']))):
                    disagree.append((ri, 'arguments handed to the optimiser differ from shim model: x0 %r vs %r; fixed %r vs %r' % (
                        [float(v) for v in kx0][:5], rec['x0'][:5], [[i, float(v)] for i, v in kf][:4], rec['kfixed'][:4])))
        # (3) reported objective = twice_nll at the returned point
        if not core.close(core.frac(rec['refun']), rec['fun'], rtol=FUN_RTOL, atol=1e-9):
            is32 = be == 'tensorflow' and rec['fun'] == f32(rec['fun'])
            ctx.violation('tf-astensor-float32' if is32 else 'fun-not-honest:%s:%s' % (be, optn),
                          'reported objective %r but twice_nll at the returned point is %r' % (rec['fun'], rec['refun']),
                          replay_body(prob, rec, expected=rec['refun'], theorem='C05_fun_honest'))
            found = True
        # (4) feasibility and the certificate, exact
        ver, pver = results.get((ri, 'cert')), results.get((k, 'prob'))
        if ver is not None and pver is not None:
            inbox, pos, gap = ver
            affine, wok, epsw = pver
            if not inbox:
                oob = [(prob['par_names'][i], x[i], prob['bounds'][i]) for i in range(prob['npars']) if not (prob['bounds'][i][0] <= x[i] <= prob['bounds'][i][1])]
                ctx.violation('out-of-bounds:%s:%s' % (be, optn), 'returned parameter outside the supplied bounds: %r' % (oob[:3],),
                              replay_body(prob, rec, expected='within bounds', out_of_bounds=oob))
                found = True
            elif not affine:
                stats['nonconvex'] += 1
            elif not pos or not wok:
                stats['not_wellposed' if not pos else 'witness_infeasible'] += 1
            else:
                cert2 = 2 * (gap + epsw)
                rec['cert2'] = float(cert2)
                rec['witness_residual2'] = float(2 * epsw)
                stats['certified'] += 1
                stats['eligible'][optn] += 0 if prob.get('_corpus') else 1
                if cert2 <= Fraction(BUDGET[optn]):
                    stats['max_cert'][optn] = max(stats['max_cert'][optn], float(cert2))
                    distinct.add(json.dumps([prob['id'], be, optn, rec['do_grad'], rec['do_stitch']]))
                else:
                    misses[optn].append((ri, float(cert2)))
        groups.setdefault(k, []).append(ri)

    # optimality misses: isolated stalls of an optimiser versus systematic loss of optimality
    for optn, ms in misses.items():
        if not ms:
            continue
        stats['misses'][optn] = len(ms)
        fresh = [m for m in ms if not problems[runs[m[0]][0]].get('_corpus')]        # corpus entries are the recorded stalls
        systematic = len(fresh) > max(1, 0.05 * stats['eligible'][optn])
        for ri, c2 in sorted(ms, key=lambda t: -t[1])[:5]:
            k, rec = runs[ri]
            prob = problems[k]
            w = rec.get('witness')
            far = None
            if isinstance(w, list):
                far = sorted(((abs(a - b), prob['par_names'][i], a, b, prob['bounds'][i]) for i, (a, b) in enumerate(zip(rec['x'], w))), reverse=True)[:3]
            sig = ('optimum-missed-systematically:%s' % optn) if systematic else ('optimiser-stall:%s' % optn)
            ctx.violation(sig, '%s reports success but twice_nll exceeds that of a feasible point: certified bound on the excess %.3g > budget %.3g '
                          '(%d of %d certified %s fits)' % (optn, c2, BUDGET[optn], len(ms), stats['eligible'][optn], optn),
                          replay_body(prob, rec, witness=w, certified_excess_bound=c2, largest_moves=far, theorem='C05_kkt_certificate_gap'))
            found = True

    # (5) cross-configuration spread of the attained objective, per problem (stalled fits excluded: reported above)
    stalled = {ri for ms in misses.values() for ri, _ in ms}
    spread_stats = dict(groups=0, max_convex=0.0, max_nonconvex=0.0)
    for k, ris in groups.items():
        prob = problems[k]
        vals = [(runs[ri][1]['fun'], ri) for ri in ris if ri not in stalled]
        if len(vals) < 2:
            continue
        spread_stats['groups'] += 1
        lo_, hi_ = min(vals), max(vals)
        sp = hi_[0] - lo_[0]
        convex = prob['family'] != 'product'
        keyname = 'max_convex' if convex else 'max_nonconvex'
        spread_stats[keyname] = max(spread_stats[keyname], sp)
        if sp > SPREAD:
            a, b = runs[lo_[1]][1], runs[hi_[1]][1]
            is32 = 'tensorflow' in (a['backend'], b['backend'])
            sig = 'spread:%s' % ('convex' if convex else 'nonconvex')
            if convex or sp > 20 * SPREAD:
                ctx.violation(sig, 'attained twice_nll differs by %.3g between configurations %s and %s' % (
                    sp, [a['backend'], a['optimizer'], a['do_grad'], a['do_stitch']], [b['backend'], b['optimizer'], b['do_grad'], b['do_stitch']]),
                    replay_body(prob, b, other=replay_body(prob, a)['impl'], other_config=[a['backend'], a['optimizer'], a['do_grad'], a['do_stitch']], spread=sp))
                found = True
    # callers' lists must not be modified
    for ri, (k, rec) in enumerate(runs):
        if rec.get('inputs_mutated'):
            ctx.violation('inputs-mutated', 'fit modified the init_pars / fixed_params lists of the caller', replay_body(problems[k], rec))
            found = True

    found = bool(ctx.violations)
    stats['disagreement_list'] = [d[1][:200] for d in disagree[:5]]
    if disagree and not found:
        tie = tie or ('wrapper model and implementation disagree on %d fits (first: %s)' % (len(disagree), disagree[0][1]))
        ri = disagree[0][0]
        ctx.coverage['first_disagreement'] = replay_body(problems[runs[ri][0]], runs[ri][1], detail=disagree[0][1])
    if tie and not found:
        ctx.violation('tie-broken', tie[:300], dict(kind='tie', detail=tie, theorem='props/C05.v',
                                                    first=ctx.coverage.get('first_disagreement')), nofail=True)
    stats['spread'] = spread_stats
    stats['disagreements'] = len(disagree)
    ex = next((r for _, r in runs if 'cert2' in r), None)
    ctx.coverage.update(
        evaluations=len(runs), distinct_nontrivial=len(distinct),
        rule='problems: random models of the normfactor/shapefactor/shapesys/staterror family (1-3 channels, 1-5 bins, 2-3 samples), data '
             'poisson/asimov/non-integer/with zeros, random bounds/inits/masks, fit or fixed-POI fit; configurations: {scipy,minuit} x backend x do_grad x '
             'do_stitch. non-trivial = a successful fit whose exact certificate (Coq, Qc) is within the optimiser budget; distinct by (problem, configuration)',
        budgets=dict(twice_nll_excess=BUDGET, spread=SPREAD, fun_rtol=FUN_RTOL), stats=stats,
        samples=[dict(problem=pub(problems[0]), config=[runs[0][1]['backend'], runs[0][1]['optimizer'], runs[0][1]['do_grad'], runs[0][1]['do_stitch']],
                      impl={k: runs[0][1].get(k) for k in ('status', 'x', 'fun', 'cert2')})] + ([dict(certified_fit=dict(x=ex['x'], fun=ex['fun'], cert2=ex['cert2'], witness=ex.get('witness')))] if ex else []))


def replay(body):
    if body.get('kind') != 'fit':
        print(body.get('detail'))
        return 0
    import pyhf
    prob = body['problem']
    pyhf.set_backend('numpy')
    prob['cm'] = compile_model(prob['spec'], pyhf.Model(copy.deepcopy(prob['spec']), poi_name='mu'))
    rec = run_impl(prob, tuple(body['config']))
    print(json.dumps({k: rec.get(k) for k in ('status', 'msg', 'x', 'fun', 'refun', 'raw_x', 'x0', 'kfixed')}, indent=1))
    print('recorded at detection:', json.dumps(body.get('impl'), indent=1)[:1500])
    return 0
