"""C14 - toy p-values are exact tail fractions of correctly sampled pseudo-data.
Proved: tail-fraction arithmetic (ties, range, monotonicity), sample layout (stitch/split), which hypothesis each toy
sample is generated under.  The random samplers are validated statistically (6-sigma bands, fixed seeds), never proved."""
import json
import math
import os
from fractions import Fraction

from harness import core, facts

F = Fraction

# ---------------------------------------------------------------------------------------
# tie to the source: EmpiricalDistribution.pvalue / expected_value and ToyCalculator.pvalues translated to
# coq/gen/EmpiricalGen.v on every run
GEN_PARAMS = '(N : Num) (Phi : V N -> V N) (percentile : list (V N) -> V N -> option (V N))'
GEN_ARGS = 'N Phi percentile'
GEN_HEADER = ('From Coq Require Import ZArith Bool List.\nRequire Import PV.Num PV.Empirical.\nImport ListNotations.\nLocal Open Scope list_scope.\n'
              '(* GENERATED on every run by harness/props/c14.py:extract from $VERIF_REPO/src/pyhf/infer/calculators.py - do not edit.\n'
              '   samples is self.samples (a rank-1 tensor = list); Phi is tensorlib.normal_cdf; percentile l q is\n'
              '   tensorlib.percentile(l, q, interpolation="linear"); integer tensors are Z, their true division is the division of\n'
              '   the number record. *)\n')


def _tie_exec(emp_cls):
    from harness.props import tie_translate as tt

    class X(tt.Exec):
        def global_name(self, name, st):
            if name in ('get_backend', 'float'):
                return tt.Ext(name)
            raise tt.TB('unknown name %s' % name)

        def self_attr(self, attr, node, st):
            if attr == 'samples':
                return tt.T('samples', tt.LIST(tt.NUM))
            raise tt.TB('self.%s (line %d)' % (attr, node.lineno))

        def attr_ext(self, base, attr, node, st):
            if isinstance(base, tt.Ext) and base.tag == 'tensorlib':
                return tt.Ext('tensorlib.' + attr)
            if isinstance(base, tt.T) and base.ty == 'empdist' and attr == 'pvalue':
                return tt.Ext('distmethod', (base.s, attr))
            raise tt.TB('attribute .%s of %r (line %d)' % (attr, base, node.lineno))

        def call_ext(self, f, args, kwargs, node, st):
            if f.tag == 'tensorlib.normal_cdf' and len(args) == 1 and not kwargs:
                return tt.T('(Phi %s)' % self.num(args[0], node), tt.NUM)
            if f.tag == 'tensorlib.percentile':
                if (len(args) != 2 or list(kwargs) != ['interpolation'] or not (isinstance(kwargs['interpolation'], tt.S) and kwargs['interpolation'].v == 'linear')
                        or not (isinstance(args[0], tt.T) and args[0].ty == tt.LIST(tt.NUM))):
                    raise tt.TB('percentile (line %d): not (tensor, q, interpolation="linear")' % node.lineno)
                return tt.T('(percentile %s %s)' % (args[0].s, self.num(args[1], node)), tt.OPTNUM)
            if f.tag == 'distmethod' and len(args) == 1 and not kwargs:
                return tt.T('(gen_pvalue %s %s %s)' % (GEN_ARGS, f.data[0], self.num(args[0], node)), tt.NUM)
            raise tt.TB('call of %r (line %d)' % (f, node.lineno))
    return X()


def generate():
    """returns (Coq text of gen/EmpiricalGen.v, info).  Raises facts.TieBroken."""
    import ast
    from harness import facts
    from harness.props import tie_translate as tt
    rel = 'infer/calculators.py'
    tree, path = facts.parse(rel)
    emp = facts.find_class(tree, 'EmpiricalDistribution')
    toy = facts.find_class(tree, 'ToyCalculator')
    init = facts.find_func(emp, '__init__')
    stores = [n for n in ast.walk(init) if isinstance(n, ast.Assign) and any(isinstance(t, ast.Attribute) and t.attr == 'samples' for t in n.targets)]
    if ([a.arg for a in init.args.args] != ['self', 'samples'] or len(stores) != 1
            or tt.dump(stores[0].value) != tt.pattern('tensorlib.ravel(samples)')):
        raise tt.TB('EmpiricalDistribution.__init__ does not store tensorlib.ravel(samples) as self.samples')
    text, info = GEN_HEADER, {}

    def method(cls, name, params):
        fn = facts.find_func(cls, name)
        if [a.arg for a in fn.args.args] != ['self'] + params or fn.args.vararg or fn.args.kwarg or fn.args.kwonlyargs or fn.args.defaults:
            raise tt.TB('%s.%s: parameters are not (self, %s)' % (cls.name, name, ', '.join(params)))
        return fn

    def run(fn, env):
        x = _tie_exec(emp)
        o = tt.only_ret(x.block(fn.body, tt.St(env=env)), fn.name)
        if o.st.warns or o.st.attrs:
            raise tt.TB('%s has side effects' % fn.name)
        return x, o.val

    def emit(fn, gname, params, rty, body):
        nonlocal text
        text += '\n' + tt.source_comment(rel, fn, path)
        text += 'Definition %s %s %s : %s :=\n  %s.\n' % (gname, GEN_PARAMS, params, rty, body)
        info[gname] = len(body)
    fn = method(emp, 'pvalue', ['value'])
    x, v = run(fn, {'value': tt.T('value', tt.NUM)})
    emit(fn, 'gen_pvalue', '(samples : list (V N)) (value : V N)', 'V N', x.num(v))
    fn = method(emp, 'expected_value', ['nsigma'])
    x, v = run(fn, {'nsigma': tt.T('nsigma', tt.NUM)})
    if not (isinstance(v, tt.T) and v.ty == tt.OPTNUM):
        raise tt.TB('expected_value does not return the percentile')
    emit(fn, 'gen_expected_value', '(samples : list (V N)) (nsigma : V N)', 'option (V N)', v.s)
    fn = method(toy, 'pvalues', ['teststat', 'sig_plus_bkg_distribution', 'bkg_only_distribution'])
    x, v = run(fn, {'teststat': tt.T('teststat', tt.NUM), 'sig_plus_bkg_distribution': tt.T('sb', 'empdist'), 'bkg_only_distribution': tt.T('b', 'empdist')})
    if not (isinstance(v, tt.Tup) and len(v.items) == 3):
        raise tt.TB('ToyCalculator.pvalues does not return a triple')
    emit(fn, 'gen_toy_pvalues', '(teststat : V N) (sb b : list (V N))', '(V N * V N * V N)', '(%s, %s, %s)' % tuple(x.num(i) for i in v.items))
    text += _gen_distributions(tree, path, rel, emp, toy, info)
    return text, info


# ---- ToyCalculator.distributions (third/fourth translator layer: loops as folds, the order of the draws as a counter) -------------------------
DIST_NOTE = '''
(* ToyCalculator.distributions.  Reading of the python values (the trusted part): self.data / self.pdf / self.init_pars / self.par_bounds /
   self.fixed_params are what the caller gave (opaque values of types Data / Pdf / Init / Bounds / Fixed), self.ntoys a natural number,
   self.test_stat one of 'qtilde' / 'q' / 'q0' (the constructors of test_stat);
   fit poi data pdf init bounds fixed  is  pyhf.infer.mle.fixed_poi_fit  with its parameters bound as python binds them (signature read from
   infer/mle.py on every run; a parameter the call does not give is None);
   sample k pdf pars n  is  self.pdf.make_pdf(pars).sample((n,))  as the k-th sampling call of this run of distributions (k counts the
   .sample calls in execution order: the pseudo-random stream is consumed in that order);
   tsf ts poi d pdf init bounds fixed  is  utils.get_test_stat(ts)(poi, d, pdf, init, bounds, fixed)  (all six positional);
   tqdm.tqdm(it, ..) iterates over it; EmpiricalDistribution(tensorlib.astensor(l)) is identified with the list l of its samples (its
   __init__ is checked to store tensorlib.ravel(samples)); track_progress (progress bar only) is not an input of the result. *)
'''


def _gen_distributions(tree, path, rel, emp, toy, info):
    import ast
    from harness.props import tie_translate as tt
    from harness.props import tie_translate_x4 as t4
    TS = {'qtilde': 'TQtilde', 'q': 'TQ', 'q0': 'TQ0'}
    mtree, _ = facts.parse('infer/mle.py')
    fit_fn = facts.find_func(mtree, 'fixed_poi_fit')
    tstree, _ = facts.parse('infer/test_statistics.py')
    utree, _ = facts.parse('infer/utils.py')
    # utils.get_test_stat(name): the table name -> function of test_statistics, all with the same six leading positional parameters
    gts = facts.find_func(utree, 'get_test_stat')
    table = None
    for n in ast.walk(gts):
        if isinstance(n, ast.Dict) and all(isinstance(k, ast.Constant) for k in n.keys):
            table = {k.value: ast.unparse(v) for k, v in zip(n.keys, n.values)}
    if table is None or set(table) != set(TS):
        raise tt.TB('utils.get_test_stat: the table of test statistics is not {qtilde, q, q0}')
    for name, f in table.items():
        fn = facts.find_func(tstree, f.split('.')[-1])
        if [a.arg for a in fn.args.args][:6] != ['mu', 'data', 'pdf', 'init_pars', 'par_bounds', 'fixed_params'] or len(fn.args.defaults) > len(fn.args.args) - 6:
            raise tt.TB('test statistic %s: parameters are not (mu, data, pdf, init_pars, par_bounds, fixed_params, ..)' % f)
    # __init__ stores the constructor arguments (init_pars / par_bounds / fixed_params: the caller's value, or the model's suggestion when falsy)
    init = facts.find_func(toy, '__init__')
    stored = {ast.unparse(n.targets[0]): ast.unparse(n.value) for n in init.body if isinstance(n, ast.Assign) and len(n.targets) == 1}
    want = {'self.ntoys': 'ntoys', 'self.data': 'data', 'self.pdf': 'pdf', 'self.test_stat': 'test_stat',
            'self.init_pars': 'init_pars or pdf.config.suggested_init()', 'self.par_bounds': 'par_bounds or pdf.config.suggested_bounds()',
            'self.fixed_params': 'fixed_params or pdf.config.suggested_fixed()'}
    for k, v in want.items():
        if stored.get(k) != v:
            raise tt.TB('ToyCalculator.__init__: %s is not %s' % (k, v))

    class XD(t4.Exec4):
        def global_name(self, name, st):
            if name in ('get_backend', 'fixed_poi_fit', 'utils', 'tqdm', 'dict', 'float'):
                return tt.Ext(name)
            if name == 'EmpiricalDistribution':
                return tt.Ext('EmpiricalDistribution')
            raise tt.TB('unknown name %s' % name)

        def self_attr(self, attr, node, st):
            m = {'ntoys': tt.T('ntoys', tt.NAT), 'data': tt.T('data', 'Data'), 'pdf': tt.T('pdf', 'Pdf'), 'init_pars': tt.T('init', 'Init'),
                 'par_bounds': tt.T('bounds', 'Bounds'), 'fixed_params': tt.T('fixed', 'Fixed'), 'test_stat': tt.T('ts', 'test_stat'),
                 'track_progress': tt.T('track', tt.BOOL)}
            if attr in m:
                return m[attr]
            raise tt.TB('self.%s (line %d)' % (attr, node.lineno))

        def compare1(self, op, a, b, node):
            opn = type(op).__name__
            if opn in ('Eq', 'NotEq') and isinstance(a, tt.T) and a.ty == 'test_stat' and isinstance(b, tt.S) and isinstance(b.v, str):
                if b.v not in TS:
                    raise tt.TB('test statistic %r (line %d)' % (b.v, node.lineno))
                s = '(match %s with %s => true | _ => false end)' % (a.s, TS[b.v])
                return tt.T(s if opn == 'Eq' else '(negb %s)' % s, tt.BOOL)
            return super().compare1(op, a, b, node)

        def attr_ext(self, base, attr, node, st):
            if isinstance(base, tt.Ext):
                if base.tag == 'tensorlib':
                    return tt.Ext('tensorlib.' + attr)
                if (base.tag, attr) in (('utils', 'get_test_stat'), ('tqdm', 'tqdm'), ('made-pdf', 'sample')):
                    return tt.Ext(base.tag + '.' + attr, base.data)
            return super().attr_ext(base, attr, node, st)

        def method_ext(self, base, name, args, kwargs, node, st):
            if isinstance(base, tt.T) and base.ty == 'Pdf' and name == 'make_pdf' and len(args) == 1 and not kwargs and isinstance(args[0], tt.T) and args[0].ty == 'Pars':
                return tt.Ext('made-pdf', (base, args[0]))
            return super().method_ext(base, name, args, kwargs, node, st)

        def opt(self, v, ty, node):
            if isinstance(v, tt.S) and v.v is None:
                return 'None'
            if isinstance(v, tt.T) and v.ty == ty:
                return '(Some %s)' % v.s
            raise tt.TB('a %s or None was expected, got %r (line %d)' % (ty, v, node.lineno))

        def need(self, v, ty, node):
            if isinstance(v, tt.T) and v.ty == ty:
                return v.s
            raise tt.TB('a %s was expected, got %r (line %d)' % (ty, v, node.lineno))

        def call_ext(self, f, args, kwargs, node, st):
            tag = f.tag
            if tag == 'fixed_poi_fit':
                bound, params, extra = tt.bind_call(fit_fn, args, kwargs, what='fixed_poi_fit')
                if extra or params != ['poi_val', 'data', 'pdf', 'init_pars', 'par_bounds', 'fixed_params']:
                    raise tt.TB('fixed_poi_fit: signature / keywords outside the reading (line %d)' % node.lineno)
                for p_, dv in tt.defaults_of(fit_fn).items():
                    if p_ not in bound:
                        bound[p_] = self.expr(dv, tt.St())
                if set(bound) != set(params):
                    raise tt.TB('fixed_poi_fit: missing arguments (line %d)' % node.lineno)
                return tt.T('(fit %s %s %s %s %s %s)' % (self.num(bound['poi_val'], node), self.need(bound['data'], 'Data', node), self.need(bound['pdf'], 'Pdf', node),
                                                     self.opt(bound['init_pars'], 'Init', node), self.opt(bound['par_bounds'], 'Bounds', node),
                                                     self.opt(bound['fixed_params'], 'Fixed', node)), 'Pars')
            if tag == 'made-pdf.sample' and len(args) == 1 and not kwargs:
                shape = args[0]
                if not (isinstance(shape, tt.Tup) and len(shape.items) == 1 and isinstance(shape.items[0], tt.T) and shape.items[0].ty == tt.NAT):
                    raise tt.TB('sample shape is not (n,) (line %d)' % node.lineno)
                k = st.attrs.get('\x00draws')
                if not (isinstance(k, tt.S) and isinstance(k.v, int)):
                    raise tt.TB('the number of sampling calls made so far is not determined (line %d)' % node.lineno)
                st.attrs['\x00draws'] = tt.S(k.v + 1)
                pdf, pars = f.data
                return tt.mk('(sample %d %s %s %s)' % (k.v, pdf.s, pars.s, shape.items[0].s), tt.LIST('Data'), 2)
            if tag == 'utils.get_test_stat' and len(args) == 1 and not kwargs and isinstance(args[0], tt.T) and args[0].ty == 'test_stat':
                return tt.Ext('teststat_func', args[0])
            if tag == 'teststat_func':
                if len(args) != 6 or kwargs:
                    raise tt.TB('the test statistic is not called with its six positional arguments (line %d)' % node.lineno)
                tys = ['Data', 'Pdf', 'Init', 'Bounds', 'Fixed']
                return tt.T('(tsf %s %s %s)' % (f.data.s, self.num(args[0], node), ' '.join(self.need(a, ty, node) for a, ty in zip(args[1:], tys))), tt.NUM)
            if tag == 'tqdm.tqdm' and len(args) == 1 and set(kwargs) <= {'total', 'leave', 'disable', 'unit', 'desc'}:
                return args[0]
            if tag == 'EmpiricalDistribution' and len(args) == 1 and not kwargs and isinstance(args[0], tt.T) and args[0].ty == tt.LIST(tt.NUM):
                return args[0]
            raise tt.TB('call of %r (line %d)' % (f, node.lineno))

    fn = facts.find_func(toy, 'distributions')
    a = fn.args
    if [x.arg for x in a.args] != ['self', 'poi_test', 'track_progress'] or a.vararg or a.kwarg or a.kwonlyargs or [ast.unparse(d) for d in a.defaults] != ['None']:
        raise tt.TB('ToyCalculator.distributions: parameters are not (self, poi_test, track_progress=None)')
    x = XD({})
    x.locals = tt.assigned_locals(fn)
    o = x.block(fn.body, tt.St(env={'poi_test': tt.T('poi_test', tt.NUM), 'track_progress': tt.S(None)}, attrs={'\x00draws': tt.S(0)}))

    def leaf(l):
        if not isinstance(l, tt.Ret):
            raise tt.TB('distributions: a path raises or ends without return')
        v = l.val
        if not (isinstance(v, tt.Tup) and len(v.items) == 2 and all(isinstance(i, tt.T) and i.ty == tt.LIST(tt.NUM) for i in v.items)):
            raise tt.TB('distributions does not return two EmpiricalDistributions')
        if not (isinstance(l.st.attrs.get('\x00draws'), tt.S) and l.st.attrs['\x00draws'].v == 2):
            raise tt.TB('distributions does not make exactly two sampling calls')
        return '(%s, %s)' % (v.items[0].s, v.items[1].s)
    body = tt.render2(o, leaf)
    out = DIST_NOTE + '\n' + tt.source_comment(rel, fn, path)
    out += ('Definition gen_distributions (N : Num) (Pars Data Pdf Init Bounds Fixed : Type)\n'
            '    (fit : V N -> Data -> Pdf -> option Init -> option Bounds -> option Fixed -> Pars) (sample : nat -> Pdf -> Pars -> nat -> list Data)\n'
            '    (tsf : test_stat -> V N -> Data -> Pdf -> Init -> Bounds -> Fixed -> V N)\n'
            '    (data : Data) (pdf : Pdf) (init : Init) (bounds : Bounds) (fixed : Fixed) (track : bool) (ts : test_stat) (ntoys : nat) (poi_test : V N)\n'
            '    : list (V N) * list (V N) :=\n  %s.\n' % body)
    info['gen_distributions'] = len(body)
    return out


def extract(ctx):
    text, info = generate()
    core.write_if_changed(os.path.join(core.COQ, 'gen', 'EmpiricalGen.v'), text)
    return dict(file='coq/gen/EmpiricalGen.v', definitions=sorted(info))


BACKENDS = ['numpy', 'jax', 'pytorch', 'tensorflow']
NSIGMAS = [-2, -1, 0, 1, 2, 0.5]
TS_CODE = {'qtilde': 1, 'q': 2, 'q0': 3}
TS_COQ = {'qtilde': 'TQtilde', 'q': 'TQ', 'q0': 'TQ0'}


def close(a, b, rtol=1e-9, atol=1e-12):
    """core.close, but a non-finite implementation value is a plain mismatch (never a harness crash)."""
    if a is None or b is None or b != b or b in (float('inf'), float('-inf')):
        return False
    return core.close(a, b, rtol, atol)


def finite(xs):
    return all(isinstance(x, (int, float)) and x == x and abs(x) != float('inf') for x in xs)


def set_backend(b):
    import pyhf
    pyhf.set_backend(b)
    return pyhf.tensorlib


def seed_all(backend, seed):
    import numpy as np
    np.random.seed(seed)
    if backend == 'pytorch':
        import torch
        torch.manual_seed(seed)
    elif backend == 'tensorflow':
        import tensorflow as tf
        tf.random.set_seed(seed)


def tofloat(tb, x):
    v = tb.tolist(x)
    while isinstance(v, list):
        assert len(v) == 1
        v = v[0]
    return float(v)


def percentile_kwarg_defect(e):
    return isinstance(e, TypeError) and 'interpolation' in str(e)


# ---------------------------------------------------------------------------------------
# A. EmpiricalDistribution: exact comparison
def gen_vec(rng):
    n = rng.choice([1, 2, 3, 4, 5, 7, 8, 10, 16, 25, 40])
    style = rng.choice(['ties', 'ties', 'halves', 'floats', 'const'])
    if style == 'ties':
        pool = [float(x) for x in range(rng.choice([2, 3, 5]))]
        vec = [rng.choice(pool) for _ in range(n)]
    elif style == 'halves':
        vec = [rng.randrange(-6, 20) / 2.0 for _ in range(n)]
    elif style == 'const':
        vec = [rng.choice([0.0, 1.5, 3.0])] * n
    else:
        vec = [rng.choice([rng.uniform(0, 10), rng.expovariate(0.5), 0.0]) for _ in range(n)]
    shape = [n]
    if n % 2 == 0 and n > 2 and rng.random() < 0.3:
        shape = [2, n // 2]
    lo, hi = min(vec), max(vec)
    obs = [lo - 1.0, lo, hi, hi + 0.5, rng.choice(vec), rng.choice(vec), (lo + hi) / 2.0, rng.uniform(lo - 1, hi + 1)]
    if len(set(vec)) > 1:
        sv = sorted(set(vec))
        i = rng.randrange(len(sv) - 1)
        obs.append((sv[i] + sv[i + 1]) / 2.0)
        obs.append(math.nextafter(sv[i + 1], -math.inf))   # the float just below a sampled value
    return dict(vec=vec, shape=shape, obs=obs)


def impl_empirical(case, backend):
    import pyhf
    from pyhf.infer.calculators import EmpiricalDistribution
    tb = set_backend(backend)
    vec = case['vec']
    arr = vec if len(case['shape']) == 1 else [vec[:case['shape'][1]], vec[case['shape'][1]:]]
    out = dict(backend=backend, pvalues=[], expected=[], q100=[], exc=None)
    try:
        d = EmpiricalDistribution(tb.astensor(arr))
        out['nsamples'] = int(tb.shape(d.samples)[0])
        for v in case['obs']:
            out['pvalues'].append(tofloat(tb, d.pvalue(v)))
    except Exception as e:       # noqa
        out['exc'] = ('pvalue', core.exc_enum(e), str(e)[:160])
        return out
    for ns in NSIGMAS:
        try:
            out['q100'].append(tofloat(tb, tb.normal_cdf(ns) * 100))
            out['expected'].append(tofloat(tb, d.expected_value(ns)))
        except Exception as e:   # noqa
            out['exc'] = ('expected_value', core.exc_enum(e), str(e)[:160], percentile_kwarg_defect(e))
            break
    return out


def ref_pvalue(vec, v):
    fv = core.frac(v)
    return F(sum(1 for s in vec if core.frac(s) >= fv), len(vec))


def ref_percentile(vec, q100):
    """the documented rule of the 'linear' percentile, exact."""
    a = sorted(core.frac(x) for x in vec)
    n = len(a)
    virt = core.frac(q100) / 100 * (n - 1)
    prev = min(int(math.floor(virt)), n - 1)
    nxt = min(prev + 1, n - 1)
    return a[prev] + (a[nxt] - a[prev]) * (virt - prev)


HEADER_A = '''From Coq Require Import ZArith QArith Qcanon String List.
Require Import PV.Num PV.Run PV.Empirical.
Import ListNotations.
Definition emp_case (samples obs qs : list Qc) :=
  (qouts (map (@pvalue QcNum samples) obs),
   map (fun q => match @percentile_linear QcNum samples q with Some x => [qout x] | None => [] end) qs).
'''


# ---------------------------------------------------------------------------------------
# B. ToyCalculator dataflow with stubbed fits, sampler and test statistic
OBS_TAG = 424242


def ts_value(name, poi, tag):
    return F((tag * 7 + 3) % 11, 4) + core.frac(poi) * TS_CODE[name]


def run_dataflow(case, backend, via_hypotest=False):
    import pyhf
    from pyhf.infer import calculators as C
    tb = set_backend(backend)
    real = pyhf.simplemodels.uncorrelated_background([5.0], [50.0], [7.0])
    log = dict(fits=[], pdf_pars=[], draws=[], ts_calls=0, ts_bad=[])

    class FakeDist:
        def __init__(self, pars):
            self.parsid = int(round(float(tb.tolist(pars)[0]) * 4))

        def sample(self, shape):
            k = len(log['draws'])
            n = int(shape[0])
            log['draws'].append([k, self.parsid, list(shape)])
            return tb.astensor([[float(self.parsid * 1000 + i), 0.0] for i in range(n)])   # tag: which pdf, which toy (not the draw order)

    class FakeModel:
        config = real.config
        batch_size = None

        def make_pdf(self, pars):
            log['pdf_pars'].append([float(x) for x in tb.tolist(pars)])
            return FakeDist(pars)
    model = FakeModel()
    data = tb.astensor([float(OBS_TAG), 0.0])
    init, bounds, fixed = [1.0, 1.0], [(0, 10), (1e-10, 10.0)], [False, False]

    def fit_stub(poi, d, pdf, ip, pb, fp, **kw):
        log['fits'].append(dict(poi=float(poi), data_ok=d is data, pdf_ok=pdf is model, init_ok=ip == init, bounds_ok=pb == bounds, fixed_ok=fp == fixed))
        return tb.astensor([float(poi), 1.0])

    def get_ts(name):
        def f(poi, sample, pdf, ip, pb, fp):
            log['ts_calls'] += 1
            if not (pdf is model and ip == init and pb == bounds and fp == fixed):
                log['ts_bad'].append('arguments')
            tag = int(round(float(tb.tolist(sample)[0])))
            return tb.astensor(float(ts_value(name, poi, tag)))
        return f
    old_fit, old_get = C.fixed_poi_fit, C.utils.get_test_stat
    C.fixed_poi_fit, C.utils.get_test_stat = fit_stub, get_ts
    out = dict(backend=backend, exc=None)
    try:
        ts, n, poi = case['test_stat'], case['ntoys'], case['poi']
        if via_hypotest:
            r = pyhf.infer.hypotest(poi, data, model, init, bounds, fixed, calctype='toybased', ntoys=n, test_stat=ts,
                                    track_progress=False, return_tail_probs=True)
            out['hypotest'] = [tofloat(tb, r[0]), [tofloat(tb, x) for x in r[1]]]
        else:
            calc = C.ToyCalculator(data, model, init, bounds, fixed, test_stat=ts, ntoys=n, track_progress=False)
            # the same calculator object asked about other tested values first: the measured call below must not depend on them
            for p0 in case.get('warmup', []):
                calc.teststatistic(p0)
                calc.distributions(p0)
            for k in ('fits', 'pdf_pars', 'draws', 'ts_bad'):
                log[k][:] = []
            log['ts_calls'] = 0
            t = calc.teststatistic(poi)
            out['teststat'] = tofloat(tb, t)
            sb, b = calc.distributions(poi)
            out['sb'] = [float(x) for x in tb.tolist(sb.samples)]
            out['b'] = [float(x) for x in tb.tolist(b.samples)]
            out['pvalues'] = []
            for tv in case['tobs']:
                p = calc.pvalues(tb.astensor(tv) if tv is not None else t, sb, b)
                out['pvalues'].append([tofloat(tb, x) for x in p])
    except Exception as e:   # noqa
        out['exc'] = (core.exc_enum(e), str(e)[:160], percentile_kwarg_defect(e))
    finally:
        C.fixed_poi_fit, C.utils.get_test_stat = old_fit, old_get
    out['log'] = log
    return out


def ref_dataflow(case):
    """the property: signal-like toys from the conditional fit at the tested POI, background-like toys from the fit at 0
    (1 for q0), every statistic evaluated at the tested POI; p-values are tail fractions."""
    ts, n, poi = case['test_stat'], case['ntoys'], case['poi']
    sig_id = int(round(poi * 4))
    bkg_id = 4 if ts == 'q0' else 0
    sb = [ts_value(ts, poi, sig_id * 1000 + i) for i in range(n)]
    b = [ts_value(ts, poi, bkg_id * 1000 + i) for i in range(n)]
    tobs = ts_value(ts, poi, OBS_TAG)
    pv = []
    for tv in case['tobs']:
        t = tobs if tv is None else core.frac(tv)
        a, c = F(sum(1 for s in sb if s >= t), n), F(sum(1 for s in b if s >= t), n)
        pv.append([a, c, (a / c) if c != 0 else None])
    return dict(sb=sb, b=b, teststat=tobs, pvalues=pv)


HEADER_B = '''From Coq Require Import ZArith QArith Qround Qcanon String List.
Require Import PV.Num PV.Run PV.Empirical.
Import ListNotations.
Definition fitq (p : Qc) : Z := Qfloor (p * mkq 4 1)%Qc.
Definition samplerq (k : nat) (parsid : Z) (n : nat) : list Z :=
  map (fun i => (parsid * 1000 + Z.of_nat i)%Z) (seq 0 n).
Definition tscode (ts : test_stat) : Z := match ts with TQtilde => 1 | TQ => 2 | TQ0 => 3 end%Z.
Definition tsq (ts : test_stat) (poi : Qc) (tag : Z) : Qc := (mkq ((tag * 7 + 3) mod 11) 4 + poi * mkq (tscode ts) 1)%Qc.
Definition flow (ts : test_stat) (n : nat) (poi : Qc) (tobs : list (option Qc)) :=
  let '(sb, b) := @distributions QcNum Z Z fitq samplerq tsq ts n poi in
  let t0 := tsq ts poi 424242%Z in
  (qouts sb, qouts b, qout t0,
   map (fun t => let '(x, y, z) := @toy_pvalues QcNum (match t with Some v => v | None => t0 end) sb b in [qout x; qout y; qout z]) tobs).
'''


# ---------------------------------------------------------------------------------------
# C. real sampling: shapes, integrality, layout, moments
def stat_models():
    import pyhf
    m1 = pyhf.simplemodels.uncorrelated_background([5.0, 6.0], [50.0, 60.0], [7.0, 8.0])
    spec = {'channels': [{'name': 'c', 'samples': [
        {'name': 'sig', 'data': [4.0, 3.0], 'modifiers': [{'name': 'mu', 'type': 'normfactor', 'data': None},
                                                           {'name': 'ns', 'type': 'normsys', 'data': {'hi': 1.1, 'lo': 0.9}}]},
        {'name': 'bkg', 'data': [20.0, 30.0], 'modifiers': [{'name': 'hs', 'type': 'histosys', 'data': {'hi_data': [22.0, 33.0], 'lo_data': [18.0, 28.0]}},
                                                            {'name': 'st', 'type': 'staterror', 'data': [2.0, 3.0]},
                                                            {'name': 'lumi', 'type': 'lumi', 'data': None}]}]}],
            'parameters': [{'name': 'lumi', 'auxdata': [1.0], 'sigmas': [0.02], 'bounds': [[0.5, 1.5]], 'inits': [1.0]}]}
    m2 = pyhf.Model(spec, poi_name='mu')
    m3 = pyhf.Model({'channels': [{'name': 'c', 'samples': [
        {'name': 'sig', 'data': [4.0], 'modifiers': [{'name': 'mu', 'type': 'normfactor', 'data': None}]},
        {'name': 'bkg', 'data': [6.5], 'modifiers': []}]}]}, poi_name='mu')
    # Gaussian and Poisson constraints INTERLEAVED in the auxiliary layout (normsys: Gaussian, shapesys: Poisson, staterror: Gaussian)
    m4 = pyhf.Model({'channels': [{'name': 'c', 'samples': [
        {'name': 'sig', 'data': [4.0, 3.0], 'modifiers': [{'name': 'mu', 'type': 'normfactor', 'data': None},
                                                           {'name': 'a_norm', 'type': 'normsys', 'data': {'hi': 1.1, 'lo': 0.9}}]},
        {'name': 'bkg1', 'data': [40.0, 30.0], 'modifiers': [{'name': 'b_shape', 'type': 'shapesys', 'data': [4.0, 6.0]}]},
        {'name': 'bkg2', 'data': [25.0, 35.0], 'modifiers': [{'name': 'c_stat', 'type': 'staterror', 'data': [2.0, 3.0]}]}]}]}, poi_name='mu')
    return [('uncorrelated_background-2bin', m1, [1.3, 1.1, 0.9]),
            ('normsys+histosys+staterror+lumi', m2, None),
            ('one-bin-no-nuisance', m3, [1.5]),
            ('normsys+shapesys+staterror (G,P,G aux layout)', m4, None)]


def aux_reference(model, pars):
    """(mean, variance, kind) of every auxiliary datum from the constraint terms, in config.auxdata order."""
    out = []
    for name in model.config.auxdata_order:
        ps = model.config.param_set(name)
        sl = model.config.par_slice(name)
        vals = [float(x) for x in pars[sl]]
        if ps.pdf_type == 'normal':
            sig = getattr(ps, 'sigmas', None) or [1.0] * len(vals)
            out += [(v, float(s) ** 2, 'normal') for v, s in zip(vals, sig)]
        else:
            out += [(v * float(f), v * float(f), 'poisson') for v, f in zip(vals, ps.factors)]
    return out


def sampling_checks(ctx, backend, nstat, seed, report):
    import pyhf
    tb = set_backend(backend)
    rows = []
    for mname, model, pars in stat_models():
        if pars is None:
            pars = list(model.config.suggested_init())
            for nm, v in (('mu', 1.4), ('ns', 0.5), ('hs', -0.7), ('lumi', 1.01), ('a_norm', 0.5)):
                if nm in model.config.par_map:
                    pars[model.config.par_slice(nm).start] = v
            for nm, vals in (('st', (1.05, 0.93)), ('c_stat', (1.05, 0.93)), ('b_shape', (1.1, 0.9))):
                if nm in model.config.par_map:
                    s = model.config.par_slice(nm)
                    pars[s.start], pars[s.start + 1] = vals
        tpars = tb.astensor(pars)
        nmain = model.config.nmaindata
        naux = len(model.config.auxdata)
        case = dict(kind='sampling', backend=backend, model=mname, pars=pars, nstat=nstat, seed=seed)
        try:
            pdf = model.make_pdf(tpars)
            shapes = {str(sh): list(tb.shape(pdf.sample(sh))) for sh in ((), (3,), (2, 3))}
            want = {'()': [nmain + naux], '(3,)': [3, nmain + naux], '(2, 3)': [2, 3, nmain + naux]}
            if shapes != want:
                report('sample-shape:' + backend, 'model.make_pdf(pars).sample(shape) has shapes %r, expected %r' % (shapes, want), dict(case, impl=shapes, expected=want))
            seed_all(backend, seed)
            x = tb.tolist(pdf.sample((nstat,)))
            expd = [float(v) for v in tb.tolist(model.expected_data(tpars))]
        except Exception as e:   # noqa
            report('sample-exception:%s:%s' % (backend, core.exc_enum(e)), 'sampling raised %s: %s' % (core.exc_enum(e), str(e)[:160]), case)
            continue
        cols = list(zip(*x))
        if len(cols) != nmain + naux or len(x) != nstat:
            report('sample-shape:' + backend, 'sample((n,)) is %d x %d' % (len(x), len(cols)), dict(case, expected=[nstat, nmain + naux]))
            continue
        refs = [(expd[j], expd[j], 'poisson-main') for j in range(nmain)] + aux_reference(model, pars)
        for j, (col, (mu, var, kind)) in enumerate(zip(cols, refs)):
            if kind.startswith('poisson') and any(v < 0 or v != int(v) for v in col):
                bad = [v for v in col if v < 0 or v != int(v)][:3]
                report('sample-not-count:' + backend, 'column %d (%s) of the sample holds non-integer or negative values %r' % (j, kind, bad), dict(case, column=j, impl=bad))
                continue
            # aux means must also agree with expected_data (independent API), which fixes the column <-> term pairing
            if j >= nmain and abs(expd[j] - mu) > 1e-9 * max(1.0, abs(mu)):
                report('aux-layout:' + backend, 'column %d: expected_data gives %r, constraint term gives %r' % (j, expd[j], mu), dict(case, column=j))
            n = len(col)
            mean = sum(col) / n
            s2 = sum((v - mean) ** 2 for v in col) / (n - 1)
            var_of_s2 = ((mu + 2 * mu * mu) if kind.startswith('poisson') else 2 * var * var) / n
            zm = (mean - mu) / math.sqrt(var / n)
            zv = (s2 - var) / math.sqrt(var_of_s2)
            rows.append(dict(model=mname, column=j, kind=kind, mean=mean, expected_mean=mu, z_mean=round(zm, 2), var=s2, expected_var=var, z_var=round(zv, 2)))
            if abs(zm) > 6:
                report('sample-mean:%s:%s' % (backend, kind), 'column %d (%s) of %d samples of %s: mean %.6g, expected %.6g (%.1f sigma)'
                       % (j, kind, n, mname, mean, mu, zm), dict(case, column=j, impl=mean, expected=mu, z=zm))
            if abs(zv) > 6:
                report('sample-variance:%s:%s' % (backend, kind), 'column %d (%s) of %d samples of %s: variance %.6g, expected %.6g (%.1f sigma)'
                       % (j, kind, n, mname, s2, var, zv), dict(case, column=j, impl=s2, expected=var, z=zv))
    return rows


# ---------------------------------------------------------------------------------------
# D. one-bin counting model: toy CLs+b / CLb against exact Poisson tail probabilities (certified by interval)
def counting_model(s, b):
    import pyhf
    return pyhf.Model({'channels': [{'name': 'c', 'samples': [
        {'name': 'sig', 'data': [float(s)], 'modifiers': [{'name': 'mu', 'type': 'normfactor', 'data': None}]},
        {'name': 'bkg', 'data': [float(b)], 'modifiers': []}]}]}, poi_name='mu')


def pois_sum_coq(lam, ns):
    L = '(%d/%d)' % (lam.numerator, lam.denominator)
    terms = ' + '.join('%s^%d/%d' % (L, n, math.factorial(n)) if n > 0 else '1' for n in ns) or '0'
    return 'exp (-%s) * (%s)' % (L, terms)


def pois_sum(lam, ns):
    import mpmath
    mpmath.mp.dps = 40
    return mpmath.exp(-mpmath.mpf(lam.numerator) / lam.denominator) * sum((mpmath.mpf(lam.numerator) / lam.denominator) ** n / mpmath.factorial(n) for n in ns)


def counting_case(cfg, ntoys, seed, backend='numpy'):
    """returns dict with toy CLsb/CLb, the acceptance sets, the exact probabilities (proposed by mpmath) and Coq goals."""
    import pyhf
    from pyhf.infer import calculators as C
    tb = set_backend(backend)
    s, b, nobs, mu, ts = cfg['s'], cfg['b'], cfg['nobs'], cfg['mu'], cfg['test_stat']
    model = counting_model(s, b)
    real_get = C.utils.get_test_stat
    memo = {}

    def get(name):
        f = real_get(name)

        def g(poi, sample, pdf, ip, pb, fp):
            key = (name, float(poi), tuple(float(v) for v in tb.tolist(sample)))
            if key not in memo:
                memo[key] = f(poi, sample, pdf, ip, pb, fp)
            return memo[key]
        return g
    C.utils.get_test_stat = get      # memoisation only: the statistic is a deterministic function of the pseudo-data
    try:
        seed_all(backend, seed)
        data = tb.astensor([float(nobs)])
        calc = C.ToyCalculator(data, model, test_stat=ts, ntoys=ntoys, track_progress=False)
        t = calc.teststatistic(mu)
        sb, bo = calc.distributions(mu)
        clsb, clb, cls = [tofloat(tb, x) for x in calc.pvalues(t, sb, bo)]
        tf = tofloat(tb, t)
        # the statistic as a function of the count, by the same function
        lam_sb = F(mu).limit_denominator(10 ** 6) * F(s).limit_denominator(10 ** 6) + F(b).limit_denominator(10 ** 6)
        lam_b = (F(1) * F(s).limit_denominator(10 ** 6) if ts == 'q0' else F(0)) + F(b).limit_denominator(10 ** 6)
        nmax = int(max(lam_sb, lam_b) + 12 * math.sqrt(float(max(lam_sb, lam_b))) + 25)
        g = get(ts)
        init, bounds, fixed = model.config.suggested_init(), model.config.suggested_bounds(), model.config.suggested_fixed()
        tn = [tofloat(tb, g(mu, tb.astensor([float(n)]), model, init, bounds, fixed)) for n in range(nmax + 1)]
    finally:
        C.utils.get_test_stat = real_get
    acc = [n for n in range(nmax + 1) if tn[n] >= tf]
    rej = [n for n in range(nmax + 1) if tn[n] < tf]
    tail_in = nmax in acc      # which of the two sets is the infinite one
    out = dict(cfg=cfg, ntoys=ntoys, seed=seed, backend=backend, teststat=tf, clsb=clsb, clb=clb, cls=cls, accept=acc if not tail_in else None,
               reject=rej if tail_in else None, nmax=nmax, distinct_datasets=len(memo))
    goals = []
    for nm, lam in (('sb', lam_sb), ('b', lam_b)):
        fin = rej if tail_in else acc
        pfin = pois_sum(lam, fin)
        p = (1 - pfin) if tail_in else pfin
        ref = F(int(round(float(p) * 10 ** 12)), 10 ** 12)
        expr = pois_sum_coq(lam, fin)
        expr = ('1 - ' + expr) if tail_in else expr
        goals.append('Goal Rabs (%s - %d/%d) <= 1/10^9.\nProof. interval with (i_prec 90). Qed.' % (expr, ref.numerator, ref.denominator))
        out['p_' + nm] = ref
        out['lam_' + nm] = lam
    out['goals'] = goals
    return out


def binom_ok(phat, p, n):
    p = float(p)
    return abs(phat - p) <= 6 * math.sqrt(max(p * (1 - p), 1.0 / n) / n) + 1.0 / n


# ---------------------------------------------------------------------------------------
def run(ctx):
    rng = ctx.rng
    tie = None
    try:
        ctx.coverage['translated_from_source'] = extract(ctx)
    except facts.TieBroken as e:
        tie = 'translation of pyhf/infer/calculators.py (EmpiricalDistribution, ToyCalculator.pvalues / distributions) to Gallina failed (harness/props/c14.py:extract): %s' % e
        core.coq_make(['Empirical.vo', 'Run.vo'])
    if tie is None:
        ok, txt = core.prove(ctx)
        if not ok:
            why = ('the functions translated from the source no longer coincide with the hand model (coq/TieEmpirical.v, C14_source_is_model_*): '
                   if ('Tie' in txt or 'source_is_model' in txt or 'Gen.v' in txt) else 'proof obligations of props/C14.v no longer check: ')
            tie = why + txt[-1500:]
            core.coq_make(['Empirical.vo', 'Run.vo'])
    ctx.trusted += ['harness/props/c14.py:extract + harness/props/tie_translate.py / tie_translate_x4.py (python ast -> Gallina for EmpiricalDistribution.pvalue/expected_value and '
                    'ToyCalculator.pvalues / distributions; fail closed; reading of the external calls of distributions stated in coq/gen/EmpiricalGen.v): C14_source_is_model_* prove the translated definitions equal to the hand model']
    ctx.trusted += ['the random samplers (scipy.stats rvs for numpy/jax, torch.distributions, tensorflow_probability) are NOT modelled: the distributional claims are '
                    'validated statistically with fixed seeds and 6-sigma bands, never proved',
                    'exact Poisson tail probabilities are proposed by mpmath and every one used is certified by an `interval` goal compiled in the same run',
                    'the harness memoises the test statistic per distinct pseudo-dataset in the counting experiment (deterministic function; semantics unchanged)',
                    'normal_cdf(nsigma) enters expected_value as a given number (its accuracy is property C04/C07)']
    ctx.assumptions += ['binomial sampling error: acceptance band 6 sigma (+1/n) around the exact probability; moments: 6 sigma of the estimator',
                        'sampler k of a toy run and the conditional fits are Section variables of toy_hypotheses (stubs in the correspondence)']
    found = [False]

    def report(sig, what, replay, nofail=False):
        ctx.violation(sig, what, replay, nofail=nofail)
        found[0] = True
    backends = BACKENDS if not ctx.quick else ['numpy', BACKENDS[1 + ctx.seed % 3]]
    sigs = set()
    stats = dict(backends=backends, empirical_cases=0, pvalue_evals=0, expected_value_evals=0, ties=0, out_of_range=0,
                 dataflow_cases=0, sampling_columns=0, counting_cases=0)

    # ---- A. empirical distribution, corpus first
    cases = []
    cdir = os.path.join(core.VERIF, 'corpus', 'C14')
    if os.path.isdir(cdir):
        for fn in sorted(os.listdir(cdir)):
            if fn.endswith('.json'):
                cases.append(json.load(open(os.path.join(cdir, fn))))
    ncorpus = len(cases)
    cases += [gen_vec(rng) for _ in range(ctx.n(60, 600))]
    impls = {b: [impl_empirical(c, b) for c in cases] for b in backends}
    # the percentile argument is the backend's own normal_cdf(nsigma)*100: one model evaluation per backend
    model_out = {}
    for b in backends:
        ex = []
        for c, im in zip(cases, impls[b]):
            ex.append('emp_case %s %s %s' % (core.qlist(c['vec']), core.qlist(c['obs']), core.qlist(im['q100'])))
        try:
            res = core.coq_eval(ctx, 'emp_' + b, HEADER_A, ex, shard=20)
            model_out[b] = [core.parse_qc(r) for r in res]
        except core.CoqEvalError as e:
            tie = tie or ('model evaluation failed: %s' % str(e)[-800:])
            model_out[b] = None
    ndis = 0
    for b in backends:
        for i, (c, im) in enumerate(zip(cases, impls[b])):
            stats['empirical_cases'] += 1
            rep = dict(kind='empirical', backend=b, case=c)
            if im['exc']:
                if im['exc'][0] == 'expected_value' and im['exc'][3]:
                    report('numpy-percentile-interpolation-kwarg', 'EmpiricalDistribution.expected_value raises on backend %s: %s' % (b, im['exc'][2]),
                           dict(rep, impl=im['exc'], expected='the percentile of the samples at Phi(nsigma)', theorem='correspondence expected_value'))
                else:
                    report('empirical-exception:%s:%s:%s' % (b, im['exc'][0], im['exc'][1]), '%s raised %s: %s' % im['exc'][:3], dict(rep, impl=im['exc']))
            # the property itself: exact tail fraction, ties counted
            for v, got in zip(c['obs'], im['pvalues']):
                want = ref_pvalue(c['vec'], v)
                stats['pvalue_evals'] += 1
                stats['ties'] += any(core.frac(s) == core.frac(v) for s in c['vec'])
                stats['out_of_range'] += (v < min(c['vec']) or v > max(c['vec']))
                if not close(want, got, 1e-12, 0):
                    tiecase = any(core.frac(s) == core.frac(v) for s in c['vec'])
                    report('pvalue-not-tail-fraction:%s%s' % (b, ':tie' if tiecase else ''),
                           'pvalue(%r) of %d samples on %s is %r, the fraction of samples >= value is %s' % (v, len(c['vec']), b, got, want),
                           dict(rep, value=v, impl=got, expected=str(want), theorem='C14_pvalue_is_tail_fraction'))
            for ns, q, got in zip(NSIGMAS, im['q100'], im['expected']):
                want = ref_percentile(c['vec'], q)
                stats['expected_value_evals'] += 1
                if not close(want, got, 1e-9, 1e-12):
                    report('expected-value-not-linear-percentile:' + b, 'expected_value(%r) on %s is %r, the linear percentile at %r%% is %r' % (ns, b, got, q, float(want)),
                           dict(rep, nsigma=ns, q100=q, impl=got, expected=float(want), theorem='correspondence expected_value'))
            mo = model_out.get(b)
            if mo is not None:
                mp = core.to_frac(mo[i][0])
                me = [core.to_frac(x)[0] if x else None for x in mo[i][1]]
                dis = [k for k, (a, g) in enumerate(zip(mp, im['pvalues'])) if not close(a, g, 1e-12, 0)]
                dis += [100 + k for k, (a, g) in enumerate(zip(me, im['expected'])) if a is None or not close(a, g, 1e-9, 1e-12)]
                if dis:
                    ndis += 1
                    tie = tie or ('Coq model of EmpiricalDistribution and implementation (%s) disagree on %r (indices %r)' % (b, c, dis[:4]))
            if len(set(c['vec'])) < len(c['vec']) or len(c['vec']) > 1:
                sigs.add(json.dumps(['emp', b, c['vec'], c['obs']]))
    ctx.log('empirical: %d cases x %d backends, %d model disagreements' % (len(cases), len(backends), ndis))

    # ---- B. dataflow
    dcases = []
    for ts in ('qtilde', 'q', 'q0'):
        for _ in range(ctx.n(3, 20)):
            n = rng.choice([1, 2, 5, 8, 13])
            # the tested value differs from the background hypothesis' POI so that the two pdfs are distinguishable
            poi = rng.choice([0.25, 0.5, 1.0, 1.5, 2.0, 3.75] if ts != 'q0' else [0.0, 0.25, 0.5, 1.5, 2.0])
            c0 = dict(test_stat=ts, ntoys=n, poi=poi, tobs=[])
            r0 = ref_dataflow(c0)
            pool = sorted(set(r0['sb'] + r0['b']))
            # observed statistics inside the range of the toy statistics (ties with toys included), one outside
            c0['tobs'] = [None] + [float(rng.choice(pool)) for _ in range(3)] + [float(pool[0]) - 0.25]
            if len(dcases) % 2 == 1:
                # ONE calculator object reused: other tested values first (never the measured one)
                c0['warmup'] = [p for p in rng.sample([0.25, 0.75, 1.25, 2.5, 3.0], rng.choice([1, 2])) if p != poi]
            dcases.append(c0)
    dex = ['flow %s %d %s %s' % (TS_COQ[c['test_stat']], c['ntoys'], core.q(c['poi']),
                                 core.clist(c['tobs'], lambda t: 'None' if t is None else '(Some %s)' % core.q(t))) for c in dcases]
    try:
        dres = [core.parse_qc(r) for r in core.coq_eval(ctx, 'flow', HEADER_B, dex, shard=10)]
    except core.CoqEvalError as e:
        tie = tie or ('model evaluation failed: %s' % str(e)[-800:])
        dres = None
    for b in backends:
        for i, c in enumerate(dcases):
            stats['dataflow_cases'] += 1
            ref = ref_dataflow(c)
            rep = dict(kind='dataflow', backend=b, case=c)
            im = run_dataflow(c, b)
            if im['exc']:
                report('dataflow-exception:%s:%s' % (b, im['exc'][0]), 'ToyCalculator raised %s: %s' % im['exc'][:2], dict(rep, impl=im['exc']))
                continue
            lg = im['log']
            want_fits = [c['poi'], 1.0 if c['test_stat'] == 'q0' else 0.0]
            reused = bool(c.get('warmup'))      # on a reused calculator only the RESULTS gate (an implementation may legitimately keep the background fit)
            if not reused and (sorted(f['poi'] for f in lg['fits']) != sorted(want_fits) or not all(all(v for k, v in f.items() if k != 'poi') for f in lg['fits'])):
                report('toy-hypotheses:' + c['test_stat'], 'conditional fits were run at POI %r (arguments intact: %r); signal toys need the fit at the tested value %r, background toys at %r'
                       % ([f['poi'] for f in lg['fits']], [all(v for k, v in f.items() if k != 'poi') for f in lg['fits']], want_fits[0], want_fits[1]),
                       dict(rep, impl=lg['fits'], expected=want_fits, theorem='C14_toy_hypotheses'))
            if not reused and (len(lg['draws']) != 2 or any(d[2] != [c['ntoys']] for d in lg['draws']) or len(lg['pdf_pars']) != 2):
                report('toy-draws:' + c['test_stat'], 'expected one draw of %d toys from each of the two pdfs, saw draws %r from pdfs at %r' % (c['ntoys'], lg['draws'], lg['pdf_pars']),
                       dict(rep, impl=dict(draws=lg['draws'], pdf_pars=lg['pdf_pars']), theorem='C14_toy_hypotheses'))
            if not finite(im['sb'] + im['b'] + [im['teststat']]):
                report('toy-statistic-not-finite:' + b, 'toy statistics contain non-finite values', dict(rep, impl=dict(sb=im['sb'], b=im['b'])))
                continue
            if [core.frac(x) for x in im['sb']] != ref['sb'] or [core.frac(x) for x in im['b']] != ref['b']:
                which = 'signal' if [core.frac(x) for x in im['sb']] != ref['sb'] else 'background'
                report('toy-hypotheses:%s:%s' % (c['test_stat'], which),
                       '%s-like toy statistics are not those of samples drawn at the conditional fit of the %s hypothesis (draws %r, pdf parameters %r)'
                       % (which, which, lg['draws'], lg['pdf_pars']),
                       dict(rep, impl=dict(sb=im['sb'], b=im['b'], draws=lg['draws'], pdf_pars=lg['pdf_pars']),
                            expected=dict(sb=[float(x) for x in ref['sb']], b=[float(x) for x in ref['b']]), theorem='C14_toy_hypotheses'))
            for tv, got, want in zip(c['tobs'], im['pvalues'], ref['pvalues']):
                okp = close(want[0], got[0], 1e-12, 0) and close(want[1], got[1], 1e-12, 0) and (want[2] is None or close(want[2], got[2], 1e-12, 0))
                if not okp:
                    report('toy-pvalues:' + b, 'ToyCalculator.pvalues(%r) = %r, tail fractions are %r' % (tv, got, [str(w) for w in want]),
                           dict(rep, impl=got, expected=[str(w) for w in want], theorem='C14_toy_pvalues_are_tail_fractions'))
            if dres is not None:
                msb, mb, mt, mp = dres[i]
                if core.to_frac(msb) != [core.frac(x) for x in im['sb']] or core.to_frac(mb) != [core.frac(x) for x in im['b']] \
                        or F(*mt) != core.frac(im['teststat']):
                    tie = tie or ('Coq model of ToyCalculator.distributions and implementation (%s) disagree on %r' % (b, c))
                for (x, y, z), got, want in zip(mp, im['pvalues'], ref['pvalues']):
                    if not (close(F(*x), got[0], 1e-12, 0) and close(F(*y), got[1], 1e-12, 0) and (want[2] is None or close(F(*z), got[2], 1e-12, 0))):
                        tie = tie or ('Coq model of ToyCalculator.pvalues and implementation (%s) disagree on %r' % (b, c))
            if c['ntoys'] >= 2:
                sigs.add(json.dumps(['flow', b, c]))
            # through the public entry point
            if i % 3 == 0:
                hy = run_dataflow(c, b, via_hypotest=True)
                if hy['exc']:
                    if hy['exc'][2]:
                        report('numpy-percentile-interpolation-kwarg', 'hypotest(calctype="toybased") raises on backend %s: %s' % (b, hy['exc'][1]),
                               dict(rep, via='hypotest', impl=hy['exc'], expected='CLs from the toy distributions'))
                    else:
                        report('dataflow-exception:%s:hypotest:%s' % (b, hy['exc'][0]), 'hypotest(toybased) raised %s: %s' % hy['exc'][:2], dict(rep, via='hypotest', impl=hy['exc']))
                else:
                    w = ref['pvalues'][0]
                    first = w[0] if c['test_stat'] == 'q0' else w[2]
                    got = hy['hypotest']
                    # documented layout (C08): q0 returns CLs+b and [CLb]; otherwise CLs and [CLs+b, CLb]
                    tails = [w[1]] if c['test_stat'] == 'q0' else [w[0], w[1]]
                    tail_ok = len(got[1]) == len(tails) and all(close(a, g, 1e-12, 0) for a, g in zip(tails, got[1]))
                    if not tail_ok or (first is not None and not close(first, got[0], 1e-12, 0)):
                        report('toy-hypotest:%s:%s' % (b, c['test_stat']), 'hypotest(toybased, return_tail_probs) = %r, tail fractions of the toy distributions are %r'
                               % (got, [str(x) for x in w]), dict(rep, via='hypotest', impl=got, expected=[str(x) for x in w], theorem='C14_toy_hypotheses'))
    ctx.log('dataflow done')

    # ---- C. real samplers
    mom = {}
    for b in backends:
        def rp(sig, what, replay):
            report(sig, what, replay)
        mom[b] = sampling_checks(ctx, b, ctx.n(4000, 40000), 12345 + ctx.seed, rp)
        stats['sampling_columns'] += len(mom[b])
        for r in mom[b]:
            sigs.add(json.dumps(['moments', b, r['model'], r['column']]))
    ctx.log('sampling done')

    # ---- D. exact counting experiment
    cfgs = [dict(s=4.0, b=6.5, nobs=9, mu=1.0, test_stat='qtilde'), dict(s=5.0, b=3.0, nobs=7, mu=0.0, test_stat='q0')]
    if not ctx.quick:
        cfgs += [dict(s=4.0, b=6.5, nobs=5, mu=1.5, test_stat='q'), dict(s=3.0, b=10.0, nobs=12, mu=2.0, test_stat='qtilde'),
                 dict(s=6.0, b=2.5, nobs=2, mu=0.5, test_stat='qtilde'), dict(s=5.0, b=8.0, nobs=14, mu=0.0, test_stat='q0')]
    ntoys = ctx.n(6000, 40000)
    cres, goals = [], []
    for k, cfg in enumerate(cfgs):
        try:
            r = counting_case(cfg, ntoys, 777 + k + ctx.seed)
        except Exception as e:   # noqa
            report('counting-exception:' + core.exc_enum(e), 'toy run on the one-bin counting model raised %s: %s' % (core.exc_enum(e), str(e)[:160]), dict(kind='counting', cfg=cfg, ntoys=ntoys))
            continue
        cres.append(r)
        goals += r['goals']
        stats['counting_cases'] += 1
    if goals:
        gfile = os.path.join(ctx.work, 'poisson_tails.v')
        with open(gfile, 'w') as f:
            f.write('From Coq Require Import Reals.\nFrom Interval Require Import Tactic.\nOpen Scope R_scope.\n' + '\n'.join(goals) + '\n')
        rc, out = core.coqc(gfile, timeout=600)
        ctx.checker_cmds.append('coqc %s  (%d interval goals certifying the exact Poisson tail probabilities)' % (os.path.relpath(gfile, core.VERIF), len(goals)))
        if rc != 0:
            tie = tie or ('reference tail probabilities could not be certified: ' + out[-600:])
        else:
            ctx.obligations += len(goals)
            ctx.discharged += len(goals)
    for r in cres:
        cfg = r['cfg']
        rep = dict(kind='counting', cfg=cfg, ntoys=r['ntoys'], seed=r['seed'], backend=r['backend'])
        for nm, got in (('sb', r['clsb']), ('b', r['clb'])):
            p = r['p_' + nm]
            if not binom_ok(got, p, r['ntoys']):
                hyp = 'signal+background (CLs+b)' if nm == 'sb' else 'background-only (CLb)'
                report('toy-tail-probability:%s:%s' % (cfg['test_stat'], nm),
                       'one-bin model s=%g b=%g, n_obs=%d, mu=%g, %s: toy %s = %.5f with %d toys, exact Poisson tail probability %.6f'
                       % (cfg['s'], cfg['b'], cfg['nobs'], cfg['mu'], cfg['test_stat'], hyp, got, r['ntoys'], float(p)),
                       dict(rep, impl=got, expected=float(p), poisson_rate=str(r['lam_' + nm]), accept=r['accept'], reject=r['reject'], theorem='statistical: toy CL vs exact tail'))
        sigs.add(json.dumps(['counting', cfg]))
    ctx.log('counting done')

    # ---- decide
    if tie and not found[0]:
        ctx.violation('tie-broken', tie[:300], dict(kind='tie', detail=tie, theorem='props/C14.v'), nofail=True)
    ctx.coverage.update(
        evaluations=stats['empirical_cases'] + stats['dataflow_cases'] + stats['sampling_columns'] + stats['counting_cases'],
        distinct_nontrivial=len(sigs),
        rule='empirical: sample vectors of 1-40 values (tie-heavy pools, halves, constants, floats; 1-D and 2-D) x 8-10 observed values incl. below/at/above the range, '
             'exact ties and the float just below a sample x 6 nsigma, per backend; non-trivial = more than one sample or a tie. dataflow: test_stat x ntoys x POI with stubbed '
             'fit/sampler/statistic. moments: every main and auxiliary column of 3 models per backend. counting: one-bin models vs certified Poisson tails. distinct by full input',
        corpus_cases=ncorpus, stats=stats, model_disagreements=ndis,
        level_note='proof (partial): tail-fraction arithmetic, sample layout and hypothesis dataflow are proved; the distribution of the samplers is validated statistically only',
        validated_not_proved=['the random samplers of every backend (moments within 6 sigma at fixed seeds; toy CLs+b/CLb within 6 sigma binomial of certified exact tails)'],
        moments={b: [r for r in mom[b] if abs(r['z_mean']) > 3 or abs(r['z_var']) > 3] or 'all %d columns within 3 sigma' % len(mom[b]) for b in mom},
        counting=[dict(cfg=r['cfg'], ntoys=r['ntoys'], clsb=r['clsb'], exact_sb=float(r['p_sb']), clb=r['clb'], exact_b=float(r['p_b']), distinct_datasets=r['distinct_datasets']) for r in cres],
        samples=[dict(empirical=cases[ncorpus], impl={k: v for k, v in impls[backends[0]][ncorpus].items()}),
                 dict(dataflow=dcases[0]), dict(counting=cres[0]['cfg'] if cres else None)])


def replay(body):
    kind = body.get('kind')
    if kind == 'empirical':
        im = impl_empirical(body['case'], body['backend'])
        print(json.dumps(dict(impl=im, expected_pvalues=[str(ref_pvalue(body['case']['vec'], v)) for v in body['case']['obs']]), indent=1, default=str))
    elif kind == 'dataflow':
        im = run_dataflow(body['case'], body['backend'], via_hypotest=body.get('via') == 'hypotest')
        print(json.dumps(dict(impl=im, expected={k: [str(x) for x in v] if isinstance(v, list) else str(v) for k, v in ref_dataflow(body['case']).items()}), indent=1, default=str))
    elif kind == 'counting':
        r = counting_case(body['cfg'], body['ntoys'], body['seed'], body.get('backend', 'numpy'))
        print(json.dumps({k: v for k, v in r.items() if k != 'goals'}, indent=1, default=str))
    elif kind == 'sampling':
        rows = sampling_checks(None, body['backend'], body['nstat'], body['seed'], lambda *a: print('FAIL', a[0], a[1]))
        print(json.dumps(rows, indent=1, default=str))
    else:
        print(body.get('detail'))
    return 0
