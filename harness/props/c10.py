"""C10 - batched evaluation equals row-by-row evaluation."""
import glob
import json
import logging
import os

from harness import core, engine
from harness.props import c01

BACKENDS = [('numpy', '64b'), ('jax', '64b'), ('pytorch', '64b'), ('tensorflow', '64b')]

# every layout in which a caller may hand over the (N, npars) parameter tensor and the (N, ndata) data tensor
LAYOUTS = ['list', 'c-array', 'f-array', 'transposed-view', 'strided-slice']

# the whole of Model.expected_data (main part ++ auxiliary part) of the batched model, evaluated in Coq (BatchAux.v)
HEADER = engine.HEADER + '''Require Import PV.Batch PV.BatchAux.
Definition run_batched_whole (tbl : itbl) (sp : qspec) (st : settings QcNum) (rows : list (list Qc)) :=
  match build QcNum sp with
  | Err e => inl (err_code e)
  | Ok m => inr (reads_in_range QcNum sp (cfg_channels QcNum sp) (cfg_samples QcNum sp) (cfg_modifiers QcNum sp) m,
                 nmaindata QcNum sp,
                 qoutss (expected_data_batched QcNum q_interp_add (interp_mul_q tbl) sp st m rows))
  end.
'''


def lay(mat, layout, backend):
    """the matrix `mat` (list of equal-length rows) as the tensor a caller would pass in the given layout"""
    import numpy as np
    a = np.array(mat, dtype=float)
    if layout == 'list':
        return mat
    if layout == 'c-array':
        x = np.ascontiguousarray(a)
    elif layout == 'f-array':
        x = np.asfortranarray(a)
    elif layout == 'transposed-view':
        x = np.ascontiguousarray(a.T).T                 # a view with swapped strides of a (npars, N) array
    elif layout == 'strided-slice':
        big = np.full((2 * a.shape[0] + 1, 2 * a.shape[1] + 1), 7.75)      # every second row and column of a larger array
        x = big[1::2, 1::2]
        x[...] = a
    elif layout == 'native-transposed':                 # the backend's own tensor type as a transposed (non-contiguous) view
        import pyhf
        if backend == 'pytorch':
            import torch
            return torch.tensor(np.ascontiguousarray(a.T), dtype=torch.float64).t()
        return pyhf.tensorlib.transpose(pyhf.tensorlib.astensor(np.ascontiguousarray(a.T)))
    else:
        raise ValueError(layout)
    assert x.shape == a.shape and (x == a).all()
    return x


def layouts_for(backend, prng, quick):
    if backend == 'numpy':
        return LAYOUTS[1:]
    ls = ['f-array', 'native-transposed']
    return ls if not quick else ls[:1] + ([ls[1]] if prng.random() < 0.5 else [])


def gen_cases(ctx, n):
    """half of the specs from the general generator, half stratified over ALL combinations of the constrained modifier
    families (shapesys-only, staterror-only, both; with and without alpha parameters; with and without lumi)"""
    rng = ctx.rng
    cases = c01.gen_cases(ctx, n - n // 2)
    combos = engine.CONSTRAINED_COMBOS
    off = rng.randrange(len(combos))
    for i in range(n // 2):
        combo = combos[(i + off) % len(combos)]
        prof = combo + tuple(f for f in ('normfactor', 'shapefactor') if rng.random() < (0.7 if f == 'normfactor' else 0.25))
        spec, poi = engine.gen_spec(rng, profile=prof)
        st = dict(rng.choice(c01.SETTINGS))
        if rng.random() < 0.15:
            st['clip_bin'] = engine.dy(rng, 0, 5)
        cases.append(dict(spec=spec, poi=poi, st=st, profile=list(combo)))
    # interleave, so that every backend of the rotation sees both kinds
    a, b = cases[:n - n // 2], cases[n - n // 2:]
    out = []
    while a or b:
        if a:
            out.append(a.pop(0))
        if b:
            out.append(b.pop(0))
    return out


def families_of(spec):
    ts = {m['type'] for c in spec['channels'] for s in c['samples'] for m in s['modifiers']}
    fams = []
    for f in ('shapesys', 'staterror'):
        if f in ts:
            fams.append(f)
    if ts & {'normsys', 'histosys'}:
        fams.append('alpha')
    if 'lumi' in ts:
        fams.append('lumi')
    return '+'.join(fams) or 'unconstrained'


def same(a, b):
    return a == b or (a != a and b != b) or abs(a - b) <= 1e-10 * max(1.0, abs(a), abs(b))


def same_mat(x, y):
    return len(x) == len(y) and all(len(p) == len(q) and all(same(u, v) for u, v in zip(p, q)) for p, q in zip(x, y))


def load_corpus():
    out = []
    if os.environ.get('VERIF_NO_CORPUS'):        # (testing the generator alone)
        return out
    for f in sorted(glob.glob(os.path.join(core.VERIF, 'corpus', 'C10', '*.json'))):
        out.append(json.load(open(f)))
    return out


def run(ctx):
    import pyhf
    logging.getLogger('pyhf').setLevel(logging.CRITICAL)
    rng = ctx.rng
    ok, txt = core.prove(ctx, extra=['EngineRun.vo', 'BatchAux.vo'])
    tie = None if ok else 'proof obligations of props/C10.v no longer check: ' + txt[-1500:]
    n = ctx.n(70, 1200)
    corpus = load_corpus()
    cases = corpus + gen_cases(ctx, n)
    found = False
    exprs, impls = [], []
    sigs = set()
    evaluations = 0
    stats = dict(batch_sizes={}, backends={}, layouts={}, constrained_families={}, corpus=len(corpus))
    for ci, case in enumerate(cases):
        spec, poi, st = case['spec'], case['poi'], case['st']
        st = {k: v for k, v in st.items() if k in ('normsys', 'histosys', 'clip_bin')}
        case['st'] = st
        prng = core.random.Random(rng.randrange(1 << 30))
        nb = case.get('batch_size') or prng.choice([1, 2, 2, 3, 4, 5, 8])
        gi = ci - len(corpus)
        be = BACKENDS[0] if ctx.quick and gi % 4 else BACKENDS[1 + (gi // 4 + ctx.seed) % 3] if ctx.quick else BACKENDS[(gi + ctx.seed) % 4]
        if ci < len(corpus):
            be = tuple(case.get('backend') or BACKENDS[0])
        stats['batch_sizes'][nb] = stats['batch_sizes'].get(nb, 0) + 1
        stats['backends'][be[0]] = stats['backends'].get(be[0], 0) + 1
        fam = families_of(spec)
        stats['constrained_families'][fam] = stats['constrained_families'].get(fam, 0) + 1
        c01.set_backend(*be)
        try:
            m1 = engine.impl_build(spec, poi, st)
            mb = engine.impl_build(spec, poi, st, batch_size=nb)
        except Exception as e:
            ctx.violation('batched-build:' + core.exc_enum(e), 'batched model construction fails: ' + str(e)[:200], dict(case=case, batch_size=nb, backend=be))
            found = True
            impls.append(None)
            exprs.append(None)
            continue
        cfg = engine.impl_config(m1)
        if case.get('rows'):
            rows = case['rows']
        else:
            rows = [engine.gen_point(prng, spec, cfg) for _ in range(nb)]
            rows = [[abs(p) if t != 'normal' or nme == 'lumi' or nme.startswith('staterror') else p
                     for p, (nme, t) in zip(r, [(nn, tt) for nn, (a, b), tt in zip(cfg['par_order'], cfg['par_slices'], cfg['ptypes']) for _ in range(b - a)])] for r in rows]
        datas = [[engine.dy(prng, 0, 50, 1.0) for _ in range(cfg['nmaindata'])] + [engine.dy(prng, 0.25, 3, 0.25) for _ in range(cfg['nauxdata'])] for _ in range(nb)]
        evaluations += nb
        nmain = cfg['nmaindata']
        try:
            # row by row on the unbatched model: the reference of the property
            e1 = [[float(x) for x in engine.tolist(m1.expected_data(r))] for r in rows]
            a1 = [[float(x) for x in engine.tolist(m1.expected_actualdata(r))] for r in rows]
            x1 = [[float(x) for x in engine.tolist(m1.expected_auxdata(r))] for r in rows] if cfg['nauxdata'] else [[] for _ in rows]
            l1 = [float(engine.tolist(m1.logpdf(r, d))[0]) for r, d in zip(rows, datas)]
            # batched, parameters and data as lists of lists
            eb = [[float(x) for x in r] for r in engine.tolist(mb.expected_data(rows))]
            ab = [[float(x) for x in r] for r in engine.tolist(mb.expected_actualdata(rows))]
            xb = [[float(x) for x in r] for r in engine.tolist(mb.expected_auxdata(rows))] if cfg['nauxdata'] else [[] for _ in rows]
            nb_ = [[float(x) for x in r] for r in engine.tolist(mb.expected_data(rows, include_auxdata=False))]
            lb = [float(x) for x in engine.tolist(mb.logpdf(rows, datas))]
            try:      # sampling needs valid (non-negative) rates; when the row-wise model cannot sample either, skip the shape check
                shp1 = tuple(pyhf.tensorlib.shape(m1.make_pdf(pyhf.tensorlib.astensor(rows[0])).sample((3,))))
                ok_rows = all(min(r) >= 0 for r in e1)
            except Exception:
                shp1, ok_rows = None, False
            shp = tuple(pyhf.tensorlib.shape(mb.make_pdf(pyhf.tensorlib.astensor(rows)).sample((3,)))) if ok_rows else None
        except Exception as e:
            ctx.violation('batched-eval:' + core.exc_enum(e), 'batched evaluation fails: ' + str(e)[:200], dict(case=case, batch_size=nb, rows=rows, backend=be))
            found = True
            impls.append(None)
            exprs.append(None)
            continue
        bad = []
        if not same_mat(eb, e1):
            # name the part that differs: the main part, or only the auxiliary part (expected values of the constraint terms)
            main_ok = same_mat([r[:nmain] for r in eb], [r[:nmain] for r in e1]) and all(len(r) == len(q) for r, q in zip(eb, e1))
            bad.append('expected_data:aux' if main_ok else 'expected_data')
        if not same_mat(ab, a1):
            bad.append('expected_actualdata')
        if not same_mat(nb_, a1):
            bad.append('expected_data(include_auxdata=False)')
        if not same_mat(xb, x1):
            bad.append('expected_auxdata')
        if not (len(lb) == nb and all(same(p, q) for p, q in zip(lb, l1))):
            bad.append('logpdf')
        if shp is not None and (shp != (3, nb, len(e1[0])) or shp1 != (3, len(e1[0]))):
            bad.append('sample-shape %r / %r' % (shp, shp1))
        if bad:
            ctx.violation('batched-differs:' + bad[0].split(' ')[0], 'batched model differs from row-by-row evaluation in ' + ', '.join(bad),
                          dict(case=case, batch_size=nb, rows=rows, datas=datas, backend=be, layout='list', batched=dict(expected=eb, logpdf=lb),
                               rowwise=dict(expected=e1, logpdf=l1), impl=dict(expected=eb, logpdf=lb), expected=dict(expected=e1, logpdf=l1),
                               theorem='C10_batched_expected_data_whole'))
            found = True
        # the same tensors handed over in every other memory layout
        for layout in ([] if bad else layouts_for(be[0], prng, ctx.quick)):      # (a failure above is reported once, not once per layout)
            stats['layouts'][be[0] + ':' + layout] = stats['layouts'].get(be[0] + ':' + layout, 0) + 1
            try:
                P, D = lay(rows, layout, be[0]), lay(datas, layout, be[0])
                el = [[float(x) for x in r] for r in engine.tolist(mb.expected_data(P))]
                ll = [float(x) for x in engine.tolist(mb.logpdf(P, D))]
            except Exception as e:
                ctx.violation('batched-eval:%s:%s' % (layout, core.exc_enum(e)), 'batched evaluation fails for parameters given as %s: %s' % (layout, str(e)[:200]),
                              dict(case=case, batch_size=nb, rows=rows, datas=datas, backend=be, layout=layout))
                found = True
                continue
            lbad = (['expected_data'] if not same_mat(el, e1) else []) + (['logpdf'] if not (len(ll) == nb and all(same(p, q) for p, q in zip(ll, l1))) else [])
            if lbad:
                ctx.violation('batched-differs:%s:%s' % (lbad[0], layout),
                              'batched model given the parameter/data tensors as %s differs from row-by-row evaluation in %s' % (layout, ', '.join(lbad)),
                              dict(case=case, batch_size=nb, rows=rows, datas=datas, backend=be, layout=layout, impl=dict(expected=el, logpdf=ll),
                                   expected=dict(expected=e1, logpdf=l1), theorem='C10_batched_expected_data_whole'))
                found = True
        impls.append(dict(eb=eb, rows=rows, nmain=nmain))
        if engine.nontrivial(spec):
            sigs.add(engine.shape_signature(spec) + str(nb))
        exprs.append('run_batched_whole [] %s %s %s' % (engine.spec_to_coq(spec, poi), engine.settings_to_coq(st), core.clist(rows, engine.qlist)))
    c01.set_backend('numpy', '64b')
    idx = [i for i, e in enumerate(exprs) if e is not None]
    ndis = 0
    notrange = 0
    try:
        res = dict(zip(idx, core.coq_eval(ctx, 'batched', HEADER, [exprs[i] for i in idx], shard=12)))
        for i in idx:
            v = core.parse_qc(res[i])
            if v[0] == 'inl':
                ndis += 1
                tie = tie or 'model refuses a spec the implementation builds: %s' % v[1]
                continue
            inrange, mnmain, mrows = v[1][0], v[1][1], v[1][2]
            if inrange != 'true':
                notrange += 1
                tie = tie or 'cross-check of C10_reads_in_range_accepted (reads_in_range) is false on a generated model'
                ctx.coverage.setdefault('first_disagreement', dict(case=cases[i], what='reads_in_range = false'))
            mexp = [[engine.F(x) for x in r] for r in mrows]
            # main part and auxiliary part of the batched expected data against the Coq model
            d = [dd for a, b in zip(impls[i]['eb'], mexp) for dd in engine.diff_vec('row', a, b)]
            if d or len(mexp) != len(impls[i]['eb']) or mnmain != impls[i]['nmain']:
                ndis += 1
                ctx.coverage.setdefault('first_disagreement', dict(case=cases[i], rows=impls[i]['rows'], diffs=str(d[:2])[:500]))
                tie = tie or 'batched model and implementation disagree: %r' % (d[:1],)
    except core.CoqEvalError as e:
        tie = tie or ('model evaluation failed: ' + str(e)[-1200:])
    if tie and not found:
        ctx.violation('tie-broken', tie[:300], dict(kind='tie', detail=tie, theorem='props/C10.v / batched correspondence',
                                                     first_disagreement=ctx.coverage.get('first_disagreement')), nofail=True)
    ctx.coverage.update(evaluations=evaluations, distinct_nontrivial=len(sigs), stats=stats, model_impl_disagreements=ndis, premise_false=notrange,
                        rule='corpus, then specs half from the C01 generator and half stratified over all 12 combinations of the constrained '
                             'modifier families (shapesys / staterror / both x alpha x lumi) x batch sizes 1..8 x distinct rows (positive factors) x '
                             'backend rotation: batched expected_data (main AND auxiliary part), expected_actualdata, expected_auxdata, '
                             'expected_data(include_auxdata=False), logpdf against the unbatched model row by row (1e-10), sample shapes (3, N, ndata); '
                             'parameter and data tensors handed over as list of lists and (numpy) C-ordered, Fortran-ordered, transposed-view and '
                             'strided-slice arrays, (other backends) Fortran-ordered numpy array and the backend\'s own transposed view; the Coq '
                             'batched model (flat index arithmetic; main ++ auxiliary part) against pyhf; premise reads_in_range evaluated for '
                             'every generated model',
                        samples=[dict(spec=cases[0]['spec'], rows=(impls[0] or {}).get('rows'))])


def replay(body):
    import pyhf
    logging.getLogger('pyhf').setLevel(logging.CRITICAL)
    case = body['case']
    be = tuple(body.get('backend') or ('numpy', '64b'))
    c01.set_backend(*be)
    layout = body.get('layout') or 'list'
    m1 = engine.impl_build(case['spec'], case['poi'], case['st'])
    mb = engine.impl_build(case['spec'], case['poi'], case['st'], batch_size=body['batch_size'])
    rows = body['rows']
    out = dict(layout=layout, backend=list(be))
    out['batched_expected_data'] = engine.tolist(mb.expected_data(lay(rows, layout, be[0])))
    out['rowwise_expected_data'] = [engine.tolist(m1.expected_data(r)) for r in rows]
    if body.get('datas'):
        out['batched_logpdf'] = engine.tolist(mb.logpdf(lay(rows, layout, be[0]), lay(body['datas'], layout, be[0])))
        out['rowwise_logpdf'] = [engine.tolist(m1.logpdf(r, d))[0] for r, d in zip(rows, body['datas'])]
    out['equal'] = same_mat([[float(x) for x in r] for r in out['batched_expected_data']], [[float(x) for x in r] for r in out['rowwise_expected_data']])
    print(json.dumps(out, indent=1, default=str))
    return 0
