"""C10 - batched evaluation equals row-by-row evaluation."""
import json
import logging

from harness import core, engine
from harness.props import c01

BACKENDS = [('numpy', '64b'), ('jax', '64b'), ('pytorch', '64b'), ('tensorflow', '64b')]


def run(ctx):
    import pyhf
    logging.getLogger('pyhf').setLevel(logging.CRITICAL)
    rng = ctx.rng
    ok, txt = core.prove(ctx, extra=['EngineRun.vo'])
    tie = None if ok else 'proof obligations of props/C10.v no longer check: ' + txt[-1500:]
    n = ctx.n(70, 1200)
    cases = c01.gen_cases(ctx, n)
    found = False
    exprs, impls = [], []
    sigs = set()
    evaluations = 0
    stats = dict(batch_sizes={}, backends={})
    for ci, case in enumerate(cases):
        spec, poi, st = case['spec'], case['poi'], case['st']
        st = {k: v for k, v in st.items() if k in ('normsys', 'histosys', 'clip_bin')}
        case['st'] = st
        prng = core.random.Random(rng.randrange(1 << 30))
        nb = prng.choice([1, 2, 2, 3, 4, 5, 8])
        be = BACKENDS[0] if ctx.quick and ci % 4 else BACKENDS[1 + (ci // 4 + ctx.seed) % 3] if ctx.quick else BACKENDS[(ci + ctx.seed) % 4]
        stats['batch_sizes'][nb] = stats['batch_sizes'].get(nb, 0) + 1
        stats['backends'][be[0]] = stats['backends'].get(be[0], 0) + 1
        c01.set_backend(*be)
        try:
            m1 = engine.impl_build(spec, poi, st)
            mb = engine.impl_build(spec, poi, st, batch_size=nb)
        except Exception as e:
            ctx.violation('batched-build:' + core.exc_enum(e), 'batched model construction fails: ' + str(e)[:200], dict(case=case, batch_size=nb, backend=be))
            found = True
            impls.append(None)
            exprs.append(None)
            continue
        cfg = engine.impl_config(m1)
        rows = [engine.gen_point(prng, spec, cfg) for _ in range(nb)]
        rows = [[abs(p) if t != 'normal' or nme == 'lumi' or nme.startswith('staterror') else p
                 for p, (nme, t) in zip(r, [(nn, tt) for nn, (a, b), tt in zip(cfg['par_order'], cfg['par_slices'], cfg['ptypes']) for _ in range(b - a)])] for r in rows]
        datas = [[engine.dy(prng, 0, 50, 1.0) for _ in range(cfg['nmaindata'])] + [engine.dy(prng, 0.25, 3, 0.25) for _ in range(cfg['nauxdata'])] for _ in range(nb)]
        evaluations += nb
        try:
            eb = [[float(x) for x in r] for r in engine.tolist(mb.expected_data(rows))]
            e1 = [[float(x) for x in engine.tolist(m1.expected_data(r))] for r in rows]
            ab = [[float(x) for x in r] for r in engine.tolist(mb.expected_actualdata(rows))]
            a1 = [[float(x) for x in engine.tolist(m1.expected_actualdata(r))] for r in rows]
            lb = [float(x) for x in engine.tolist(mb.logpdf(rows, datas))]
            l1 = [float(engine.tolist(m1.logpdf(r, d))[0]) for r, d in zip(rows, datas)]
            try:      # sampling needs valid (non-negative) rates; when the row-wise model cannot sample either, skip the shape check
                shp1 = tuple(pyhf.tensorlib.shape(m1.make_pdf(pyhf.tensorlib.astensor(rows[0])).sample((3,))))
                ok_rows = all(min(r) >= 0 for r in e1)
            except Exception:
                shp1, ok_rows = None, False
            shp = tuple(pyhf.tensorlib.shape(mb.make_pdf(pyhf.tensorlib.astensor(rows)).sample((3,)))) if ok_rows else None
        except Exception as e:
            ctx.violation('batched-eval:' + core.exc_enum(e), 'batched evaluation fails: ' + str(e)[:200], dict(case=case, batch_size=nb, rows=rows, backend=be))
            found = True
            impls.append(None)
            exprs.append(None)
            continue
        def same(a, b):
            return a == b or (a != a and b != b) or abs(a - b) <= 1e-10 * max(1.0, abs(a), abs(b))
        bad = []
        if not (len(eb) == nb and all(len(x) == len(y) and all(same(p, q) for p, q in zip(x, y)) for x, y in zip(eb, e1))):
            bad.append('expected_data')
        if not (len(ab) == nb and all(len(x) == len(y) and all(same(p, q) for p, q in zip(x, y)) for x, y in zip(ab, a1))):
            bad.append('expected_actualdata')
        if not (len(lb) == nb and all(same(p, q) for p, q in zip(lb, l1))):
            bad.append('logpdf')
        if shp is not None and (shp != (3, nb, len(e1[0])) or shp1 != (3, len(e1[0]))):
            bad.append('sample-shape %r / %r' % (shp, shp1))
        if bad:
            ctx.violation('batched-differs:' + bad[0].split(' ')[0], 'batched model differs from row-by-row evaluation in ' + ', '.join(bad),
                          dict(case=case, batch_size=nb, rows=rows, datas=datas, backend=be, batched=dict(expected=eb, logpdf=lb), rowwise=dict(expected=e1, logpdf=l1),
                               theorem='C10_batched_expected_data'))
            found = True
        impls.append(dict(ab=ab, rows=rows))
        if engine.nontrivial(spec):
            sigs.add(engine.shape_signature(spec) + str(nb))
        exprs.append('run_batched [] %s %s %s' % (engine.spec_to_coq(spec, poi), engine.settings_to_coq(st), core.clist(rows, engine.qlist)))
    c01.set_backend('numpy', '64b')
    idx = [i for i, e in enumerate(exprs) if e is not None]
    ndis = 0
    notrange = 0
    try:
        res = dict(zip(idx, core.coq_eval(ctx, 'batched', engine.HEADER, [exprs[i] for i in idx], shard=12)))
        for i in idx:
            v = core.parse_qc(res[i])
            if v[0] == 'inl':
                ndis += 1
                tie = tie or 'model refuses a spec the implementation builds: %s' % v[1]
                continue
            inrange, mrows = v[1][0], v[1][1]
            if inrange != 'true':
                notrange += 1
                tie = tie or 'cross-check of C10_reads_in_range_accepted (reads_in_range) is false on a generated model'
                ctx.coverage.setdefault('first_disagreement', dict(case=cases[i], what='reads_in_range = false'))
            mexp = [[engine.F(x) for x in r] for r in mrows]
            d = [dd for a, b in zip(impls[i]['ab'], mexp) for dd in engine.diff_vec('row', a, b)]
            if d or len(mexp) != len(impls[i]['ab']):
                ndis += 1
                ctx.coverage.setdefault('first_disagreement', dict(case=cases[i], rows=impls[i]['rows'], diffs=str(d[:2])[:500]))
                tie = tie or 'batched model and implementation disagree: %r' % (d[:1],)
    except core.CoqEvalError as e:
        tie = tie or ('model evaluation failed: ' + str(e)[-1200:])
    if tie and not found:
        ctx.violation('tie-broken', tie[:300], dict(kind='tie', detail=tie, theorem='props/C10.v / batched correspondence',
                                                     first_disagreement=ctx.coverage.get('first_disagreement')), nofail=True)
    ctx.coverage.update(evaluations=evaluations, distinct_nontrivial=len(sigs), stats=stats, model_impl_disagreements=ndis, premise_false=notrange,
                        rule='C01 spec generator x batch sizes 1..8 x distinct rows (positive factors) x backend rotation: batched expected_data, '
                             'expected_actualdata, logpdf against the unbatched model row by row (1e-10), sample shapes (3, N, ndata); the Coq '
                             'batched model (flat index arithmetic) against pyhf; premise reads_in_range evaluated for every generated model',
                        samples=[dict(spec=cases[0]['spec'], rows=(impls[0] or {}).get('rows'))])


def replay(body):
    import pyhf
    case = body['case']
    c01.set_backend(*body.get('backend', ('numpy', '64b')))
    mb = engine.impl_build(case['spec'], case['poi'], case['st'], batch_size=body['batch_size'])
    print(engine.tolist(mb.expected_data(body['rows'])))
    return 0
