"""C12 - tie to the source: pyhf/mixins.py (_ChannelSummaryMixin.__init__: the sorted channel / sample / modifier lists, channel_nbins, the running
sum of channel_slices) translated to coq/gen/ConfigGen.v on every run (translator: harness/props/tie_translate.py, class Exec3; fail closed).
The proof that the translated definition equals cfg_channels / cfg_samples / cfg_modifiers / nbins / channel_slices of coq/Impl.v is in
coq/TieConfig.v; the theorem C12_source_is_model_channel_summary in coq/props/C12.v."""
import ast
import os

from harness import core, facts
from harness.props import tie_translate as tt

GEN_NAME = 'ConfigGen'
STR, NAT = tt.STR, tt.NAT
PAIR = tt.PROD(STR, STR)
REL = 'mixins.py'

GEN_HEADER = '''From Coq Require Import Bool Arith String List.
Require Import PV.Num PV.Sort PV.Spec PV.Impl.
Import ListNotations.
Local Open Scope nat_scope.
Local Open Scope list_scope.
(* GENERATED on every run by harness/props/c12_tie.py from $VERIF_REPO/src/pyhf/mixins.py - do not edit.
   Reading of the python values (the trusted part of the translation):
   * `channels` (kwargs.pop('channels')) is the list of channel documents of PV.Spec; d['type'] on a modifier is the text of its type (tyname);
     super().__init__ is not translated;
   * a dict with text keys is an association list in insertion order: d[k] = v is dict_set (the value of a key already present is replaced in
     place), d[k] is dict_get (0 for a missing key: KeyError is not modelled - the source reads only keys it has stored), a dict comprehension is
     dict_of_pairs of its pairs;
   * set(l) is a duplicate-free enumeration of l (nodup; python fixes no order, the source only sorts it), sorted(..) of texts / pairs of texts
     is ssort / psort on the element itself (String.leb / pair_leb: python's order of ASCII text); slice(a, b) is the pair (a, b); l[0] is nth 0
     with a default whose data is empty; `for` loops are fold_left over the variables and attributes they update. *)
Section Gen.
Variable N : Num.
Notation channel := (channel N). Notation sample := (sample N). Notation modifier := (modifier N).
Definition mtyname (m : modifier) : string := tyname (m_type m).
Definition dflt_modifier : modifier := {| m_name := ""; m_type := Normfactor; m_data := MDNone |}.
Definition dflt_sample : sample := {| s_name := ""; s_data := []; s_mods := [] |}.
Definition dflt_channel : channel := {| c_name := ""; c_samples := [] |}.
Fixpoint dict_set {B} (k : string) (v : B) (d : list (string * B)) : list (string * B) :=         (* d[k] = v *)
  match d with [] => [(k, v)] | kv :: t => if String.eqb k (fst kv) then (fst kv, v) :: t else kv :: dict_set k v t end.
Fixpoint dict_get (d : list (string * nat)) (k : string) : nat :=                                  (* d[k] *)
  match d with [] => 0 | kv :: t => if String.eqb k (fst kv) then snd kv else dict_get t k end.
Definition dict_of_pairs {B} (l : list (string * B)) : list (string * B) := fold_left (fun d kv => dict_set (fst kv) (snd kv) d) l [].
'''

RECORDS = {'modifier': {'name': ('m_name', STR), 'type': ('mtyname', STR)},
           'sample': {'name': ('s_name', STR), 'data': ('s_data', tt.LIST('V N')), 'modifiers': ('s_mods', tt.LIST('modifier'))},
           'channel': {'name': ('c_name', STR), 'samples': ('c_samples', tt.LIST('sample'))}}
SKIPPED = {"channels = kwargs.pop('channels')", 'super().__init__(*args, **kwargs)'}


def is_sdict(v):
    return isinstance(v, tt.T) and isinstance(v.ty, tuple) and v.ty[0] == 'dict' and v.ty[1] == STR


class CX(tt.Exec3):
    records = RECORDS
    rec_order = {'modifier': ['m_name', 'm_type', 'm_data'], 'sample': ['s_name', 's_data', 's_mods'], 'channel': ['c_name', 'c_samples']}
    rec_open = ('modifier', 'sample', 'channel')
    rec_dflt = {k: 'dflt_' + k for k in RECORDS}

    def global_name(self, name, st):
        if name in ('len', 'sorted', 'list', 'set', 'slice'):
            return tt.Ext(name)
        raise tt.TB('unknown name %s' % name)

    def skip_stmt(self, s, st):
        return ast.unparse(s) in SKIPPED

    def as_typed(self, v, ty):
        if ty == NAT and isinstance(v, tt.S) and isinstance(v.v, int) and not isinstance(v.v, bool) and v.v >= 0:
            return tt.mk('%d' % v.v, NAT, 2)
        return super().as_typed(v, ty)

    def call_builtin(self, f, args, kwargs, e, st):
        tag = f.tag
        a = args[0] if len(args) == 1 and not kwargs else None
        if a is not None and isinstance(a, tt.Lst) and a.items:
            a = self.as_term(a)
        if tag == 'set' and tt.is_seq(a) and a.ty[1] in (STR, PAIR):
            return tt.mk('(nodup %s %s)' % ('string_dec' if a.ty[1] == STR else 'pair_dec', a.s), tt.SET(a.ty[1]), 2)
        if tag == 'list' and tt.is_seq(a):
            return tt.mk(a.s, tt.LIST(a.ty[1]), 2)
        if tag == 'sorted' and tt.is_seq(a) and a.ty[0] == 'list' and a.ty[1] in (STR, PAIR):
            return tt.mk('(%s (fun x => x) %s)' % ('ssort' if a.ty[1] == STR else 'psort', a.s), a.ty, 2)
        if tag == 'slice' and len(args) == 2 and not kwargs and all(isinstance(x, tt.T) and x.ty == NAT or (isinstance(x, tt.S) and isinstance(x.v, int)) for x in args):
            return tt.mk('(%s, %s)' % tuple(self.as_typed(x, NAT).s for x in args), tt.PROD(NAT, NAT), 2)
        return super().call_builtin(f, args, kwargs, e, st)

    def expr(self, e, st):
        if isinstance(e, ast.DictComp):
            if len(e.generators) != 1 or e.generators[0].ifs or e.generators[0].is_async or not isinstance(e.generators[0].target, ast.Name):
                raise tt.TB('dict comprehension shape (line %d)' % e.lineno)
            g = e.generators[0]
            it = self.iter_term(self.expr(g.iter, st), e)
            var = 'x_' + g.target.id
            st2 = st.copy()
            st2.env[g.target.id] = tt.mk(var, it.ty[1], 2)
            k, v = self.expr(e.key, st2), self.as_term(self.expr(e.value, st2))
            if self.pending:
                raise tt.TB('raising call inside a comprehension (line %d)' % e.lineno)
            return tt.mk('(dict_of_pairs (map (fun %s => (%s, %s)) %s))' % (var, self.strterm(k, e), v.s, it.s), tt.DICT(STR, v.ty), 2)
        return super().expr(e, st)

    def subscript(self, base, idx, node):
        if is_sdict(base) and base.ty[2] == NAT and self.is_str(idx):
            return tt.T('(dict_get %s %s)' % (base.s, self.strterm(idx)), NAT)
        return super().subscript(base, idx, node)

    def set_in(self, cur, steps, val, node):
        if len(steps) == 1 and steps[0][0] == 'dkey' and self.is_str(steps[0][1]):
            v = self.as_term(val) if not (isinstance(val, tt.S) and isinstance(val.v, int)) else self.as_typed(val, NAT)
            if isinstance(cur, tt.Dct) and not cur.items:
                cur = tt.mk('[]', tt.DICT(STR, v.ty), 2)
            if is_sdict(cur) and tt.coqty3(cur.ty[2]) == tt.coqty3(v.ty):
                return tt.mk('(dict_set %s %s %s)' % (self.strterm(steps[0][1]), v.s, cur.s), cur.ty, 2)
        return super().set_in(cur, steps, val, node)


def generate():
    tree, path = facts.parse(REL)
    cls = facts.find_class(tree, '_ChannelSummaryMixin')
    fn = facts.find_func(cls, '__init__')
    a = fn.args
    if [x.arg for x in a.args] != ['self'] or a.vararg is None or a.vararg.arg != 'args' or a.kwarg is None or a.kwarg.arg != 'kwargs' or a.kwonlyargs or a.posonlyargs:
        raise tt.TB('_ChannelSummaryMixin.__init__: signature changed')
    if not any(ast.unparse(s) == "channels = kwargs.pop('channels')" for s in fn.body):
        raise tt.TB('_ChannelSummaryMixin.__init__ does not take its channels from kwargs')
    x = CX({cls.name: cls})
    x.cls = cls
    x.locals = tt.assigned_locals(fn) - {'channels'}
    o = x.block(fn.body, tt.St(env={'channels': tt.mk('channels', tt.LIST('channel'), 0), 'args': tt.Ext('args'), 'kwargs': tt.Ext('kwargs')}))
    want = [('_channels', tt.LIST(STR)), ('_samples', tt.LIST(STR)), ('_modifiers', tt.LIST(PAIR)), ('_channel_nbins', tt.DICT(STR, NAT)),
            ('_channel_slices', tt.DICT(STR, tt.PROD(NAT, NAT)))]

    def fall(st):
        if set(st.attrs) != {k for k, _ in want}:
            raise tt.TB('_ChannelSummaryMixin.__init__ leaves the attributes %r' % sorted(st.attrs))
        return tt.T('(' + ', '.join(x.as_typed(st.attrs[k], ty).s for k, ty in want) + ')', 'summary')
    body, r = x.render_fn(o, None, fall)
    if r:
        raise tt.TB('_ChannelSummaryMixin.__init__ can raise')
    # the properties the rest of pyhf reads return these attributes unchanged
    for prop, attr in (('channels', '_channels'), ('samples', '_samples'), ('modifiers', '_modifiers'), ('channel_nbins', '_channel_nbins'), ('channel_slices', '_channel_slices')):
        m = x.class_member(cls, prop)
        ret = x.single_return(m[0]) if m is not None and m[1] else None
        if ret is None or ast.unparse(ret) != 'self.' + attr:
            raise tt.TB('property %s does not return self.%s' % (prop, attr))
    text = GEN_HEADER + '\n' + tt.source_comment(REL, fn, path)
    text += ('Definition gen_channel_summary (channels : list channel)\n'
             '  : list string * list string * list (string * string) * list (string * nat) * list (string * (nat * nat)) :=\n  %s.\nEnd Gen.\n' % body)
    return text, dict(gen_channel_summary=True)


def extract(ctx):
    text, info = generate()
    core.write_if_changed(os.path.join(core.COQ, 'gen', GEN_NAME + '.v'), text)
    return dict(file='coq/gen/%s.v' % GEN_NAME, definitions=sorted(info))
