"""C19 - the command line returns what the library returns.

proof part (partial by nature): fact tables extracted from src/pyhf/cli/*.py on every run (coq/gen/FactsC19.v): per click command
    its declared options/arguments and, by a conservative syntactic dataflow over the command body, where each parameter flows
    (call arguments, subscripts, conditions).  Theorems by computation on the table: every option is consumed; every option the
    property names reaches the documented library-call argument (coq/Cli.v: `documented`).  Model-level: file_equals_stdout,
    exit_iff_library_ok, render insensitive to key order.
validation (the larger share): click's CliRunner on pyhf.cli.cli and `python -m pyhf.cli` subprocesses versus the direct library
    calls over option cross-products, input via file and stdin, output via --output-file and stdout.
"""
import ast
import copy
import hashlib
import itertools
import json
import os
import shutil
import subprocess
import sys

from harness import core, facts

CLI_FILES = [('infer.py', ''), ('spec.py', ''), ('patchset.py', 'patchset '), ('rootio.py', '')]
OPTION_KW = {'help', 'default', 'type', 'is_flag', 'multiple', 'metavar'}
LOGGING = ('log.debug', 'log.info', 'log.warning', 'log.error')


# ----------------------------------------------------------------------------------------------------------------------
# extraction
def click_param_name(decls, is_arg):
    """click's own rule (Option._parse_decls / Argument._parse_decls)"""
    if is_arg:
        if len(decls) != 1:
            raise facts.TieBroken('argument with %d declarations' % len(decls))
        return decls[0].replace('-', '_').lower()
    explicit = [d for d in decls if d.isidentifier()]
    if len(explicit) > 1:
        raise facts.TieBroken('option with two explicit names %r' % decls)
    if explicit:
        return explicit[0]
    possible = []
    for d in decls:
        first = d.split('/')[0].strip()
        prefix = first[:len(first) - len(first.lstrip('-'))]
        if not prefix:
            raise facts.TieBroken('unrecognised option declaration %r' % d)
        possible.append((len(prefix), first[len(prefix):]))
    possible.sort(key=lambda x: -x[0])
    return possible[0][1].replace('-', '_').lower()


def lit(node):
    try:
        return repr(ast.literal_eval(node))
    except Exception:
        return ast.unparse(node)


def parse_decorator(dec):
    """click.option(...) / click.argument(...) -> dict, None for the command decorator"""
    if not isinstance(dec, ast.Call):
        raise facts.TieBroken('decorator is not a call: %s' % ast.unparse(dec))
    fn = ast.unparse(dec.func)
    if fn in ('cli.command', 'click.command'):
        return None
    if fn not in ('click.option', 'click.argument'):
        raise facts.TieBroken('unknown decorator %s' % fn)
    is_arg = fn == 'click.argument'
    decls = []
    for a in dec.args:
        if not (isinstance(a, ast.Constant) and isinstance(a.value, str)):
            raise facts.TieBroken('non-literal declaration in %s' % ast.unparse(dec))
        decls.append(a.value)
    kws = {k.arg: k.value for k in dec.keywords}
    if None in kws or set(kws) - OPTION_KW:
        raise facts.TieBroken('unrecognised keyword(s) %r in %s' % (sorted(str(k) for k in set(kws) - OPTION_KW), ast.unparse(dec)[:80]))
    choices = []
    ty = kws.get('type')
    if ty is not None and isinstance(ty, ast.Call) and ast.unparse(ty.func) == 'click.Choice':
        if ty.args and isinstance(ty.args[0], (ast.List, ast.Tuple)) and all(isinstance(e, ast.Constant) for e in ty.args[0].elts):
            choices = [str(e.value) for e in ty.args[0].elts]
        else:
            choices = ['<' + ast.unparse(ty.args[0]) + '>']
    flag = any('/' in d for d in decls)
    if 'is_flag' in kws:
        flag = flag or lit(kws['is_flag']) == 'True'
    split = []
    for d in decls:
        split += [x.strip() for x in d.split('/')] if not d.isidentifier() or is_arg else []
    return dict(param=click_param_name(decls, is_arg), decls=split if not is_arg else decls, is_arg=is_arg,
                default=lit(kws['default']) if 'default' in kws else '<unset>', choices=choices, flag=flag,
                multiple=('multiple' in kws and lit(kws['multiple']) == 'True'), type=ast.unparse(ty) if ty is not None else '')


def names_in(node, ctx_type=None):
    return [n.id for n in ast.walk(node) if isinstance(n, ast.Name) and (ctx_type is None or isinstance(n.ctx, ctx_type))]


def dataflow(func, params):
    """taint[var] = set of parameters whose value may have flowed into var (weak updates, to a fixpoint);
    sinks[param] = set of (callee, slot) where a value derived from param is used"""
    taint = {p: {p} for p in params}

    def mentions(node):
        out = set()
        for n in names_in(node, ast.Load):
            out |= taint.get(n, set())
        return out
    changed = True
    while changed:
        changed = False
        for n in ast.walk(func):
            pairs = []
            if isinstance(n, ast.Assign):
                pairs = [(t, n.value) for t in n.targets]
            elif isinstance(n, (ast.AugAssign, ast.AnnAssign)) and n.value is not None:
                pairs = [(n.target, n.value)]
            elif isinstance(n, (ast.For, ast.comprehension)):
                pairs = [(n.target, n.iter)]
            elif isinstance(n, ast.With):
                pairs = [(i.optional_vars, i.context_expr) for i in n.items if i.optional_vars is not None]
            elif isinstance(n, ast.NamedExpr):
                pairs = [(n.target, n.value)]
            for tgt, val in pairs:
                src = mentions(val)
                for name in names_in(tgt):
                    if not src <= taint.get(name, set()):
                        taint[name] = taint.get(name, set()) | src
                        changed = True
    sinks = {p: set() for p in params}
    for n in ast.walk(func):
        if isinstance(n, ast.Call):
            callee = ast.unparse(n.func)
            for i, a in enumerate(n.args):
                slot = '*' if isinstance(a, ast.Starred) else 'arg%d' % i
                for p in mentions(a):
                    sinks[p].add((callee, slot))
            for k in n.keywords:
                for p in mentions(k.value):
                    sinks[p].add((callee, k.arg or '**'))
        elif isinstance(n, ast.Subscript) and isinstance(n.ctx, ast.Load):
            for p in mentions(n.slice):
                sinks[p].add((ast.unparse(n.value) + '.__getitem__', 'arg0'))
        elif isinstance(n, (ast.If, ast.While, ast.IfExp)):
            body = n.body if isinstance(n.body, list) else [n.body]
            orelse = n.orelse if isinstance(n.orelse, list) else [n.orelse]
            for p in mentions(n.test):
                sinks[p].add(('<if>', ''))
                for b in body + orelse:
                    for c in ast.walk(b):
                        if isinstance(c, ast.Call):
                            sinks[p].add(('<if>', ast.unparse(c.func)))
        elif isinstance(n, ast.comprehension):
            for cond in n.ifs:
                for p in mentions(cond):
                    sinks[p].add(('<if>', ''))
    return sinks, taint


ORDER_FACTS = {}
LOOP_FACTS = []
STATE_SETTERS = ('set_backend',)


def _mentions(node, taint):
    out = set()
    for n in names_in(node, ast.Load):
        out |= taint.get(n, set())
    return out


def state_order(fn, taint):
    """the calls that set pyhf's global backend/optimizer state, in source order (= execution order in these straight-line
    command bodies; branches of one `if` are alternatives): for each, the parameters whose values reach its arguments or the
    condition it sits under"""
    calls = []

    def visit(stmts, conds):
        for st in stmts:
            if isinstance(st, ast.If):
                c2 = conds | _mentions(st.test, taint)
                visit(st.body, c2)
                visit(st.orelse, c2)
                continue
            if isinstance(st, (ast.For, ast.While, ast.With, ast.Try)):
                for c in ast.walk(st):
                    if isinstance(c, ast.Call) and ast.unparse(c.func) in STATE_SETTERS:
                        calls.append((c.lineno, c.col_offset, sorted(conds | _mentions(c, taint))))
                continue
            for c in ast.walk(st):
                if isinstance(c, ast.Call) and ast.unparse(c.func) in STATE_SETTERS:
                    calls.append((c.lineno, c.col_offset, sorted(conds | {p for a in list(c.args) + [k.value for k in c.keywords] for p in _mentions(a, taint)})))
    visit(fn.body, set())
    return [c[2] for c in sorted(calls)]


def loop_facts(fn, taint, multiple):
    """for every `for` statement iterating over (something derived from) a multiple=True option: each variable assigned in the
    loop body and read after the loop must also be read inside the body, i.e. the loop accumulates over ALL given values
    instead of keeping the last one.  Yields (option, variable, accumulates)."""
    out = []
    body = fn.body

    def after_nodes(loop):
        found = [False]
        res = []

        def walk(stmts):
            for st in stmts:
                if st is loop:
                    found[0] = True
                    continue
                if found[0]:
                    res.append(st)
                else:
                    for fld in ('body', 'orelse', 'finalbody'):
                        sub = getattr(st, fld, None)
                        if isinstance(sub, list) and any(loop is x or any(loop is y for y in ast.walk(x)) for x in sub):
                            walk(sub)
                            # statements following the enclosing statement are "after" too
                            found[0] = True
        walk(body)
        return res
    for loop in [n for n in ast.walk(fn) if isinstance(n, ast.For)]:
        pars = _mentions(loop.iter, taint) & multiple
        if not pars:
            continue
        assigned = set()
        for n in loop.body:
            for m in ast.walk(n):
                if isinstance(m, ast.Assign):
                    for t in m.targets:
                        assigned |= set(names_in(t))
                elif isinstance(m, (ast.AugAssign, ast.AnnAssign)):
                    assigned |= set(names_in(m.target))
        read_in_body = set()
        for n in loop.body:
            read_in_body |= set(names_in(n, ast.Load))
        read_after = set()
        for n in after_nodes(loop):
            read_after |= set(names_in(n, ast.Load))
        loopvars = set(names_in(loop.target))
        for v in sorted((assigned - loopvars) & read_after):
            for p in sorted(pars):
                out.append((p, v, v in read_in_body))
    return out


def extract_table():
    table = []
    ORDER_FACTS.clear()
    del LOOP_FACTS[:]
    for rel, prefix in CLI_FILES:
        tree, _ = facts.parse(os.path.join('cli', rel))
        for fn in tree.body:
            if not isinstance(fn, ast.FunctionDef):
                continue
            decs = [ast.unparse(d.func) if isinstance(d, ast.Call) else ast.unparse(d) for d in fn.decorator_list]
            if 'cli.command' not in decs:
                if any(d.startswith('click.option') or d.startswith('click.argument') for d in decs):
                    raise facts.TieBroken('%s:%s has click parameters but is not a cli.command' % (rel, fn.name))
                continue
            cmd = prefix + fn.name
            params = [p for p in (parse_decorator(d) for d in fn.decorator_list) if p is not None]
            argnames = [a.arg for a in fn.args.args]
            if sorted(argnames) != sorted(p['param'] for p in params) or fn.args.vararg or fn.args.kwarg:
                raise facts.TieBroken('%s: function parameters %r do not match the click declarations %r' % (cmd, argnames, [p['param'] for p in params]))
            sinks, taint = dataflow(fn, argnames)
            ORDER_FACTS[cmd] = state_order(fn, taint)
            LOOP_FACTS.extend((cmd, par, var, acc) for par, var, acc in loop_facts(fn, taint, {p['param'] for p in params if p['multiple']}))
            for p in params:
                sk = sorted(s for s in sinks[p['param']] if s[0] not in LOGGING and not (s[0] == '<if>' and s[1] in LOGGING))
                p.update(cmd=cmd, sinks=sk, used=bool(sk))
                table.append(p)
    return table


def runtime_table():
    """the same table as click itself sees it (cross-check of the extractor)"""
    import click
    import pyhf.cli
    out = {}

    def walk(group, prefix):
        for name, c in sorted(group.commands.items()):
            if isinstance(c, click.Group):
                if name == 'patchset':
                    walk(c, 'patchset ')
                continue
            for p in c.params:
                ch = list(p.type.choices) if isinstance(p.type, click.Choice) else []
                out[(prefix + name, p.name)] = dict(decls=sorted(list(p.opts) + list(p.secondary_opts)), is_arg=isinstance(p, click.Argument),
                                                    flag=bool(getattr(p, 'is_flag', False)), multiple=bool(p.multiple), choices=[str(x) for x in ch],
                                                    default=p.default)
    walk(pyhf.cli.cli, '')
    return out


def extract(ctx):
    table = extract_table()
    # cross-check against click's runtime view of the same commands
    rt = runtime_table()
    mine = {(p['cmd'], p['param']): p for p in table}
    for key in mine:
        if key not in rt:
            raise facts.TieBroken('extracted parameter %r unknown to click at run time' % (key,))
        a, b = mine[key], rt[key]
        if sorted(a['decls']) != b['decls'] or a['is_arg'] != b['is_arg'] or a['flag'] != b['flag'] or a['multiple'] != b['multiple']:
            raise facts.TieBroken('extracted declaration of %r differs from click: %r vs %r' % (key, a, b))
        if a['choices'] and not a['choices'][0].startswith('<') and a['choices'] != b['choices']:
            raise facts.TieBroken('choices of %r differ from click: %r vs %r' % (key, a['choices'], b['choices']))
        if a['default'] != '<unset>' and not a['default'].startswith('Path') and repr(b['default']) != a['default'] \
                and not (isinstance(b['default'], (list, tuple)) and repr(list(b['default'])) == a['default']):
            raise facts.TieBroken('default of %r differs from click: %s vs %r' % (key, a['default'], b['default']))
    for key in rt:
        if key[0] in COMMANDS and key not in mine:
            raise facts.TieBroken('click parameter %r not found by the extractor' % (key,))

    def rec(p):
        return 'mkOpt %s %s %s %s %s %s %s %s %s [%s]' % (
            core.cstr(p['cmd']), core.cstr(p['param']), facts.coq_strlist(p['decls']), core.cbool(p['is_arg']), core.cstr(asc(p['default'])),
            facts.coq_strlist([asc(c) for c in p['choices']]), core.cbool(p['flag']), core.cbool(p['multiple']), core.cbool(p['used']),
            '; '.join('(%s, %s)' % (core.cstr(asc(a)), core.cstr(asc(b))) for a, b in p['sinks']))
    text = 'Require Import PV.Cli.\nOpen Scope string_scope.\nDefinition cli_options : list optfact :=\n  [ ' + ';\n    '.join(rec(p) for p in table) + ' ].\n'
    text += 'Definition cli_state_order : list (string * list (list string)) :=\n  [ ' + ';\n    '.join(
        '(%s, [%s])' % (core.cstr(c), '; '.join(facts.coq_strlist(x).replace('%string', '') for x in ORDER_FACTS[c])) for c in sorted(ORDER_FACTS)) + ' ].\n'
    text += 'Definition cli_multi_loops : list (string * string * string * bool) :=\n  [ ' + ';\n    '.join(
        '(%s, %s, %s, %s)' % (core.cstr(c), core.cstr(p), core.cstr(v), core.cbool(a)) for c, p, v, a in LOOP_FACTS) + ' ].\n'
    text += ('Lemma optimizer_state_set_last : forallb (last_carries cli_state_order) last_state_documented = true.\nProof. vm_compute. reflexivity. Qed.\n'
             'Lemma multiple_options_accumulate : non_accumulating cli_multi_loops = [].\nProof. vm_compute. reflexivity. Qed.\n')
    text += ('\n(* proved by computation on the table extracted from the current source *)\n'
             'Lemma every_option_consumed : unconsumed cli_options = [].\nProof. vm_compute. reflexivity. Qed.\n'
             'Lemma option_reaches_documented_argument : not_reaching cli_options documented = [].\nProof. vm_compute. reflexivity. Qed.\n'
             'Lemma all_commands_present : forallb (has_cmd cli_options) commands_expected = true.\nProof. vm_compute. reflexivity. Qed.\n'
             'Lemma documented_options_declared : forallb (fun d => declared cli_options (fst d) (snd d)) documented_decls = true.\n'
             'Proof. vm_compute. reflexivity. Qed.\n')
    facts.write_gen('FactsC19', text)
    return table


def asc(s):
    return ''.join(c if 32 <= ord(c) < 127 else '?' for c in s)


COMMANDS = ['cls', 'fit', 'inspect', 'prune', 'rename', 'combine', 'sort', 'digest', 'patchset extract', 'patchset apply',
            'patchset verify', 'patchset inspect', 'json2xml', 'xml2json']


# ----------------------------------------------------------------------------------------------------------------------
# the differential run (validation): CLI versus library
INFER_RTOL = 1e-6


def reset_backend():
    import pyhf
    pyhf.set_backend('numpy', pyhf.optimize.scipy_optimizer())


def cli_invoke(args, stdin=None, fresh=True):
    """click's CliRunner on the pyhf group, from the state a fresh process would have (fresh=False: from whatever state the
    previous invocation of the same process left behind -- the steps of a session)"""
    from click.testing import CliRunner
    import pyhf.cli
    if fresh:
        reset_backend()
    r = CliRunner().invoke(pyhf.cli.cli, args, input=stdin, catch_exceptions=True)
    e = r.exception
    return dict(exit=r.exit_code, stdout=r.stdout, exc=(core.exc_enum(e) if e is not None and not isinstance(e, SystemExit) else None),
                msg=(str(e)[:160] if e is not None else ''))


def jsonable(x):
    return json.loads(json.dumps(x))


def optconf_dict(items):
    import yaml
    out = {}
    for it in items:
        k, v = it.split('=', 1)
        out[k] = yaml.safe_load(v)
    return out


class small_toys:
    """toybased calculator with few toys and a fixed seed, identically for the CLI run and the library run"""
    def __init__(self, on):
        self.on = on

    def __enter__(self):
        if not self.on:
            return
        import numpy as np
        from pyhf.infer import calculators
        self.orig = calculators.ToyCalculator.__init__
        orig = self.orig

        def init(slf, *a, **k):
            k['ntoys'] = 24
            k['track_progress'] = False
            return orig(slf, *a, **k)
        calculators.ToyCalculator.__init__ = init
        np.random.seed(12345)

    def __exit__(self, *a):
        if self.on:
            from pyhf.infer import calculators
            calculators.ToyCalculator.__init__ = self.orig


def set_lib_backend(case):
    import pyhf
    b = {'np': 'numpy', 'torch': 'pytorch', 'tf': 'tensorflow'}.get(case.get('backend', 'numpy'), case.get('backend', 'numpy'))
    opt = getattr(pyhf.optimize, case.get('optimizer', 'scipy') + '_optimizer')(**optconf_dict(case.get('optconf', [])))
    if b in ('pytorch', 'tensorflow'):
        pyhf.set_backend(b, opt, precision='64b')
    else:
        pyhf.set_backend(b, opt)


def library(case):
    """the direct library call that corresponds to the command line of `case`: ('ok', value) | ('err', exception enum)"""
    import pyhf
    from pyhf import Workspace, PatchSet
    cmd = case['cmd']
    reset_backend()
    try:
        if cmd == 'sort':
            return 'ok', jsonable(Workspace.sorted(Workspace(copy.deepcopy(case['ws']))))
        if cmd == 'digest':
            w = Workspace(copy.deepcopy(case['ws']))
            return 'ok', {a: pyhf.utils.digest(w, algorithm=a) for a in (case.get('algorithm') or ['sha256'])}
        if cmd == 'prune':
            w = Workspace(copy.deepcopy(case['ws']))
            return 'ok', jsonable(w.prune(channels=case.get('channel', []), samples=case.get('sample', []), modifiers=case.get('modifier', []),
                                          modifier_types=case.get('modifier_type', []), measurements=case.get('measurement', [])))
        if cmd == 'rename':
            w = Workspace(copy.deepcopy(case['ws']))
            return 'ok', jsonable(w.rename(channels=dict(map(tuple, case.get('channel', []))), samples=dict(map(tuple, case.get('sample', []))),
                                           modifiers=dict(map(tuple, case.get('modifier', []))), measurements=dict(map(tuple, case.get('measurement', [])))))
        if cmd == 'combine':
            return 'ok', jsonable(Workspace.combine(Workspace(copy.deepcopy(case['ws'])), Workspace(copy.deepcopy(case['ws2'])),
                                                    join=case.get('join', 'none'), merge_channels=case.get('merge_channels') or False))
        if cmd == 'inspect':
            w = Workspace(copy.deepcopy(case['ws']))
            chosen = w.get_measurement(measurement_name=case.get('measurement'))
            model = w.model(measurement_name=case.get('measurement'))
            descr = {pyhf.parameters.paramsets.unconstrained: 'unconstrained', pyhf.parameters.paramsets.constrained_by_normal: 'constrained_by_normal',
                     pyhf.parameters.paramsets.constrained_by_poisson: 'constrained_by_poisson'}
            pars = sorted((n, descr[type(s['paramset'])]) for n, s in model.config.par_map.items())
            res = dict(samples=w.samples, channels=[(c, w.channel_nbins[c]) for c in w.channels], modifiers=dict(w.modifiers), parameters=pars,
                       systematics=[(p[0], p[1], [m[1] for m in w.modifiers if m[0] == p[0]]) for p in pars],
                       measurements=[(m['name'], m['config']['poi'], [p['name'] for p in m['config']['parameters']]) for m in w.get('measurements')])
            return 'ok', dict(json=jsonable(res), chosen=chosen['name'])
        if cmd == 'patchset extract':
            ps = PatchSet(copy.deepcopy(case['patchset']))
            p = ps[case.get('name')]
            if case.get('with_metadata'):
                md = dict(p.metadata)
                md.update(ps.metadata)
                return 'ok', jsonable({'metadata': md, 'patch': p.patch})
            return 'ok', jsonable(p.patch)
        if cmd == 'patchset apply':
            ps = PatchSet(copy.deepcopy(case['patchset']))
            return 'ok', jsonable(ps.apply(Workspace(copy.deepcopy(case['ws'])), case.get('name')))
        if cmd == 'patchset verify':
            PatchSet(copy.deepcopy(case['patchset'])).verify(Workspace(copy.deepcopy(case['ws'])))
            return 'ok', 'All good.'
        if cmd == 'patchset inspect':
            ps = PatchSet(copy.deepcopy(case['patchset']))
            return 'ok', [p.name for p in ps.patches]
        if cmd in ('cls', 'fit'):
            set_lib_backend(case)
            tl, _ = pyhf.get_backend()
            w = Workspace(copy.deepcopy(case['ws']))
            model = w.model(measurement_name=case.get('measurement'), patches=copy.deepcopy(case.get('patches', [])))
            data = w.data(model)
            if cmd == 'cls':
                with small_toys(case.get('calctype') == 'toybased'):
                    r = pyhf.infer.hypotest(case.get('test_poi', 1.0), data, model, test_stat=case.get('test_stat', 'qtilde'),
                                            calctype=case.get('calctype', 'asymptotics'), return_expected_set=True)
                return 'ok', jsonable({'CLs_obs': tl.tolist(r[0]), 'CLs_exp': [tl.tolist(t) for t in r[-1]]})
            r = pyhf.infer.mle.fit(data, model, return_fitted_val=bool(case.get('value')))
            pars = r[0] if case.get('value') else r
            out = {'mle_parameters': {k: tl.tolist(pars[v['slice']]) for k, v in model.config.par_map.items()}}
            if case.get('value'):
                out['twice_nll'] = tl.tolist(r[-1])
            return 'ok', jsonable(out)
        if cmd == 'json2xml':
            import jsonpatch
            from pyhf import writexml, readxml
            d = case['_libdir']
            spec = copy.deepcopy(case['ws'])
            for p in case.get('patches', []):
                spec = jsonpatch.JsonPatch(copy.deepcopy(p)).apply(spec)
            os.makedirs(os.path.join(d, case.get('specroot', 'config')), exist_ok=True)
            os.makedirs(os.path.join(d, case.get('dataroot', 'data')), exist_ok=True)
            prefix = case.get('resultprefix', 'FitConfig')
            top = writexml.writexml(spec, os.path.join(d, case.get('specroot', 'config')), os.path.join(d, case.get('dataroot', 'data')), prefix)
            with open(os.path.join(d, prefix + '.xml'), 'wb') as f:
                f.write(top)
            readxml.clear_filecache()
            return 'ok', dict(top=top.decode().replace(d, '<DIR>'), parsed=jsonable(readxml.parse(os.path.join(d, prefix + '.xml'), d)))
        if cmd == 'xml2json':
            from pyhf import readxml
            from pathlib import Path
            readxml.clear_filecache()
            mounts = [(Path(a), Path(b)) for a, b in case.get('mount', [])]
            return 'ok', jsonable(readxml.parse(case['_xml'], case['_basedir'], mounts=mounts, track_progress=False,
                                                validation_as_error=case.get('validation_as_error', True)))
        raise KeyError(cmd)
    except Exception as e:
        return 'err', core.exc_enum(e)
    finally:
        reset_backend()


def build_args(case, d):
    """command line of the case; files are written under d.  Returns (args, stdin, output_file or None)"""
    cmd = case['cmd']
    args = cmd.split(' ')
    stdin = None
    os.makedirs(d, exist_ok=True)

    def put(name, obj):
        p = os.path.join(d, name)
        with open(p, 'w') as f:
            json.dump(obj, f)
        return p

    def inp(name, obj):
        nonlocal stdin
        if case.get('via') == 'stdin' and stdin is None:
            stdin = json.dumps(obj)
            return '-'
        return put(name, obj)
    if cmd in ('sort', 'digest', 'prune', 'rename', 'inspect', 'cls', 'fit', 'json2xml'):
        args.append(inp('ws.json', case['ws']))
    elif cmd == 'combine':
        args += [inp('ws1.json', case['ws']), put('ws2.json', case['ws2'])]
    elif cmd in ('patchset extract', 'patchset inspect'):
        args.append(inp('patchset.json', case['patchset']))
    elif cmd in ('patchset apply', 'patchset verify'):
        args += [inp('ws.json', case['ws']), put('patchset.json', case['patchset'])]
    elif cmd == 'xml2json':
        args.append(case['_xml'])
    if cmd == 'digest':
        for a in case.get('algorithm') or []:
            args += [case.get('_aflag', '-a'), a]
        if case.get('output_json') is not None:
            args.append(('--json' if case.get('_long', True) else '-j') if case['output_json'] else ('--plaintext' if case.get('_long', True) else '-p'))
    if cmd == 'prune':
        for k, fl in (('channel', '-c'), ('sample', '-s'), ('modifier', '-m'), ('modifier_type', '-t'), ('measurement', '--measurement')):
            for v in case.get(k, []):
                args += [fl if case.get('_short', True) else '--' + k.replace('_', '-'), v]
    if cmd == 'rename':
        for k, fl in (('channel', '-c'), ('sample', '-s'), ('modifier', '-m'), ('measurement', '--measurement')):
            for a, b in case.get(k, []):
                args += [fl if case.get('_short', True) else '--' + k, a, b]
    if cmd == 'combine':
        if 'join' in case:
            args += ['--join' if case.get('_long', True) else '-j', case['join']]
        if case.get('merge_channels') is not None:
            args.append('--merge-channels' if case['merge_channels'] else '--no-merge-channels')
    if cmd in ('inspect', 'cls', 'fit') and case.get('measurement') is not None:
        args += ['--measurement', case['measurement']]
    if cmd in ('cls', 'fit', 'json2xml'):
        for i, p in enumerate(case.get('patches', [])):
            args += ['-p' if i % 2 == 0 else '--patch', put('patch%d.json' % i, p)]
    if cmd in ('cls', 'fit'):
        for k in ('backend', 'optimizer'):
            if k in case:
                args += ['--' + k, case[k]]
        for it in case.get('optconf', []):
            args += ['--optconf', it]
    if cmd == 'cls':
        if 'test_poi' in case:
            args += ['--test-poi', repr(case['test_poi'])]
        for k in ('test_stat', 'calctype'):
            if k in case:
                args += ['--' + k.replace('_', '-'), case[k]]
    if cmd == 'fit' and case.get('value'):
        args.append('--value')
    if cmd in ('patchset extract', 'patchset apply') and case.get('name') is not None:
        args += ['--name', case['name']]
    if cmd == 'patchset extract' and case.get('with_metadata') is not None:
        args.append('--with-metadata' if case['with_metadata'] else '--without-metadata')
    if cmd == 'json2xml':
        args += ['--output-dir', case['_clidir']]
        os.makedirs(case['_clidir'], exist_ok=True)
        for k in ('specroot', 'dataroot', 'resultprefix'):
            if k in case:
                args += ['--' + k, case[k]]
    if cmd == 'xml2json':
        args += ['--basedir', case['_basedir'], '--hide-progress']
        for a, b in case.get('mount', []):
            args += ['-v', '%s:%s' % (a, b)]
        if case.get('validation_as_error') is False:
            args.append('--validation-as-warning')
    outfile = None
    if case.get('out') == 'file' and cmd not in ('digest', 'patchset verify', 'patchset inspect', 'json2xml'):
        outfile = os.path.join(d, 'out.json')
        if os.path.exists(outfile):
            os.remove(outfile)
        args += ['--output-file', outfile]
    return args, stdin, outfile


def values_equal(a, b, rtol):
    if isinstance(a, dict) and isinstance(b, dict):
        return a.keys() == b.keys() and all(values_equal(a[k], b[k], rtol) for k in a)
    if isinstance(a, list) and isinstance(b, list):
        return len(a) == len(b) and all(values_equal(x, y, rtol) for x, y in zip(a, b))
    if isinstance(a, bool) or isinstance(b, bool) or a is None or b is None or isinstance(a, str) or isinstance(b, str):
        return a == b and type(a) is type(b)
    if isinstance(a, (int, float)) and isinstance(b, (int, float)):
        if rtol == 0:
            return a == b
        if a != a or b != b:
            return a != a and b != b
        return abs(a - b) <= rtol * max(abs(a), abs(b)) + 1e-12
    return False


LAST = {}


def cli_invoke_keep(args, stdin=None):
    return cli_invoke(args, stdin, fresh=False)


def differential(case, d, run=cli_invoke, lib=None, rtol_override=None):
    """None if the command line agrees with the library on this case, else (kind, text, details).  `lib`: the library result
    computed beforehand (sessions: the reference calls must not touch the state between the invocations)"""
    cmd = case['cmd']
    rtol = INFER_RTOL if cmd in ('cls', 'fit') else 0
    if rtol_override is not None:
        rtol = rtol_override
    if cmd == 'json2xml':
        case = dict(case, _clidir=os.path.join(d, 'cli-out'), _libdir=os.path.join(d, 'lib-out'))
        shutil.rmtree(case['_clidir'], ignore_errors=True)
        shutil.rmtree(case['_libdir'], ignore_errors=True)
    if lib is None:
        lib = library(case)
    lib = tuple(lib)
    LAST['lib'] = lib[0]
    args, stdin, outfile = build_args(case, d)
    with small_toys(cmd == 'cls' and case.get('calctype') == 'toybased'):
        r = run(args, stdin)
    det = dict(args=args, stdin=bool(stdin), exit=r['exit'], exception=r.get('exc'), message=r.get('msg'), stdout=r['stdout'][:1500], library=lib if lib[0] == 'err' else ('ok', _clip(lib[1])))
    if (r['exit'] == 0) != (lib[0] == 'ok'):
        return 'exit-code', 'exit code %d (%s) but the library call %s' % (r['exit'], r.get('exc') or r.get('msg') or 'no exception',
                                                                          'succeeds' if lib[0] == 'ok' else 'raises ' + lib[1]), det
    if lib[0] != 'ok':
        return None
    exp = lib[1]
    text = r['stdout']
    if outfile is not None:
        if not os.path.exists(outfile):
            return 'output-file', '--output-file given but no file was written', det
        text = open(outfile).read()
    try:
        if cmd == 'digest':
            if case.get('output_json'):
                got = json.loads(text)
            else:
                got = dict(line.split(':', 1) for line in text.strip().split('\n'))
            ok = got == exp
        elif cmd == 'inspect':
            ok = True
            if outfile is not None:
                got = json.loads(text)
                ok = values_equal(got, exp['json'], 0)
            else:
                got = text
            # the measurement table lists the measurements in workspace order, the one in use prefixed with (*); rows are matched by
            # position (a name may be empty or contain blanks)
            lines = r['stdout'].split('\n')
            head = [k for k, ln in enumerate(lines) if ln.split()[:3] == ['measurement', 'poi', 'parameters']]
            rows = lines[head[-1] + 2:head[-1] + 2 + len(exp['json']['measurements'])] if head else []
            marked = [m[0] for m, ln in zip(exp['json']['measurements'], rows) if ln.lstrip().startswith('(*)')]
            if len(rows) != len(exp['json']['measurements']) or sum('(*)' in ln for ln in lines) != len(marked):
                marked = ['<unreadable table>'] + marked
            if marked != [exp['chosen']]:
                return 'value', 'the table marks measurement %r as the one in use, the library uses %r' % (marked, exp['chosen']), det
        elif cmd == 'patchset verify':
            got = text.strip()
            ok = got == exp
        elif cmd == 'patchset inspect':
            got = [ln for ln in text.split('\n') if ln.strip()]
            ok = got[2:] == exp and got[0].strip().startswith('%d patches found' % len(exp))
        elif cmd == 'json2xml':
            from pyhf import readxml
            cd = case['_clidir']
            prefix = case.get('resultprefix', 'FitConfig')
            top = open(os.path.join(cd, prefix + '.xml')).read().replace(cd, '<DIR>')
            readxml.clear_filecache()
            got = dict(top=top, parsed=jsonable(readxml.parse(os.path.join(cd, prefix + '.xml'), cd)))
            ok = got['top'] == exp['top'] and values_equal(got['parsed'], exp['parsed'], 0)
            got = _clip(got)
        else:
            got = json.loads(text)
            ok = values_equal(got, exp, rtol)
    except Exception as e:
        return 'output-format', 'output cannot be read back (%s: %s)' % (type(e).__name__, str(e)[:100]), det
    if not ok:
        det['cli_value'] = _clip(got)
        return 'value', 'command line output differs from the library value: %s vs %s' % (json.dumps(_clip(got))[:200], json.dumps(_clip(exp))[:200]), det
    return None


def _clip(x):
    s = json.dumps(x, default=str)
    return x if len(s) < 3000 else s[:3000] + '...'


def file_vs_stdout(case, d):
    """output via --output-file and via stdout must be identical (modulo the newline click.echo appends)"""
    a1, s1, _ = build_args(dict(case, out='stdout'), os.path.join(d, 'so'))
    with small_toys(case.get('calctype') == 'toybased'):
        r1 = cli_invoke(a1, s1)
    a2, s2, f2 = build_args(dict(case, out='file'), os.path.join(d, 'fo'))
    with small_toys(case.get('calctype') == 'toybased'):
        r2 = cli_invoke(a2, s2)
    if r1['exit'] != r2['exit']:
        return 'exit code %d to stdout, %d with --output-file' % (r1['exit'], r2['exit']), dict(args_stdout=a1, args_file=a2)
    if r1['exit'] != 0:
        return None
    if not os.path.exists(f2):
        return 'no file written', dict(args_file=a2)
    ftxt = open(f2).read()
    if case['cmd'] in ('cls', 'fit'):
        same = values_equal(json.loads(ftxt), json.loads(r1['stdout']), INFER_RTOL) and \
            [ln.split(':')[0] for ln in ftxt.split('\n')] == [ln.split(':')[0] for ln in r1['stdout'].rstrip('\n').split('\n')]
    else:
        same = ftxt == r1['stdout'].rstrip('\n')
    if not same:
        return 'file content differs from what is printed', dict(args_stdout=a1, args_file=a2, stdout=r1['stdout'][:800], file=ftxt[:800])
    return None


DEFAULTS = dict(measurement=None, patches=[], test_poi=1.0, test_stat='qtilde', calctype='asymptotics', backend='numpy', optimizer='scipy',
                optconf=[], value=False, channel=[], sample=[], modifier=[], modifier_type=[], join='none', merge_channels=False,
                algorithm=[], output_json=None, name=None, with_metadata=False, specroot='config', dataroot='data', resultprefix='FitConfig',
                mount=[], validation_as_error=True)


def culprit(case, d, kind):
    """the option(s) whose removal makes the disagreement disappear (candidates for the option that is not taking effect), or ''"""
    out = []
    for k in sorted(case):
        if k.startswith('_') or k in ('cmd', 'ws', 'ws2', 'patchset', 'via', 'out') or k not in DEFAULTS or case[k] == DEFAULTS[k]:
            continue
        c2 = {kk: v for kk, v in case.items() if kk != k}
        try:
            if differential(c2, d + '-culprit') is None:
                out.append(k)
        except Exception:
            continue
    return '+'.join(out)


# ----------------------------------------------------------------------------------------------------------------------
# sessions: several invocations in ONE process.  Every invocation must behave as its own options say (absent option = its
# documented default), whatever an earlier invocation of the same process selected.
STATE_OPTIONS = ('backend', 'optimizer', 'optconf')
SESSION_MIXED_RTOL = 1e-4


def session_run(steps, d):
    """the reference value of every step is the library call made under the options of THAT step alone, from a fresh backend
    state (computed before the first invocation, so that no reference call sits between two invocations); then the command
    lines run one after the other through click's CliRunner with no reset in between.
    None, or (index of the first disagreeing step, (kind, text, details))"""
    libs = [library(c) for c in steps]
    reset_backend()
    tl = [{'np': 'numpy', 'torch': 'pytorch', 'tf': 'tensorflow'}.get(c.get('backend', 'numpy'), c.get('backend', 'numpy')) for c in steps]
    try:
        for k, (c, lib) in enumerate(zip(steps, libs)):
            # the tensor libraries agree with each other to the optimiser tolerance only, and the command line (documented: "set the
            # backend if not NumPy") does not go back to numpy: after a step that named another backend the values are compared at
            # SESSION_MIXED_RTOL; exit status and shape are compared as always
            mixed = any(t != tl[k] for t in tl[:k])
            res = differential(c, os.path.join(d, 'step%d' % k), run=cli_invoke if k == 0 else cli_invoke_keep, lib=lib,
                               rtol_override=SESSION_MIXED_RTOL if mixed else None)
            if res is not None:
                return k, res
        return None
    finally:
        reset_backend()


def session_shrink(steps, d, k, res):
    """smallest history that still makes step k disagree in the same way: the step alone (then it is no session effect), else one
    earlier step + the step, else the prefix as found.  Returns (steps, index, res, stale options)"""
    kind = res[0]
    try:
        r1 = differential(steps[k], d + '-alone')
    except Exception:
        r1 = None
    if r1 is not None and r1[0] == kind:
        return [steps[k]], 0, r1, ''
    best = (steps[:k + 1], k, res)
    for j in range(k - 1, -1, -1):
        try:
            r2 = session_run([steps[j], steps[k]], d + '-pair')
        except Exception:
            continue
        if r2 is not None and r2[0] == 1 and r2[1][0] == kind:
            best = ([steps[j], steps[k]], 1, r2[1])
            break
    hist, idx, rr = best
    stale = []
    if len(hist) == 2:
        for o in STATE_OPTIONS:
            if o in hist[0] and hist[0].get(o) != hist[1].get(o):
                try:
                    r3 = session_run([{kk: v for kk, v in hist[0].items() if kk != o}, hist[1]], d + '-stale')
                except Exception:
                    continue
                if r3 is None:
                    stale.append(o)
    return hist, idx, rr, '+'.join(stale)


def report_session(ctx, steps, d, k, res):
    hist, idx, (kind, text, det), stale = session_shrink(steps, d, k, res)
    if len(hist) == 1:
        report(ctx, hist[0], d + '-alone', (kind, text, det))
        return
    cmd = hist[idx]['cmd']
    sig = '%s:%s:session%s' % (cmd, kind, (':stale-' + stale) if stale else '')
    a0 = [build_args(c, os.path.join(d, 'show%d' % i))[0] for i, c in enumerate(hist)]
    ctx.violation(sig, 'invocation %d of a session in one process (%s): `pyhf %s`: %s%s; the same command line agrees with the library when it is the first of its process'
                  % (idx + 1, ' ; '.join('pyhf ' + ' '.join(x if len(x) < 40 else '<file>' for x in a) for a in a0), cmd, text,
                     (' [setting of the earlier invocation still in force: %s]' % stale) if stale else ''),
                  dict(kind='cli-session', steps=[case_public(c) for c in hist], failing_step=idx, runner='CliRunner, one process, no reset between the invocations',
                       impl=det, stale=stale,
                       expected='every invocation: exit 0 iff the library call under the options of that invocation alone succeeds; output carries that library value',
                       theorem='C19 differential run (validation), sessions / C19_exit_iff_library_ok'))


def gen_sessions(ctx, rng):
    """short sessions of 2-3 `fit`/`cls` invocations mixing --backend/--optimizer/--optconf values and their absence.  Always
    present: a step with every state option absent after a step that names an optimiser / optimiser settings / a backend."""
    ws = infer_ws(rng, 1)
    patch = infer_patch(rng, ws)
    heavy = ['jax'] if ctx.quick else ['jax', 'pytorch', 'tensorflow']

    def step(state=None, plain=False):
        cmd = rng.choice(['fit', 'cls'])
        c = dict(cmd=cmd, ws=ws, via=rng.choice(['file', 'stdin']), out=rng.choice(['stdout', 'file']))
        if cmd == 'fit':
            c['value'] = True
        else:
            c['test_poi'] = rng.choice([1.0, 0.5, 1.5, 0])
            if rng.random() < 0.3:
                c['test_stat'] = 'q'
        if rng.random() < 0.3:
            c['measurement'] = 'shifted'
        if rng.random() < 0.25:
            c['patches'] = [patch]
        if plain:
            return c
        if state is None:
            state = rng.sample(STATE_OPTIONS, rng.choice([0, 1, 1, 2, 3]))
        opt = None
        if 'optimizer' in state:
            opt = c['optimizer'] = rng.choice(['minuit', 'minuit', 'scipy'])
        if 'optconf' in state:
            c['optconf'] = rng.choice([['maxiter=1'], ['maxiter=200000'], ['tolerance=0.01'], ['maxiter=0']] if opt != 'minuit' else
                                      [['strategy=0'], ['strategy=2', 'tolerance=0.01'], ['maxiter=1'], ['tolerance=0']])
        if 'backend' in state:
            c['backend'] = rng.choice(['numpy', 'np'] + heavy) if rng.random() < 0.6 else rng.choice(heavy)
        return c
    sessions = [[step(['optimizer']), step(plain=True)],
                [step(['optconf']), step(plain=True)],
                [step(['backend', 'optimizer', 'optconf']), step(plain=True), step()]]
    sessions[0][0]['optimizer'] = 'minuit'
    for _ in range(ctx.n(7, 30)):
        s = [step() for _ in range(rng.choice([2, 3]))]
        if rng.random() < 0.4:
            s[-1] = step(plain=True)
        sessions.append(s)
    # NOT generated: going back from a non-numpy backend to numpy or to another backend within one process.  pyhf's commands
    # "set the backend if not NumPy": `--backend numpy` (given or defaulted) after `--backend jax` keeps jax on the unchanged tree
    # (observable: `cls --backend np --optimizer minuit --optconf tolerance=0` after `cls --backend jax` exits 1, alone it exits 0).
    # Reported as a candidate finding; until it is decided the sessions stay on the non-numpy backend once one was named.
    for s in sessions:
        cur = 'numpy'
        for c in s:
            b = {'np': 'numpy'}.get(c.get('backend', 'numpy'), c.get('backend', 'numpy'))
            if cur != 'numpy' and b != cur:
                c['backend'] = cur
            else:
                cur = b
    return sessions


# ----------------------------------------------------------------------------------------------------------------------
# inputs
def infer_ws(rng, nch=1):
    chans, obs = [], []
    for c in range(nch):
        nb = rng.choice([1, 2, 3])
        sig = [round(rng.uniform(3, 12), 1) for _ in range(nb)]
        bkg = [round(rng.uniform(40, 90), 1) for _ in range(nb)]
        mods = [{'name': 'bkgnorm', 'type': 'normsys', 'data': {'hi': 1.12, 'lo': 0.9}}]
        if rng.random() < 0.6:
            mods.append({'name': 'uncorr_%d' % c, 'type': 'shapesys', 'data': [round(b * rng.uniform(0.05, 0.15), 2) for b in bkg]})
        else:
            mods.append({'name': 'shape_%d' % c, 'type': 'histosys', 'data': {'hi_data': [b * 1.07 for b in bkg], 'lo_data': [b * 0.94 for b in bkg]}})
        chans.append({'name': 'chan%d' % c, 'samples': [
            {'name': 'signal', 'data': sig, 'modifiers': [{'name': 'mu', 'type': 'normfactor', 'data': None}]},
            {'name': 'background', 'data': bkg, 'modifiers': mods}]})
        obs.append({'name': 'chan%d' % c, 'data': [float(int(b + rng.uniform(-6, 9))) for b in bkg]})
    return {'channels': chans, 'observations': obs, 'version': '1.0.0', 'measurements': [
        {'name': 'nominal', 'config': {'poi': 'mu', 'parameters': []}},
        {'name': 'shifted', 'config': {'poi': 'mu', 'parameters': [{'name': 'bkgnorm', 'inits': [1.3], 'fixed': True},
                                                                    {'name': 'mu', 'bounds': [[0, 8]], 'inits': [0.5]}]}}]}


def infer_patch(rng, ws):
    return [{'op': 'replace', 'path': '/channels/0/samples/0/data', 'value': [round(x * rng.choice([0.5, 1.7]), 2) for x in ws['channels'][0]['samples'][0]['data']]}]


def spec_ws(rng):
    """a richer workspace for the spec commands: several channels, samples, modifier types, measurements"""
    from harness.props import c18
    while True:
        ws = c18.gen_ws(rng)
        if not any(isinstance(x, int) and False for x in []):
            return ws


def patchset_for(rng, ws, bad_digest=False):
    import pyhf
    names = ['sig_%d' % i for i in range(rng.choice([1, 2, 3]))] + (['name'] if rng.random() < 0.3 else [])
    dig = {'sha256': pyhf.utils.digest(ws, algorithm='sha256')}
    if rng.random() < 0.5:
        dig['md5'] = pyhf.utils.digest(ws, algorithm='md5')
    if bad_digest:
        k = sorted(dig)[-1]
        dig[k] = '0' * len(dig[k])
    return {'metadata': {'references': {'hepdata': 'ins1234567'}, 'description': 'generated', 'digests': dig, 'labels': ['m1', 'm2']},
            'version': '1.0.0',
            'patches': [{'metadata': {'name': n, 'values': [i, i * 10 + 1]},
                         'patch': [{'op': 'replace', 'path': '/channels/0/samples/0/data',
                                    'value': [float(i + 1 + k) for k, _ in enumerate(ws['channels'][0]['samples'][0]['data'])]}]} for i, n in enumerate(names)]}


def names_of(ws):
    ch = [c['name'] for c in ws['channels']]
    sa = sorted({s['name'] for c in ws['channels'] for s in c['samples']})
    mo = sorted({m['name'] for c in ws['channels'] for s in c['samples'] for m in s['modifiers']})
    ty = sorted({m['type'] for c in ws['channels'] for s in c['samples'] for m in s['modifiers']})
    me = [m['name'] for m in ws['measurements']]
    return ch, sa, mo, ty, me


def gen_cases(ctx, rng):
    cases = []
    q = ctx.quick

    def pick(xs, kmax):
        return rng.sample(xs, min(len(xs), rng.randrange(0, kmax + 1)))
    # --- spec commands ---
    for i in range(ctx.n(10, 80)):
        ws = spec_ws(rng)
        ch, sa, mo, ty, me = names_of(ws)
        via, out = rng.choice(['file', 'stdin']), rng.choice(['stdout', 'file'])
        cases.append(dict(cmd='sort', ws=ws, via=via, out=out))
        cases.append(dict(cmd='digest', ws=ws, via=via, algorithm=rng.choice([[], ['md5'], ['sha256', 'md5'], ['sha1'], ['md5', 'sha512', 'sha1'], ['nosuchalg']]),
                          output_json=rng.choice([None, True, False]), _long=rng.random() < 0.5, _aflag=rng.choice(['-a', '--algorithm'])))
        pr = dict(cmd='prune', ws=ws, via=via, out=out, _short=rng.random() < 0.5, channel=pick(ch, 1) if len(ch) > 1 else [], sample=pick(sa, 1),
                  modifier=pick(mo, 2), modifier_type=pick(ty, 2), measurement=pick(me, 1) if len(me) > 1 else [])
        if rng.random() < 0.12:
            pr[rng.choice(['channel', 'sample', 'modifier', 'measurement'])] = ['does_not_exist']
        cases.append({k: v for k, v in pr.items() if v != []})
        rn = dict(cmd='rename', ws=ws, via=rng.choice(['file', 'stdin']), out=rng.choice(['stdout', 'file']), _short=rng.random() < 0.5,
                  channel=[[x, x + '_r'] for x in pick(ch, 2)], sample=[[x, 'new_' + x] for x in pick(sa, 2)],
                  modifier=[[x, x + 'X'] for x in pick([m for m in mo if m != 'lumi'], 2)], measurement=[[x, x + '_v2'] for x in pick(me, 1)])
        if rng.random() < 0.1:
            rn['channel'] = [['does_not_exist', 'zz']]
        cases.append({k: v for k, v in rn.items() if v != []})
        for m in ([None] + me + ['no_such_measurement'])[:ctx.n(3, 6)]:
            cases.append(dict(cmd='inspect', ws=ws, via=rng.choice(['file', 'stdin']), out=rng.choice(['stdout', 'file']), measurement=m))
        if len(me) > 1:
            cases.append(dict(cmd='inspect', ws=ws, via='file', out='file', measurement=me[-1]))
        # combine: a second workspace with disjoint or overlapping channel names
        ws2 = spec_ws(rng)
        if rng.random() < 0.6:
            ws2 = json.loads(json.dumps(ws2).replace('"SR"', '"SRb"').replace('"CR_low"', '"CRb"').replace('"ch_1"', '"ch_1b"')
                             .replace('"A"', '"Ab"').replace('"VR2"', '"VR2b"').replace('"name": "meas', '"name": "other'))
        for jn in (['none', 'outer', 'left outer', 'right outer'] if not q or i < 3 else [rng.choice(['none', 'outer', 'left outer', 'right outer'])]):
            c = dict(cmd='combine', ws=ws, ws2=ws2, via=rng.choice(['file', 'stdin']), out=rng.choice(['stdout', 'file']), join=jn, _long=rng.random() < 0.5)
            mc = rng.choice([None, True, False])
            if mc is not None:
                c['merge_channels'] = mc
            cases.append(c)
        if rng.random() < 0.5:
            cases.append(dict(cmd='combine', ws=ws, ws2=ws2, via='file', out='stdout'))
    # --- patch sets ---
    for i in range(ctx.n(6, 40)):
        ws = infer_ws(rng, rng.choice([1, 2]))
        ws['measurements'] = ws['measurements'][:1]
        ps = patchset_for(rng, ws, bad_digest=rng.random() < 0.25)
        nm = [p['metadata']['name'] for p in ps['patches']]
        for name in [rng.choice(nm), 'absent', None][:ctx.n(2, 3)]:
            cases.append(dict(cmd='patchset extract', patchset=ps, name=name, with_metadata=rng.choice([None, True, False]),
                              via=rng.choice(['file', 'stdin']), out=rng.choice(['stdout', 'file'])))
            cases.append(dict(cmd='patchset apply', ws=ws, patchset=ps, name=name, via=rng.choice(['file', 'stdin']), out=rng.choice(['stdout', 'file'])))
        cases.append(dict(cmd='patchset verify', ws=ws, patchset=ps, via=rng.choice(['file', 'stdin'])))
        cases.append(dict(cmd='patchset inspect', patchset=ps, via=rng.choice(['file', 'stdin'])))
    # --- inference: option cross-products (numpy exhaustive over the discrete options on one workspace, sampled beyond) ---
    ws = infer_ws(rng, 1)
    patch = infer_patch(rng, ws)
    combos = list(itertools.product([None, 'shifted'], [[], [patch]], ['q', 'qtilde'], ['scipy', 'minuit']))
    if q:
        combos = rng.sample(combos, 7) + [('shifted', [patch], 'q', 'minuit')]
    for meas, pt, ts, opt in combos:
        c = dict(cmd='cls', ws=ws, via=rng.choice(['file', 'stdin']), out=rng.choice(['stdout', 'file']), test_stat=ts, optimizer=opt,
                 test_poi=rng.choice([1.0, 0.5, 2.25, 0, 0.0]))
        if meas:
            c['measurement'] = meas
        if pt:
            c['patches'] = pt
        cases.append(c)
    cases.append(dict(cmd='cls', ws=ws, via='stdin', out='stdout'))
    cases.append(dict(cmd='cls', ws=ws, via='file', out='stdout', measurement='no_such_measurement'))
    cases.append(dict(cmd='cls', ws=ws, via='file', out='stdout', calctype='toybased', test_poi=1.5))
    cases.append(dict(cmd='cls', ws=ws, via='file', out='file', calctype='toybased', measurement='shifted', test_stat='q'))
    cases.append(dict(cmd='cls', ws=ws, via='file', out='stdout', optconf=['maxiter=1']))
    cases.append(dict(cmd='cls', ws=ws, via='file', out='stdout', optimizer='minuit', optconf=['tolerance=0.01', 'strategy=2']))
    cases.append(dict(cmd='cls', ws=ws, via='file', out='stdout', backend='np', test_poi=0.75))
    for meas, pt, val, opt in (rng.sample(list(itertools.product([None, 'shifted'], [[], [patch]], [False, True], ['scipy', 'minuit'])), 6) if q else
                               list(itertools.product([None, 'shifted'], [[], [patch]], [False, True], ['scipy', 'minuit']))):
        c = dict(cmd='fit', ws=ws, via=rng.choice(['file', 'stdin']), out=rng.choice(['stdout', 'file']), optimizer=opt)
        if val:
            c['value'] = True
        if meas:
            c['measurement'] = meas
        if pt:
            c['patches'] = pt
        cases.append(c)
    cases.append(dict(cmd='fit', ws=ws, via='file', out='stdout', optconf=['maxiter=1'], value=True))
    cases.append(dict(cmd='fit', ws=ws, via='file', out='stdout', optimizer='minuit', optconf=['strategy=0'], value=True, measurement='shifted'))
    backends = ['jax'] if q else ['jax', 'pytorch', 'torch', 'tensorflow', 'tf']
    for b in backends:
        cases.append(dict(cmd='cls', ws=ws, via='file', out='stdout', backend=b, measurement='shifted', test_poi=1.25))
        cases.append(dict(cmd='fit', ws=ws, via='stdin', out='file', backend=b, value=True, patches=[patch]))
    # non-numpy backend x optimizer x optconf: the optimiser settings must survive the backend switch (values and exit status
    # against the library called with the same backend+optimizer state)
    nn = [('jax', 'pytorch')] if q else [('jax', 'pytorch', 'torch', 'tensorflow', 'tf')]
    for b in nn[0]:
        for cmd in ('cls', 'fit'):
            extra = dict(value=True) if cmd == 'fit' else dict(test_poi=1.5)
            cases.append(dict(cmd=cmd, ws=ws, via='file', out='stdout', backend=b, optimizer='minuit', **extra))
            cases.append(dict(cmd=cmd, ws=ws, via='stdin', out='stdout', backend=b, optimizer='scipy', optconf=['maxiter=1'], **extra))
            if not q or b == 'jax':
                cases.append(dict(cmd=cmd, ws=ws, via='file', out='file', backend=b, optimizer='minuit', optconf=['strategy=2', 'tolerance=0.01'],
                                  measurement='shifted', **extra))
    # several --patch options: all must be applied, in the order given (order-dependent pairs included)
    p_sig = [{'op': 'replace', 'path': '/channels/0/samples/0/data', 'value': [round(x * 0.5, 2) for x in ws['channels'][0]['samples'][0]['data']]}]
    p_obs = [{'op': 'replace', 'path': '/observations/0/data', 'value': [x + 7.0 for x in ws['observations'][0]['data']]}]
    p_add = [{'op': 'add', 'path': '/channels/0/samples/-', 'value': {'name': 'extra', 'data': [4.0 for _ in ws['channels'][0]['samples'][0]['data']],
                                                                        'modifiers': [{'name': 'kx', 'type': 'normsys', 'data': {'hi': 1.2, 'lo': 0.8}}]}}]
    p_tune = [{'op': 'replace', 'path': '/channels/0/samples/2/data', 'value': [9.0 for _ in ws['channels'][0]['samples'][0]['data']]}]
    p_scale = [{'op': 'test', 'path': '/channels/0/samples/0/data', 'value': p_sig[0]['value']},
               {'op': 'replace', 'path': '/channels/0/samples/1/data', 'value': [x + 5.0 for x in ws['channels'][0]['samples'][1]['data']]}]
    multi = [[p_sig, p_obs], [p_obs, p_sig], [p_add, p_tune], [p_tune, p_add], [p_sig, p_scale], [p_scale, p_sig], [p_sig, p_obs, p_add, p_tune]]
    p_bkg = [{'op': 'replace', 'path': '/channels/0/samples/1/data', 'value': [x + 11.0 for x in ws['channels'][0]['samples'][1]['data']]}]
    for k, pts in enumerate(multi):
        cases.append(dict(cmd='json2xml', ws=ws, via=rng.choice(['file', 'stdin']), patches=pts))
        pts = [p_bkg if p is p_obs else p for p in pts]      # ws.model(patches=...) patches the model spec: channels only
        if not q or k in (0, 2, 3, 4):
            cases.append(dict(cmd='cls', ws=ws, via='file', out='stdout', patches=pts, test_poi=1.5))
        if not q or k in (1, 3, 5, 6):
            cases.append(dict(cmd='fit', ws=ws, via='file', out=rng.choice(['stdout', 'file']), patches=pts, value=True))
    if not q:
        for _ in range(12):
            w = infer_ws(rng, rng.choice([1, 2]))
            pt = infer_patch(rng, w)
            cases.append(dict(cmd='cls', ws=w, via=rng.choice(['file', 'stdin']), out=rng.choice(['stdout', 'file']), measurement=rng.choice([None, 'shifted', 'nominal']),
                              patches=rng.choice([[], [pt]]), test_stat=rng.choice(['q', 'qtilde']), optimizer=rng.choice(['scipy', 'minuit']),
                              test_poi=round(rng.uniform(0.2, 3), 2), backend=rng.choice(['numpy', 'jax'])))
    # --- option values that are falsy in Python ---
    cases += falsy_value_cases(ctx, rng)
    # --- XML <-> JSON ---
    for i in range(ctx.n(4, 25)):
        w = spec_ws(rng)
        c = dict(cmd='json2xml', ws=w, via=rng.choice(['file', 'stdin']))
        if rng.random() < 0.6:
            c.update(specroot='cfg%d' % i, dataroot='root%d' % i, resultprefix='Top%d' % i)
        if rng.random() < 0.5:
            c['patches'] = [[{'op': 'replace', 'path': '/channels/0/samples/0/data', 'value': [float(x) + 1.5 for x in w['channels'][0]['samples'][0]['data']]}]]
        cases.append(c)
        cases.append(dict(cmd='xml2json', ws=w, out=rng.choice(['stdout', 'file']), moved=rng.random() < 0.4, validation_as_error=rng.choice([True, False])))
    return cases


def falsy_value_cases(ctx, rng):
    """every option at the values that are falsy in Python and still legal: numeric options at 0 / 0.0 / -0.0 (and a negative
    value), string options at the empty string -- both where '' names something (a measurement, a sample may be called '') and
    where it names nothing (then command line and library must fail alike) --, repeatable options given once with '', optimiser
    settings at 0.  The expected value is always the library call with literally the same value."""
    q = ctx.quick
    cases = []
    ws = infer_ws(rng, 1)
    # a measurement whose name is the empty string (schema: any string), configured differently from the default one
    ws['measurements'].append({'name': '', 'config': {'poi': 'mu', 'parameters': [{'name': 'bkgnorm', 'inits': [0.7], 'fixed': True},
                                                                                   {'name': 'mu', 'bounds': [[-3, 9]], 'inits': [0.25]}]}})
    patch = infer_patch(rng, ws)
    # --test-poi: zero in every spelling, for both statistics, default and named measurements; a negative value (inside the bounds of
    # the '' measurement, outside those of the others: qtilde is then refused by the library)
    zeros = [0, 0.0, -0.0]
    combos = list(itertools.product(zeros, ['qtilde', 'q'], [None, 'shifted', '']))
    for poi, ts, meas in (rng.sample(combos, 5) if q else combos):
        c = dict(cmd='cls', ws=ws, via=rng.choice(['file', 'stdin']), out=rng.choice(['stdout', 'file']), test_poi=poi, test_stat=ts)
        if meas is not None:
            c['measurement'] = meas
        cases.append(c)
    cases.append(dict(cmd='cls', ws=ws, via='file', out='stdout', test_poi=0, patches=[patch], optimizer='minuit'))
    cases.append(dict(cmd='cls', ws=ws, via='file', out='stdout', test_poi=-0.5, measurement='', test_stat='q'))
    cases.append(dict(cmd='cls', ws=ws, via='file', out='stdout', test_poi=rng.choice([-0.5, -1, -2.0]), test_stat=rng.choice(['q', 'qtilde'])))
    cases.append(dict(cmd='cls', ws=ws, via='file', out='stdout', test_poi=rng.choice([1, 2, 1e-3, 1e-9])))
    if not q:
        cases.append(dict(cmd='cls', ws=ws, via='file', out='stdout', test_poi=0, calctype='toybased'))
        cases.append(dict(cmd='cls', ws=ws, via='file', out='stdout', test_poi=0.0, backend='jax'))
    # --measurement '' (cls above), fit, inspect; on a workspace that has no such measurement as well
    cases.append(dict(cmd='fit', ws=ws, via='file', out='stdout', measurement='', value=True))
    cases.append(dict(cmd='inspect', ws=ws, via='file', out=rng.choice(['stdout', 'file']), measurement=''))
    plain = infer_ws(rng, 1)
    cases.append(dict(cmd=rng.choice(['fit', 'cls']), ws=plain, via='file', out='stdout', measurement=''))
    cases.append(dict(cmd='inspect', ws=plain, via='file', out='stdout', measurement=''))
    # optimiser settings at zero
    cases.append(dict(cmd='fit', ws=ws, via='file', out='stdout', optimizer='minuit', optconf=['strategy=0', 'verbose=0'], value=True))
    cases.append(dict(cmd=rng.choice(['fit', 'cls']), ws=ws, via='file', out='stdout', optconf=['maxiter=0']))
    cases.append(dict(cmd='cls', ws=ws, via='file', out='stdout', optimizer='minuit', optconf=['tolerance=0'], test_poi=0))
    # spec commands: '' as a name that exists / does not exist, '' as a new name
    sw = copy.deepcopy(ws)
    sw['channels'][0]['samples'].append({'name': '', 'data': [1.0 for _ in sw['channels'][0]['samples'][0]['data']],
                                         'modifiers': [{'name': '', 'type': 'normsys', 'data': {'hi': 1.1, 'lo': 0.9}}]})
    cases.append(dict(cmd='prune', ws=sw, via='file', out='stdout', _short=rng.random() < 0.5, measurement=['']))
    cases.append(dict(cmd='prune', ws=sw, via='stdin', out='file', _short=rng.random() < 0.5, sample=['']))
    cases.append(dict(cmd='prune', ws=sw, via='file', out='stdout', _short=rng.random() < 0.5, modifier=['']))
    cases.append(dict(cmd='prune', ws=sw, via='file', out='stdout', _short=True, **{rng.choice(['channel', 'modifier_type']): ['']}))
    cases.append(dict(cmd='rename', ws=sw, via='file', out='stdout', _short=rng.random() < 0.5, measurement=[['', 'named']]))
    cases.append(dict(cmd='rename', ws=sw, via='file', out='stdout', _short=rng.random() < 0.5, sample=[['', 'extra']], modifier=[['', 'sysx']]))
    cases.append(dict(cmd='rename', ws=sw, via='stdin', out='file', _short=rng.random() < 0.5, **rng.choice([dict(sample=[['signal', '']]), dict(measurement=[['nominal', '']])])))
    cases.append(dict(cmd='rename', ws=plain, via='file', out='stdout', _short=True, channel=[['', 'x']]))
    cases.append(dict(cmd='combine', ws=plain, ws2=plain, via='file', out='stdout', join=''))
    cases.append(dict(cmd='digest', ws=plain, via='file', algorithm=[''], output_json=rng.choice([None, True, False])))
    # patch sets: --name ''
    one = copy.deepcopy(plain)
    one['measurements'] = one['measurements'][:1]
    ps = patchset_for(rng, one)
    cases.append(dict(cmd='patchset extract', patchset=ps, name='', via='file', out='stdout'))
    cases.append(dict(cmd='patchset apply', ws=one, patchset=ps, name='', via='file', out='stdout'))
    # json2xml: directory / prefix options at ''
    for k in (['specroot', 'dataroot', 'resultprefix'] if not q else rng.sample(['specroot', 'dataroot', 'resultprefix'], 2)):
        cases.append(dict(cmd='json2xml', ws=plain, via='file', **{k: ''}))
    return cases


def prepare_xml(case, d):
    """export the workspace with the library so that xml2json has something to read; optionally move it and mount it back"""
    from harness.props import c18
    src = os.path.join(d, 'exported')
    shutil.rmtree(src, ignore_errors=True)
    c18.real_export(copy.deepcopy(case['ws']), src)
    case = dict(case, _xml=os.path.join(src, 'FitConfig.xml'), _basedir=src)
    if case.get('moved'):
        dst = os.path.join(d, 'moved')
        shutil.rmtree(dst, ignore_errors=True)
        shutil.move(src, dst)
        os.makedirs(src)      # the mount point named in the XML need not hold anything
        case.update(_xml=os.path.join(dst, 'FitConfig.xml'), _basedir=dst, mount=[[dst, src]])
    return case


def subprocess_cases(ctx, rng):
    ws = infer_ws(rng, 1)
    return [dict(cmd='sort', ws=ws, via='stdin', out='stdout'),
            dict(cmd='inspect', ws=ws, via='file', out='file', measurement='shifted'),
            dict(cmd='inspect', ws=ws, via='file', out='stdout', measurement='no_such_measurement'),
            dict(cmd='cls', ws=ws, via='stdin', out='stdout', measurement='shifted', test_stat='q', test_poi=1.5),
            dict(cmd='fit', ws=ws, via='file', out='file', value=True, optimizer='minuit'),
            dict(cmd='digest', ws=ws, via='stdin', algorithm=['md5'], output_json=True)][:ctx.n(5, 6)]


# the console script `pyhf = pyhf.cli:cli` of pyproject.toml, run against $VERIF_REPO/src (the package has no __main__)
ENTRY = 'import sys; from pyhf.cli import cli; sys.exit(cli())'


def sub_invoke_factory():
    env = dict(os.environ, PYTHONPATH=os.path.join(core.REPO, 'src'))

    def run(args, stdin=None):
        p = subprocess.run([sys.executable, '-W', 'ignore', '-c', ENTRY] + args, input=stdin, env=env, capture_output=True, text=True, timeout=600)
        return dict(exit=p.returncode, stdout=p.stdout, exc=None, msg=p.stderr.strip().split('\n')[-1][:160] if p.stderr else '')
    return run


# ----------------------------------------------------------------------------------------------------------------------
UNCONSUMED = []
FACT_NOTES = []


def case_public(case):
    return {k: v for k, v in case.items() if not k.startswith('_') or k in ('_short', '_long', '_aflag')}


def report(ctx, case, d, res, runner='CliRunner'):
    kind, text, det = res
    cul = ''
    if runner == 'CliRunner':
        cul = culprit(case, d, kind)
        if case['cmd'] in ('sort', 'digest', 'prune', 'rename', 'inspect') and 'ws' in case:
            from harness.props import c18

            def fails(w):
                r = differential(dict(case, ws=w), d + '-shrink')
                return r[0] if r is not None else None
            try:
                case = dict(case, ws=c18.shrink(case['ws'], fails))
                r2 = differential(case, d + '-shrink')
                if r2 is not None and r2[0] == kind:
                    kind, text, det = r2
            except Exception:
                pass
    fact = any(u[0] == case['cmd'] for u in UNCONSUMED)
    for c, note in FACT_NOTES:
        if c == case['cmd']:
            text += ' [extracted fact: %s]' % note
    if fact:
        text += ' [extracted fact: %r is parsed but never used by the command body]' % [u for u in UNCONSUMED if u[0] == case['cmd']]
    sig = '%s:%s%s' % (case['cmd'], kind, (':' + cul) if cul else '')
    ctx.violation(sig, '`pyhf %s`: %s%s' % (case['cmd'], text, (' [option not taking effect: %s]' % cul) if cul else ''),
                  dict(kind='cli', case=case_public(case), runner=runner, impl=det, option=cul, extracted_fact_unconsumed=[u for u in UNCONSUMED if u[0] == case['cmd']],
                       expected='exit 0 iff the library call succeeds; output carries the library value',
                       theorem='C19 differential run (validation) / C19_every_option_consumed'))


def run(ctx):
    import logging
    logging.getLogger('pyhf').setLevel(logging.CRITICAL)
    rng = ctx.rng
    tie = None
    table = None
    try:
        table = extract(ctx)
        ctx.coverage['extracted_facts'] = dict(parameters=len(table), commands=sorted({p['cmd'] for p in table}),
                                               unconsumed=[[p['cmd'], p['param']] for p in table if not p['used']])
        UNCONSUMED[:] = ctx.coverage['extracted_facts']['unconsumed']
        del FACT_NOTES[:]
        for c in ('cls', 'fit'):
            calls = ORDER_FACTS.get(c, [])
            if not calls or not {'optimizer', 'optconf'} <= set(calls[-1]):
                FACT_NOTES.append((c, 'the last set_backend call of `%s` does not carry --optimizer/--optconf (state-setting calls in order: %r)' % (c, calls)))
        for c, p, v, acc in LOOP_FACTS:
            if not acc:
                FACT_NOTES.append((c, 'the loop over the values of `%s` assigns %s without reading it: only the last value takes effect' % (p, v)))
        ctx.coverage['extracted_facts'].update(state_setting_calls={k: v for k, v in ORDER_FACTS.items() if v}, loops_over_repeatable_options=LOOP_FACTS,
                                               failed_order_or_loop_facts=[list(x) for x in FACT_NOTES])
    except facts.TieBroken as e:
        tie = 'fact extraction failed: %s' % e
    if tie is None:
        # tie to the source: the command bodies of pyhf/cli/*.py translated to coq/gen/CliGen.v (harness/props/c19_tie.py)
        try:
            from harness.props import c19_tie
            ctx.coverage['translated_from_source'] = c19_tie.extract(ctx)
        except facts.TieBroken as e:
            tie = ('translation of the command bodies of pyhf/cli/*.py to Gallina failed (harness/props/c19_tie.py; a command no longer has the dataflow shape '
                   'the model of coq/Cli.v / coq/TieCli.v transcribes): %s' % e)
    if tie is None:
        ok, txt = core.prove(ctx)
        if not ok:
            why = ('the command bodies translated from pyhf/cli/*.py no longer coincide with the hand model (coq/TieCli.v, C19_source_is_model_*): '
                   if ('TieCli' in txt or 'source_is_model' in txt or 'CliGen' in txt) else 'proof obligations of props/C19.v no longer check: ')
            tie = why + txt[-1000:]
            if table is not None and any(not p['used'] for p in table):
                tie = 'option parsed but never used by the command body: %r; ' % [[p['cmd'], p['param']] for p in table if not p['used']] + tie
    ctx.trusted += ['harness/props/c19_tie.py + harness/props/tie_translate.py / tie_translate_x4.py (python ast -> Gallina for the bodies of fit, cls, prune, rename, '
                    'combine, digest, sort, patchset extract / apply / verify / inspect, xml2json, json2xml; fail closed; the library calls are opaque functions whose '
                    'arguments are bound against the signatures read from the library source; reading stated in coq/gen/CliGen.v; `pyhf inspect` is not translated): '
                    'C19_source_is_model_* prove every translated command equal to the hand model',
                    'harness/props/c19.py: extractor (python ast -> FactsC19.v), cross-checked against click\'s own parameter tables at run time; '
                    'the dataflow is syntactic and conservative (weak updates): "consumed" is a necessary condition, the values are checked by the differential run',
                    'click (option parsing, CliRunner), json, yaml, jsonpatch are not modelled',
                    'toybased hypotest is run with 24 toys and a fixed numpy seed on both sides (ToyCalculator.__init__ wrapped by the harness)']
    ctx.assumptions += ['single CliRunner invocations, and the first invocation of a session, start from the numpy/scipy backend state a fresh process has']
    found = False
    cases = []
    sessions = []
    cdir = os.path.join(core.VERIF, 'corpus', 'C19')
    if os.path.isdir(cdir):
        for fn in sorted(os.listdir(cdir)):
            if fn.endswith('.json'):
                body = json.load(open(os.path.join(cdir, fn)))
                if 'session' in body:
                    sessions.append(body['session'])
                else:
                    cases.append(body['case'])
    ncorpus = len(cases)
    cases += gen_cases(ctx, rng)
    stats = dict(by_command={}, exit_nonzero=0, via={}, out={}, backends={}, optimizers={}, file_vs_stdout_pairs=0, subprocess=0,
                 falsy_option_values={})
    sigs = set()
    samples = []
    for i, case in enumerate(cases):
        d = os.path.join(ctx.work, 'case%d' % i)
        cmd = case['cmd']
        if cmd == 'xml2json':
            try:
                case = prepare_xml(case, d)
            except Exception as e:
                ctx.notes.append('xml2json case skipped: export failed (%s)' % core.exc_enum(e))
                continue
        try:
            res = differential(case, d)
        except Exception as e:          # the harness must not die on one case
            import traceback
            tie = tie or ('differential run crashed on a %s case: %s' % (cmd, traceback.format_exc()[-600:]))
            continue
        stats['by_command'][cmd] = stats['by_command'].get(cmd, 0) + 1
        for k, dd in (('via', stats['via']), ('out', stats['out']), ('backend', stats['backends']), ('optimizer', stats['optimizers'])):
            if case.get(k) is not None:
                dd[case[k]] = dd.get(case[k], 0) + 1
        for k, v in case.items():       # options given a value that is falsy in Python (0, 0.0, '', [''] ...)
            if k in DEFAULTS and DEFAULTS[k] != v and not isinstance(v, bool) and v is not None and \
                    (v == 0 or v == '' or (isinstance(v, list) and any(x == '' or (isinstance(x, list) and '' in x) for x in v))):
                kk = '%s:%s=%r' % (cmd, k, v if not isinstance(v, list) else '')
                stats['falsy_option_values'][kk] = stats['falsy_option_values'].get(kk, 0) + 1
        key = json.dumps({k: (v if k not in ('ws', 'ws2', 'patchset') else hashlib.sha1(json.dumps(v, sort_keys=True).encode()).hexdigest()[:8])
                          for k, v in case_public(case).items()}, sort_keys=True, default=str)
        nondefault = [k for k in case if k in DEFAULTS and case[k] != DEFAULTS[k]]
        if nondefault:
            sigs.add(key)
        if res is not None:
            report(ctx, case, d, res)
            found = True
        elif i >= ncorpus and len(samples) < 4 and cmd in ('cls', 'prune', 'combine', 'patchset extract'):
            a, s, o = build_args(case, d)
            samples.append(dict(args=[x if len(x) < 60 else '...' + x[-30:] for x in a], stdin=bool(s)))
        if res is None and LAST.get('lib') != 'ok':
            stats['exit_nonzero'] += 1
        # file output = stdout, on a subset
        if res is None and cmd in ('sort', 'prune', 'rename', 'combine', 'cls', 'fit', 'patchset extract', 'patchset apply', 'xml2json') \
                and (rng.random() < (0.35 if ctx.quick else 0.6)) and case.get('backend', 'numpy') in ('numpy', 'np'):
            fv = file_vs_stdout(case, d)
            stats['file_vs_stdout_pairs'] += 1
            if fv is not None:
                ctx.violation('%s:file-vs-stdout' % cmd, '`pyhf %s`: %s' % (cmd, fv[0]),
                              dict(kind='cli-file-stdout', case=case_public(case), impl=fv[1], expected='identical text', theorem='C19_file_equals_stdout'))
                found = True
    ctx.log('CliRunner cases done: %d' % len(cases))
    # sessions: several invocations in one process, each against the library under its own options
    sessions += gen_sessions(ctx, rng)
    sstat = dict(sessions=0, invocations=0, default_after_nondefault=0, state_option_changes=0, backends={}, optimizers={})
    for i, steps in enumerate(sessions):
        d = os.path.join(ctx.work, 'session%d' % i)
        try:
            sres = session_run(steps, d)
        except Exception:
            import traceback
            tie = tie or ('differential run crashed on a session: %s' % traceback.format_exc()[-600:])
            continue
        sstat['sessions'] += 1
        sstat['invocations'] += len(steps)
        for a, b in zip(steps, steps[1:]):
            ch = [o for o in STATE_OPTIONS if a.get(o) != b.get(o)]
            sstat['state_option_changes'] += len(ch)
            if ch and not any(o in b for o in STATE_OPTIONS):
                sstat['default_after_nondefault'] += 1
        for c in steps:
            for k, dd in (('backend', sstat['backends']), ('optimizer', sstat['optimizers'])):
                dd[c.get(k, '<absent>')] = dd.get(c.get(k, '<absent>'), 0) + 1
        sigs.add(json.dumps([{k: (v if k != 'ws' else hashlib.sha1(json.dumps(v, sort_keys=True).encode()).hexdigest()[:8]) for k, v in case_public(c).items()}
                             for c in steps], sort_keys=True, default=str))
        if sres is not None:
            report_session(ctx, steps, d, sres[0], sres[1])
            found = True
    stats['sessions'] = sstat
    ctx.notes.append('sessions: once a session named a non-numpy backend its later steps name the same backend (pyhf does not go back to numpy within one '
                     'process: candidate finding, not gated); optimizer/optconf/defaults are mixed freely')
    ctx.log('sessions done: %d' % len(sessions))
    # real processes
    srun = sub_invoke_factory()
    from concurrent.futures import ThreadPoolExecutor
    scases = subprocess_cases(ctx, rng)

    def one(ic):
        i, c = ic
        return c, differential(c, os.path.join(ctx.work, 'sub%d' % i), run=srun)
    with ThreadPoolExecutor(max_workers=1) as ex:      # library() touches global backend state: one at a time
        for c, res in ex.map(one, enumerate(scases)):
            stats['subprocess'] += 1
            if res is not None:
                report(ctx, c, os.path.join(ctx.work, 'subx'), res, runner='subprocess (console entry point pyhf.cli:cli)')
                found = True
    ctx.log('subprocess cases done')
    if tie and not found:
        ctx.violation('tie-broken', tie[:300], dict(kind='tie', detail=tie, theorem='props/C19.v'), nofail=True)
    ctx.coverage.update(evaluations=len(cases) + len(scases) + sstat['invocations'], distinct_nontrivial=len(sigs),
                        rule='an invocation with at least one option away from its default, distinct by (command, options, input/output route, input hash); '
                             'each is compared with the direct library call (exit status, values)',
                        validation_note='the differential run is VALIDATION, not proof: click parsing, process exit and serialisation are only observable by running them',
                        stats=stats, samples=samples)


def replay(body):
    if body.get('kind') == 'cli':
        d = os.path.join(core.WORK, 'C19-replay')
        shutil.rmtree(d, ignore_errors=True)
        case = body['case']
        if case['cmd'] == 'xml2json':
            case = prepare_xml(case, d)
        run = cli_invoke if body.get('runner', 'CliRunner') == 'CliRunner' else sub_invoke_factory()
        res = differential(case, d, run=run)
        print('case:', json.dumps({k: v for k, v in case.items() if k not in ('ws', 'ws2', 'patchset')}, default=str))
        print('result:', 'agrees with the library' if res is None else 'DISAGREES: %s: %s' % res[:2])
        if res is not None:
            print(json.dumps(res[2], indent=1, default=str)[:3000])
        return 0 if res is None else 1
    if body.get('kind') == 'cli-session':
        d = os.path.join(core.WORK, 'C19-replay')
        shutil.rmtree(d, ignore_errors=True)
        r = session_run(body['steps'], d)
        for i, c in enumerate(body['steps']):
            print('invocation %d:' % (i + 1), json.dumps({k: v for k, v in c.items() if k not in ('ws', 'ws2', 'patchset')}, default=str))
        print('result:', 'every invocation agrees with the library call under its own options' if r is None else
              'invocation %d DISAGREES: %s: %s' % (r[0] + 1, r[1][0], r[1][1]))
        if r is not None:
            print(json.dumps(r[1][2], indent=1, default=str)[:3000])
        return 0 if r is None else 1
    if body.get('kind') == 'cli-file-stdout':
        d = os.path.join(core.WORK, 'C19-replay')
        r = file_vs_stdout(body['case'], d)
        print('file vs stdout:', 'identical' if r is None else r)
        return 0 if r is None else 1
    print(body.get('detail'))
    return 0
