"""C09 - tie to the source: pyhf/infer/intervals/upper_limits.py (_interp, linear_grid_scan, toms748_scan with its nested functions
and its two extension loops, upper_limit) translated to coq/gen/UpperLimitGen.v on every run (translator: harness/props/tie_translate.py,
class Exec2; fail closed).  The proofs that the translated definitions equal the hand model of coq/UpperLimit.v are in
coq/TieUpperLimit.v; the theorems C09_source_is_model_* in coq/props/C09.v."""
import ast
import os

from harness import core, facts
from harness.props import tie_translate as tt

GEN_NAME = 'UpperLimitGen'
NUM = tt.NUM
LN = tt.LIST(NUM)
HRES = tt.PROD(NUM, LN)
CACHE = 'UpperLimit.cache N'                     # the python dict `cache`: insertion ordered, keys compared with ==
BRACKET = tt.PROD(NUM, NUM)
REL = 'infer/intervals/upper_limits.py'

GEN_HEADER = ('From Coq Require Import Bool Arith ZArith List.\nRequire Import PV.Num PV.UpperLimit.\nImport ListNotations.\nLocal Open Scope list_scope.\n'
              '(* GENERATED on every run by harness/props/c09_tie.py from $VERIF_REPO/src/pyhf/infer/intervals/upper_limits.py - do not edit.\n'
              '   Reading of the external names: hypotest(mu, data, model, return_expected_set=True, **hypotest_kwargs) is H mu; np.interp is np_interp\n'
              '   (None: ValueError), np.argmin / np.argmax are argmin / argmax (None: ValueError on an empty sequence), a[mask] is mask, a[::-1] is rev,\n'
              '   concatenate(.., axis=1) of row lists is map2 app and .T of rows of static width w is transpose w; the dict `cache` is an association\n'
              '   list (dmem / dget / dset below); scipy.optimize.toms748(f, a, b, args=(level, limit), ..) is run_toms_with: the external root finder\n'
              '   `toms limit g a b` returns the points it evaluated and its root, g being the value of f on a fresh cache, and every evaluation goes\n'
              '   through f on the current cache; a `while` loop is a recursion on fuel (None: still looping when the fuel is spent). *)\n')

PRELUDE = '''Definition dmem {N : Num} (c : cache N) (k : V N) : bool := match cfind c k with Some _ => true | None => false end.     (* k in c *)
Definition dget {N : Num} (c : cache N) (k : V N) : hres N := match cfind c k with Some r => r | None => (n0 N, []) end.         (* c[k] *)
Fixpoint dset {N : Num} (c : cache N) (k : V N) (v : hres N) : cache N :=                                                       (* c[k] = v *)
  match c with [] => [(k, v)] | (k', r) :: t => if neqb N k' k then (k', v) :: t else (k', r) :: dset t k v end.
Definition run_toms_with (N : Num) (f : cache N -> V N -> cache N * V N) (toms : nat -> (V N -> V N) -> V N -> V N -> list (V N) * V N)
           (c : cache N) (limit : nat) (a b : V N) : cache N * V N :=
  let (pts, root) := toms limit (fun poi => snd (f [] poi)) a b in (fold_left (fun c p => fst (f c p)) pts c, root).
'''

SIG = '(N : Num) (H : V N -> hres N)'


def ext(v, tag):
    return isinstance(v, tt.Ext) and v.tag == tag


def natlit(v, what):
    if isinstance(v, tt.T) and v.ty == tt.NAT:
        return v.s
    if isinstance(v, tt.S) and isinstance(v.v, int) and not isinstance(v.v, bool) and v.v >= 0:
        return '%d' % v.v
    raise tt.TB('%s: a natural number was expected, got %r' % (what, v))


class UX(tt.Exec2):
    dflt = {NUM: '(n0 N)', tt.NAT: '0', tt.BOOL: 'false', tt.OPTNUM: 'None'}

    def __init__(self, tree, roles=None, toms_fn=None, let_calls=False):
        super().__init__()
        self.tree, self.roles, self.toms_fn, self.let_calls = tree, roles or {}, toms_fn, let_calls
        self.aux = []              # auxiliary definitions (loops) emitted before the main one
        self.nloop = 0
        self.patterns = [(tt.pattern('model.config.suggested_bounds()[model.config.par_slice(model.config.poi_name).start]'), tt.T('bounds', BRACKET))]

    # integer literals other than 0 and 1 are nofZ (the hand model's `two`)
    def num(self, v, node=None):
        if tt.is_static_num(v) and isinstance(v.v, int) and v.v not in (0, 1):
            return '(nofZ N (%d))' % v.v
        return super().num(v, node)

    def global_name(self, name, st):
        if name in ('get_backend', 'float', 'len', 'tuple', 'list', 'range', 'np', 'hypotest', 'toms748', '_interp', 'linear_grid_scan', 'toms748_scan'):
            return tt.Ext(name)
        raise tt.TB('unknown name %s' % name)

    def attr_ext(self, base, attr, node, st):
        if isinstance(base, tt.Ext) and base.tag == 'tensorlib':
            return tt.Ext('tensorlib.' + attr)
        if isinstance(base, tt.Ext) and base.tag == 'np' and attr in ('interp', 'asarray', 'any', 'argmin', 'argmax'):
            return tt.Ext('np.' + attr)
        if tt.is_list(base) and attr == 'tolist':
            return tt.Ext('tolist', base)
        if isinstance(base, tt.T) and base.ty == CACHE and attr == 'values':
            return tt.Ext('dict.values', base)
        if isinstance(base, tt.T) and base.ty == tt.LIST(LN) and attr == 'T':
            w = getattr(base, 'rowwidth', None)
            if w is None:
                raise tt.TB('.T of rows of unknown width (line %d)' % node.lineno)
            return tt.T('(transpose %d %s)' % (w, base.s), tt.LIST(LN))
        raise tt.TB('attribute .%s of %r (line %d)' % (attr, base, node.lineno))

    # ---- the dict -----------------------------------------------------------------------------------------------------------
    def compare1(self, op, a, b, node):
        opn = type(op).__name__
        if opn in ('In', 'NotIn') and isinstance(b, tt.T) and b.ty == CACHE:
            s = '(dmem %s %s)' % (b.s, self.num(a, node))
            return tt.T(s if opn == 'In' else '(negb %s)' % s, tt.BOOL)
        return super().compare1(op, a, b, node)

    def subscript(self, base, idx, node):
        if isinstance(base, tt.T) and base.ty == CACHE:
            return tt.T('(dget %s %s)' % (base.s, self.num(idx, node)), HRES)
        return super().subscript(base, idx, node)

    def assign(self, target, val, st, node):
        if isinstance(val, tt.Dct) and not val.items and isinstance(target, ast.Name):
            st.env[target.id] = tt.T('[]', CACHE)
            return
        if isinstance(target, ast.Subscript) and isinstance(target.value, ast.Name) and isinstance(st.env.get(target.value.id), tt.T) \
                and st.env[target.value.id].ty == CACHE:
            cur = st.env[target.value.id]
            k = self.num(self.expr(target.slice, st), node)
            if not (isinstance(val, tt.T) and val.ty == HRES):
                raise tt.TB('storing %r into the cache (line %d)' % (val, node.lineno))
            st.env[target.value.id] = tt.T('(dset %s %s %s)' % (cur.s, k, val.s), CACHE)
            return
        super().assign(target, val, st, node)

    # ---- expressions with effects on the cache: both sides of a conditional expression start from the same state ---------------------
    def expr(self, e, st):
        if isinstance(e, ast.IfExp):
            c = self.test(e.test, st)
            if isinstance(c, tt.S):
                return self.expr(e.body if self.truth(c) else e.orelse, st)
            if isinstance(c, (tt.IsNone, tt.Vec)):
                raise tt.TB('conditional expression test (line %d)' % e.lineno)
            cs = self.boolterm(c)
            s1, s2 = st.copy(), st.copy()
            a, b = self.expr(e.body, s1), self.expr(e.orelse, s2)
            m = self.merge_states(cs, s1, s2)
            st.env.update(m.env)
            return self.merge(cs, a, b)
        return super().expr(e, st)

    def comprehension(self, e, st):
        g = e.generators[0] if len(e.generators) == 1 else None
        if g is not None and not g.ifs and isinstance(g.target, ast.Name):
            it = self.expr(g.iter, st)
            if isinstance(it, tt.Lst) and it.items and all(tt.is_static_num(x) and isinstance(x.v, int) for x in it.items):
                # a static range: unrolled, the state threaded through the iterations in order
                out = []
                saved = st.env.get(g.target.id)
                for x in it.items:
                    st.env[g.target.id] = x
                    out.append(self.expr(e.elt, st))
                if saved is None:
                    st.env.pop(g.target.id, None)
                else:
                    st.env[g.target.id] = saved
                return tt.Lst(out)
        return super().comprehension(e, st)

    # ---- calls ------------------------------------------------------------------------------------------------------------------
    def hypotest_call(self, e, st):
        kws = {k.arg: k.value for k in e.keywords}
        if len(e.args) != 3 or set(kws) != {'return_expected_set', None}:
            raise tt.TB('hypotest (line %d) is not called as hypotest(poi, data, model, return_expected_set=True, **hypotest_kwargs)' % e.lineno)
        args = [self.expr(a, st) for a in e.args]
        res = self.expr(kws['return_expected_set'], st)
        if not (ext(args[1], 'data') and ext(args[2], 'model') and isinstance(res, tt.S) and res.v is True and ext(self.expr(kws[None], st), 'hypotest_kwargs')):
            raise tt.TB('hypotest (line %d) is not called as hypotest(poi, data, model, return_expected_set=True, **hypotest_kwargs)' % e.lineno)
        return tt.T('(H %s)' % self.num(args[0], e), HRES)

    def call_star(self, f, e, st):
        if ext(f, 'hypotest'):
            return self.hypotest_call(e, st)
        if ext(f, 'toms748'):
            return self.toms_call(e, st)
        if ext(f, 'linear_grid_scan') or ext(f, 'toms748_scan'):
            return self.scan_call(f.tag, e, st)
        raise tt.TB('*args / **kwargs in a call (line %d)' % e.lineno)

    def cached_call(self, poi, st, node):
        """f_cached(poi): the value, the cache of the state being updated"""
        cur = st.env.get('cache')
        if not (isinstance(cur, tt.T) and cur.ty == CACHE):
            raise tt.TB('call of the cached evaluator without a cache (line %d)' % node.lineno)
        call = '(gen_f_cached N H %s %s)' % (cur.s, self.num(poi, node))
        if self.let_calls:
            var = self.fresh_var('p')
            self.pending.append((call, var, None))
            call = var
        st.env['cache'] = tt.T('(fst %s)' % call, CACHE)
        return tt.T('(snd %s)' % call, HRES)

    def toms_call(self, e, st):
        """toms748(f, a, b, args=(level, limit), k=2, xtol=atol, rtol=rtol)  /  toms748(f, *best_bracket(idx), args=..)"""
        kws = {k.arg: self.expr(k.value, st) for k in e.keywords}
        if set(kws) != {'args', 'k', 'xtol', 'rtol'} or not (isinstance(kws['k'], tt.S) and kws['k'].v == 2) or not ext(kws['xtol'], 'atol') or not ext(kws['rtol'], 'rtol'):
            raise tt.TB('toms748 (line %d): keyword arguments are not args=.., k=2, xtol=atol, rtol=rtol' % e.lineno)
        pos = []
        for a in e.args:
            if isinstance(a, ast.Starred):
                v = self.expr(a.value, st)
                if not isinstance(v, tt.Tup):
                    raise tt.TB('toms748 (line %d): * of %r' % (e.lineno, v))
                pos += v.items
            else:
                pos.append(self.expr(a, st))
        if len(pos) != 3 or not ext(pos[0], 'role:objective'):
            raise tt.TB('toms748 (line %d) is not called with (objective, a, b)' % e.lineno)
        fn = self.roles['objective']
        params = [x.arg for x in fn.args.args]
        if not (isinstance(kws['args'], tt.Tup) and len(kws['args'].items) == len(params) - 1):
            raise tt.TB('toms748 (line %d): args does not fill the parameters of the objective after the first' % e.lineno)
        b = dict(zip(params[1:], kws['args'].items))
        if set(b) != {'level', 'limit'}:
            raise tt.TB('the objective\'s parameters after the first are not level, limit')
        cur = st.env.get('cache')
        lim = natlit(b['limit'], 'toms748 args')
        call = '(run_toms_with N (fun c poi => gen_f N H c poi %s %s) toms %s %s %s %s)' % (self.num(b['level'], e), lim, cur.s, lim, self.num(pos[1], e), self.num(pos[2], e))
        var = self.fresh_var('t')
        self.pending.append((call, var, None))
        st.env['cache'] = tt.T('(fst %s)' % var, CACHE)
        return tt.T('(snd %s)' % var, NUM)

    def scan_call(self, tag, e, st):
        if any(isinstance(a, ast.Starred) for a in e.args):
            raise tt.TB('%s (line %d): *args' % (tag, e.lineno))
        star = [k for k in e.keywords if k.arg is None]
        if len(star) != 1 or not ext(self.expr(star[0].value, st), 'hypotest_kwargs'):
            raise tt.TB('%s (line %d): the hypotest options are not forwarded as **hypotest_kwargs' % (tag, e.lineno))
        fn = facts.find_func(self.tree, tag)
        bound, params, extra = tt.bind_call(fn, [self.expr(a, st) for a in e.args], {k.arg: self.expr(k.value, st) for k in e.keywords if k.arg is not None})
        if extra or not (ext(bound.get('data'), 'data') and ext(bound.get('model'), 'model')):
            raise tt.TB('%s (line %d) does not receive (data, model)' % (tag, e.lineno))
        if tag == 'linear_grid_scan':
            if set(bound) != {'data', 'model', 'scan', 'level', 'return_results'}:
                raise tt.TB('linear_grid_scan (line %d): arguments %r' % (e.lineno, sorted(bound)))
            rr = bound['return_results']
            if not (isinstance(rr, tt.S) and isinstance(rr.v, bool)):
                raise tt.TB('linear_grid_scan (line %d): return_results is not the caller\'s flag' % e.lineno)
            out = tt.T('(gen_linear_grid_scan%s N H %s %s)' % ('_results' if rr.v else '', self.list_of(bound['scan']), self.num(bound['level'], e)), 'grid-out')
            out.with_results = rr.v
            return out
        if set(bound) != {'data', 'model', 'bounds_low', 'bounds_up', 'level', 'from_upper_limit_fn'}:
            raise tt.TB('toms748_scan (line %d): arguments %r' % (e.lineno, sorted(bound)))
        fl = bound['from_upper_limit_fn']
        if not (isinstance(fl, tt.S) and fl.v is True):
            raise tt.TB('toms748_scan (line %d): from_upper_limit_fn is not True' % e.lineno)
        scrut = '(gen_toms748_scan_results N H toms fuel %s %s %s)' % (self.num(bound['bounds_low'], e), self.num(bound['bounds_up'], e), self.num(bound['level'], e))
        var = self.fresh_var('r')
        self.pending.append((scrut, var, 'ScanFailed'))
        ty = tt.PROD(tt.PROD(NUM, LN), tt.PROD(LN, tt.LIST(HRES)))
        return tt.T(var, ty)

    def list_of(self, v):
        if tt.is_list(v) and v.ty == LN:
            return v.s
        raise tt.TB('a list of numbers was expected, got %r' % (v,))

    def call(self, e, st):
        if isinstance(e.func, ast.Name) and e.func.id in st.env and isinstance(st.env[e.func.id], tt.Ext) and st.env[e.func.id].tag.startswith('role:'):
            role = st.env[e.func.id].tag[5:]
            if e.keywords or any(isinstance(a, ast.Starred) for a in e.args) or len(e.args) != 1:
                raise tt.TB('call of the nested function %s (line %d)' % (e.func.id, e.lineno))
            arg = self.expr(e.args[0], st)
            if role == 'cached':
                return self.cached_call(arg, st, e)
            if role == 'bracket':
                lv = st.env.get('level')
                cur = st.env.get('cache')
                var = self.fresh_var('b')
                self.pending.append(('(gen_best_bracket N %s %s %s)' % (cur.s, self.num(lv, e), natlit(arg, 'best_bracket')), var, 'ValueError'))
                return tt.Tup([tt.T('(fst %s)' % var, NUM), tt.T('(snd %s)' % var, NUM)])
            raise tt.TB('direct call of the objective (line %d)' % e.lineno)
        return super().call(e, st)

    def call_builtin(self, f, args, kwargs, e, st):
        if f.tag == 'list' and len(args) == 1 and not kwargs and isinstance(args[0], tt.T) and args[0].ty == CACHE:
            return tt.T('(map fst %s)' % args[0].s, LN)                       # list(dict): its keys
        if f.tag == 'tensorlib.astensor' and len(args) == 1 and not kwargs and (isinstance(args[0], tt.T) or isinstance(args[0], tt.Lst)):
            return args[0] if isinstance(args[0], tt.T) else self.keep_width(args[0])
        if f.tag == 'tensorlib.concatenate' and len(args) == 1 and set(kwargs) == {'axis'} and isinstance(kwargs['axis'], tt.S) and kwargs['axis'].v == 1 \
                and isinstance(args[0], tt.Lst) and len(args[0].items) == 2 and all(isinstance(x, tt.T) and x.ty == tt.LIST(LN) for x in args[0].items):
            a, b = args[0].items
            out = tt.T('(map2 (@app (V N)) %s %s)' % (a.s, b.s), tt.LIST(LN))
            if getattr(a, 'rowwidth', None) is not None and getattr(b, 'rowwidth', None) is not None:
                out.rowwidth = a.rowwidth + b.rowwidth
            return out
        return super().call_builtin(f, args, kwargs, e, st)

    def keep_width(self, lst):
        return self.as_term(lst)

    def call_ext(self, f, args, kwargs, node, st):
        tag, ln = f.tag, node.lineno
        if tag == 'toms748':
            return self.toms_call(node, st)
        if tag == 'tolist' and not args and not kwargs:
            return f.data
        if tag == 'dict.values' and not args and not kwargs:
            return tt.T('(map snd %s)' % f.data.s, tt.LIST(HRES))
        if tag == 'np.asarray' and len(args) == 1 and not kwargs:
            return args[0] if isinstance(args[0], (tt.T, tt.Vec)) else self.as_term(args[0])
        if tag == 'np.interp' and len(args) == 3 and not kwargs:
            return tt.T('(np_interp %s %s %s)' % (self.num(args[0], node), self.list_of(args[1]), self.list_of(args[2])), tt.OPTNUM)
        if tag == 'np.any' and len(args) == 1 and not kwargs and isinstance(args[0], tt.Vec):
            v = args[0]
            return tt.T('(existsb (fun %s => %s) %s)' % (v.var, self.boolterm(v.body), v.src), tt.BOOL)
        if tag in ('np.argmin', 'np.argmax') and len(args) == 1 and not kwargs:
            var = self.fresh_var('i')
            self.pending.append(('(%s %s)' % (tag[3:], self.list_of(args[0])), var, 'ValueError'))
            return tt.T(var, tt.NAT)
        if tag == '_interp' and len(args) == 3 and not kwargs:
            return tt.T('(gen_interp N %s %s %s)' % (self.num(args[0], node), self.list_of(args[1]), self.list_of(args[2])), tt.OPTNUM)
        raise tt.TB('call of %r (line %d)' % (f, ln))

    # ---- statements -------------------------------------------------------------------------------------------------------------
    def stmt(self, s, st, rest):
        if isinstance(s, ast.FunctionDef) and self.roles and s in self.roles.values():
            role = [k for k, v in self.roles.items() if v is s][0]
            st.env[s.name] = tt.Ext('role:' + role)
            return None
        return super().stmt(s, st, rest)

    def while_stmt(self, s, st, rest):
        """while cond: body   ->   a recursion on fuel over the variables the body assigns (and the cache, if the body evaluates through it)"""
        if s.orelse:
            raise tt.TB('while .. else (line %d)' % s.lineno)
        names = []
        for n in s.body:
            for m in ast.walk(n):
                if isinstance(m, ast.Name) and isinstance(m.ctx, ast.Store) and m.id not in names:
                    names.append(m.id)
        uses_cache = any(isinstance(m, ast.Call) and isinstance(m.func, ast.Name) and ext(st.env.get(m.func.id), 'role:cached') for n in s.body for m in ast.walk(n))
        lvars = (['cache'] if uses_cache else []) + names
        tys = []
        for v in lvars:
            cur = st.env.get(v)
            if not isinstance(cur, tt.T):
                raise tt.TB('while loop (line %d): %s is not a term before the loop' % (s.lineno, v))
            tys.append(cur.ty)
        self.nloop += 1
        name = 'gen_while_%d' % self.nloop
        sub = UX(self.tree, self.roles, self.toms_fn, let_calls=False)
        lst = tt.St(env={k: v for k, v in st.env.items() if isinstance(v, tt.Ext)})
        lst.env['level'] = tt.T('level', NUM)
        cnames = [v if v == 'cache' else 's%d' % i for i, v in enumerate(lvars)]        # positional names: renaming a python local changes nothing
        for v, cn, ty in zip(lvars, cnames, tys):
            lst.env[v] = tt.T(cn, ty)
        c = sub.test(s.test, lst.copy())
        if sub.pending or not (isinstance(c, tt.T) and c.ty == tt.BOOL):
            raise tt.TB('while loop (line %d): test' % s.lineno)
        o = sub.block(s.body, lst.copy())
        if not isinstance(o, tt.Fall):
            raise tt.TB('while loop (line %d): the body branches, returns or raises' % s.lineno)
        new = []
        for v, ty in zip(lvars, tys):
            nv = o.st.env.get(v)
            if tt.is_static_num(nv) and ty == NUM:
                nv = tt.T(self.num(nv), NUM)
            if not (isinstance(nv, tt.T) and nv.ty == ty):
                raise tt.TB('while loop (line %d): %s changes type' % (s.lineno, v))
            new.append(nv.s)
        tup = lambda xs: xs[0] if len(xs) == 1 else '(' + ', '.join(xs) + ')'
        rty = ' * '.join(tt.coqty(t) if ' ' not in tt.coqty(t) or tt.coqty(t).startswith('(') else tt.coqty(t) for t in tys)
        sig = ' '.join('(%s : %s)' % (v, tt.coqty(t)) for v, t in zip(cnames, tys))
        self.aux.append('Fixpoint %s %s (fuel : nat) (level : V N) %s {struct fuel} : option (%s) :=\n  match fuel with O => None | S fuel\' => if %s then %s N H fuel\' level %s else Some %s end.\n'
                        % (name, SIG, sig, rty, c.s, name, ' '.join(new), tup(cnames)))
        var = self.fresh_var('w')
        call = '(%s N H fuel %s %s)' % (name, self.num(st.env.get('level'), s), ' '.join(st.env[v].s for v in lvars))
        # projections of the left-nested tuple
        st2 = st.copy()
        cur = var
        for v, ty in reversed(list(zip(lvars, tys))[1:]):
            st2.env[v] = tt.T('(snd %s)' % cur, ty)
            cur = '(fst %s)' % cur
        st2.env[lvars[0]] = tt.T(cur, tys[0])
        return tt.Br2('(match %s with None => @@0@@ | Some %s => @@1@@ end)' % (call, var), (tt.Exc('OutOfFuel', st), self.block(rest, st2)))


# ------------------------------------------------------------------------------------------------------------------------------
def params_of(fn):
    a = fn.args
    if a.posonlyargs or a.vararg or a.kwonlyargs:
        raise tt.TB('%s: signature outside the translator' % fn.name)
    return [x.arg for x in a.args], (a.kwarg.arg if a.kwarg else None)


def nested_roles(toms):
    """the roles of the nested functions of toms748_scan, read off their use (as in c09.extract): the one calling hypotest is the cached
    evaluator, the first argument of every toms748 call is the objective, the one whose result is unpacked into a toms748 call chooses the bracket"""
    nested = {n.name: n for n in toms.body if isinstance(n, ast.FunctionDef)}
    calls = lambda fn, name: [n for n in ast.walk(fn) if isinstance(n, ast.Call) and isinstance(n.func, ast.Name) and n.func.id == name]
    tc = calls(toms, 'toms748')
    fnames = {c.args[0].id for c in tc if c.args and isinstance(c.args[0], ast.Name)}
    cached = [n for n in nested.values() if calls(n, 'hypotest')]
    bnames = {a.value.func.id for c in tc for a in c.args if isinstance(a, ast.Starred) and isinstance(a.value, ast.Call) and isinstance(a.value.func, ast.Name)}
    if len(fnames) != 1 or len(cached) != 1 or len(bnames) != 1 or len(nested) != 3:
        raise tt.TB('toms748_scan: nested functions not recognised (objective %r, cached %r, bracket %r)' % (sorted(fnames), [c.name for c in cached], sorted(bnames)))
    roles = {'cached': cached[0], 'objective': nested.get(next(iter(fnames))), 'bracket': nested.get(next(iter(bnames)))}
    if None in roles.values() or len({id(v) for v in roles.values()}) != 3:
        raise tt.TB('toms748_scan: nested functions not recognised')
    return roles


def generate():
    tree, path = facts.parse(REL)
    text, info = GEN_HEADER + PRELUDE, {}
    hdr = lambda fn: '\n' + tt.source_comment(REL, fn, path)
    base_env = lambda: {'data': tt.Ext('data'), 'model': tt.Ext('model'), 'hypotest_kwargs': tt.Ext('hypotest_kwargs')}

    # ---- _interp(x, xp, fp)
    fn = facts.find_func(tree, '_interp')
    if params_of(fn) != (['x', 'xp', 'fp'], None):
        raise tt.TB('_interp: signature changed')
    x = UX(tree)
    x.locals = tt.assigned_locals(fn)
    o = tt.only_ret(x.block(fn.body, tt.St(env={'x': tt.T('x', NUM), 'xp': tt.T('xp', LN), 'fp': tt.T('fp', LN)})), '_interp')
    if not (isinstance(o.val, tt.T) and o.val.ty == tt.OPTNUM):
        raise tt.TB('_interp returns %r' % (o.val,))
    text += hdr(fn) + 'Definition gen_interp (N : Num) (x : V N) (xp fp : list (V N)) : option (V N) :=\n  %s.\n' % o.val.s
    info['gen_interp'] = True

    # ---- linear_grid_scan(data, model, scan, level=0.05, return_results=False, **hypotest_kwargs)
    fn = facts.find_func(tree, 'linear_grid_scan')
    if params_of(fn) != (['data', 'model', 'scan', 'level', 'return_results'], 'hypotest_kwargs'):
        raise tt.TB('linear_grid_scan: signature changed')
    text += hdr(fn)
    for rr in (True, False):
        x = UX(tree)
        x.locals = tt.assigned_locals(fn)
        env = base_env()
        env.update(scan=tt.T('scan', LN), level=tt.T('level', NUM), return_results=tt.S(rr))
        o = tt.only_ret(x.block(fn.body, tt.St(env=env)), 'linear_grid_scan')
        t = x.as_term(o.val)
        want = tt.PROD(tt.PROD(tt.OPTNUM, tt.LIST(tt.OPTNUM)), tt.PROD(LN, tt.LIST(HRES))) if rr else tt.PROD(tt.OPTNUM, tt.LIST(tt.OPTNUM))
        if t.ty != want:
            raise tt.TB('linear_grid_scan(return_results=%r) returns a %r' % (rr, t.ty))
        text += 'Definition gen_linear_grid_scan%s %s (scan : list (V N)) (level : V N) : %s :=\n  %s.\n' % ('_results' if rr else '', SIG, tt.coqty(want), t.s)
    info['gen_linear_grid_scan'] = True

    # ---- toms748_scan: nested functions first
    toms = facts.find_func(tree, 'toms748_scan')
    if params_of(toms) != (['data', 'model', 'bounds_low', 'bounds_up', 'level', 'atol', 'rtol', 'from_upper_limit_fn'], 'hypotest_kwargs'):
        raise tt.TB('toms748_scan: signature changed')
    if 'level' in tt.assigned_locals(toms) - set():
        stores = [n for n in ast.walk(toms) if isinstance(n, ast.Name) and isinstance(n.ctx, ast.Store) and n.id in ('level', 'cache')]
        # `cache` is bound once (the empty dict); `level` only as a parameter of the objective
        if any(n.id == 'level' for n in stores):
            raise tt.TB('toms748_scan: level is reassigned')
    roles = nested_roles(toms)
    for role, fn in roles.items():
        for n in ast.walk(fn):
            if isinstance(n, (ast.Nonlocal, ast.Global)):
                raise tt.TB('%s: nonlocal / global' % fn.name)
    # cached evaluator
    fn = roles['cached']
    if params_of(fn) != ([fn.args.args[0].arg], None) or fn.args.defaults:
        raise tt.TB('%s: signature is not (poi)' % fn.name)
    x = UX(tree, roles)
    x.locals = tt.assigned_locals(fn)
    env = base_env()
    env.update({fn.args.args[0].arg: tt.T('poi', NUM), 'cache': tt.T('cache', CACHE)})
    o = tt.only_ret(x.block(fn.body, tt.St(env=env)), fn.name)
    c2 = o.st.env['cache']
    if not (isinstance(o.val, tt.T) and o.val.ty == HRES and isinstance(c2, tt.T) and c2.ty == CACHE):
        raise tt.TB('%s returns %r' % (fn.name, o.val))
    text += hdr(fn) + 'Definition gen_f_cached %s (cache : UpperLimit.cache N) (poi : V N) : UpperLimit.cache N * hres N :=\n  (%s, %s).\n' % (SIG, c2.s, o.val.s)
    # objective
    fn = roles['objective']
    ps, _ = params_of(fn)
    if len(ps) != 3 or ps[1:] != ['level', 'limit'] or len(fn.args.defaults) != 1 or not (isinstance(fn.args.defaults[0], ast.Constant) and fn.args.defaults[0].value == 0):
        raise tt.TB('%s: signature is not (poi, level, limit=0)' % fn.name)
    x = UX(tree, roles)
    x.locals = tt.assigned_locals(fn)
    env = base_env()
    env.update({ps[0]: tt.T('poi', NUM), 'level': tt.T('level', NUM), 'limit': tt.T('limit', tt.NAT), 'cache': tt.T('cache', CACHE),
                roles['cached'].name: tt.Ext('role:cached')})
    o = tt.only_ret(x.block(fn.body, tt.St(env=env)), fn.name)
    c2 = o.st.env['cache']
    text += hdr(fn) + 'Definition gen_f %s (cache : UpperLimit.cache N) (poi level : V N) (limit : nat) : UpperLimit.cache N * V N :=\n  (%s, %s).\n' % (SIG, c2.s, x.num(o.val))
    # bracket chooser
    fn = roles['bracket']
    if params_of(fn) != (['limit'], None) or fn.args.defaults:
        raise tt.TB('%s: signature is not (limit)' % fn.name)
    x = UX(tree, roles)
    x.locals = tt.assigned_locals(fn)
    env = {'limit': tt.T('limit', tt.NAT), 'level': tt.T('level', NUM), 'cache': tt.T('cache', CACHE)}
    o = x.block(fn.body, tt.St(env=env))

    def leaf_b(l):
        if isinstance(l, tt.Exc):
            if l.name != 'ValueError':
                raise tt.TB('%s raises %s' % (fn.name, l.name))
            return 'None'
        if not (isinstance(l, tt.Ret) and isinstance(l.val, tt.Tup) and len(l.val.items) == 2):
            raise tt.TB('%s does not return a pair' % fn.name)
        return '(Some (%s, %s))' % tuple(x.num(v) for v in l.val.items)
    text += hdr(fn) + 'Definition gen_best_bracket (N : Num) (cache : UpperLimit.cache N) (level : V N) (limit : nat) : option (V N * V N) :=\n  %s.\n' % tt.render2(o, leaf_b)
    info.update(gen_f_cached=True, gen_f=True, gen_best_bracket=True, nested={k: v.name for k, v in roles.items()})

    # ---- toms748_scan itself
    mains = ''
    for fl in (True, False):
        x = UX(tree, roles, toms, let_calls=True)
        x.locals = tt.assigned_locals(toms)
        env = base_env()
        env.update(bounds_low=tt.T('bounds_low', NUM), bounds_up=tt.T('bounds_up', NUM), level=tt.T('level', NUM), atol=tt.Ext('atol'), rtol=tt.Ext('rtol'),
                   from_upper_limit_fn=tt.S(fl))
        o = x.block(toms.body, tt.St(env=env))
        want = tt.PROD(tt.PROD(NUM, LN), tt.PROD(LN, tt.LIST(HRES))) if fl else tt.PROD(NUM, LN)

        def leaf_t(l):
            if isinstance(l, tt.Exc):
                if l.name not in ('ValueError', 'OutOfFuel'):
                    raise tt.TB('toms748_scan raises %s' % l.name)
                return 'None'
            if not isinstance(l, tt.Ret):
                raise tt.TB('toms748_scan can end without a return')
            t = x.as_term(l.val)
            if t.ty != want:
                raise tt.TB('toms748_scan(from_upper_limit_fn=%r) returns a %r' % (fl, t.ty))
            return '(Some %s)' % t.s
        body = tt.render2(o, leaf_t)
        if fl:
            text += ''.join(hdr(toms) + a for a in x.aux[:1]) + ''.join(x.aux[1:])
            info['loops'] = len(x.aux)
        mains += ('Definition gen_toms748_scan%s %s (toms : nat -> (V N -> V N) -> V N -> V N -> list (V N) * V N) (fuel : nat) (bounds_low bounds_up level : V N) : option (%s) :=\n  %s.\n'
                  % ('_results' if fl else '', SIG, tt.coqty(want), body))
    text += mains
    info['gen_toms748_scan'] = True

    # ---- upper_limit(data, model, scan=None, level=0.05, return_results=False, **hypotest_kwargs)
    fn = facts.find_func(tree, 'upper_limit')
    if params_of(fn) != (['data', 'model', 'scan', 'level', 'return_results'], 'hypotest_kwargs'):
        raise tt.TB('upper_limit: signature changed')
    d = tt.defaults_of(fn).get('scan')
    if not (isinstance(d, ast.Constant) and d.value is None):
        raise tt.TB('upper_limit: the default of scan is not None')
    text += hdr(fn)
    for rr in (True, False):
        x = UX(tree)
        x.locals = tt.assigned_locals(fn)
        env = base_env()
        env.update(scan=tt.T('scan', tt.OPTION(LN), ('name', 'scan')), level=tt.T('level', NUM), return_results=tt.S(rr))
        o = x.block(fn.body, tt.St(env=env))
        gty = tt.coqty(tt.PROD(tt.PROD(tt.OPTNUM, tt.LIST(tt.OPTNUM)), tt.PROD(LN, tt.LIST(HRES))) if rr else tt.PROD(tt.OPTNUM, tt.LIST(tt.OPTNUM)))
        aty = tt.coqty(tt.PROD(tt.PROD(NUM, LN), tt.PROD(LN, tt.LIST(HRES))) if rr else tt.PROD(NUM, LN))

        def leaf_u(l):
            if isinstance(l, tt.Exc):
                if l.name != 'ScanFailed':
                    raise tt.TB('upper_limit raises %s' % l.name)
                return '(inr None)'
            if not isinstance(l, tt.Ret):
                raise tt.TB('upper_limit can end without a return')
            if isinstance(l.val, tt.T) and l.val.ty == 'grid-out':
                if l.val.with_results != rr:
                    raise tt.TB('upper_limit: the grid scan is not given the caller\'s return_results')
                return '(inl %s)' % l.val.s
            t = x.as_term(l.val)
            if tt.coqty(t.ty) != aty:
                raise tt.TB('upper_limit(return_results=%r) returns a %r' % (rr, t.ty))
            return '(inr (Some %s))' % t.s
        body = tt.render2(o, leaf_u).replace('x_scan', 'scan')
        text += ('Definition gen_upper_limit%s %s (toms : nat -> (V N -> V N) -> V N -> V N -> list (V N) * V N) (fuel : nat) (bounds : V N * V N) (scan : option (list (V N))) (level : V N)\n'
                 '  : %s + option (%s) :=\n  %s.\n' % ('_results' if rr else '', SIG, gty, aty, body))
    info['gen_upper_limit'] = True
    return text, info


def extract(ctx):
    text, info = generate()
    core.write_if_changed(os.path.join(core.COQ, 'gen', GEN_NAME + '.v'), text)
    return dict(file='coq/gen/%s.v' % GEN_NAME, definitions=sorted(k for k in info if k.startswith('gen_')), nested_functions=info.get('nested'), loops=info.get('loops'))
