"""C04 - probability primitives equal the exact Poisson / Normal functions on every backend.

extract(ctx) : python ast -> coq/gen/ProbGen.v : the bodies of numpy_backend / jax_backend normal_logpdf, poisson_logpdf,
               poisson, normal translated to Gallina over the number record PNum (fail closed).
run(ctx)     : prove props/C04.v (the translated formulas ARE the exact functions; algebra of Phi; the PyTorch erfc formula);
               then VALIDATION of floating-point accuracy (validated_not_proved): all four backends x {64b, 32b} against
               reference values that are certified inside Coq (interval / integral on the R instance of the translated
               definitions) where Coq can enclose them, and mpmath at 50 digits elsewhere.
"""
import ast
import json
import math
import os
import subprocess
from fractions import Fraction

from harness import core, facts

FUNCS = ['normal_logpdf', 'poisson_logpdf', 'poisson', 'normal']
BACKENDS = ['numpy', 'jax', 'pytorch', 'tensorflow']
PRECS = ['64b', '32b']
EPS = {'64b': 2.0 ** -52, '32b': 2.0 ** -23}
TINY = {'64b': 2.2250738585072014e-308, '32b': 1.1754943508222875e-38}     # smallest normal number
REL = {'64b': 1e-10, '32b': 1e-4}
KULP = {'64b': 8, '32b': 16}


# =========================================================================================
# translator: python ast -> Gallina over PNum / PExt
class Tr:
    def __init__(self, modname, alias, imports):
        self.mod, self.alias, self.imports = modname, alias, imports

    def fail(self, node, why):
        raise facts.TieBroken('%s line %s: %s: %s' % (self.mod, getattr(node, 'lineno', '?'), why, ast.unparse(node)[:80]))

    def const(self, v, node):
        if isinstance(v, bool) or not isinstance(v, (int, float)):
            self.fail(node, 'constant of unsupported type')
        f = Fraction(v) if isinstance(v, int) else Fraction(*float(v).as_integer_ratio())
        if f.denominator == 1:
            return '(pofZ P (%d))' % f.numerator
        return '(pofQ P (%d) %d)' % (f.numerator, f.denominator)

    def expr(self, e, env):
        if isinstance(e, ast.Constant):
            return self.const(e.value, e)
        if isinstance(e, ast.Name):
            if e.id not in env:
                self.fail(e, 'unknown name')
            return env[e.id]
        if isinstance(e, ast.UnaryOp) and isinstance(e.op, ast.USub):
            return '(popp P %s)' % self.expr(e.operand, env)
        if isinstance(e, ast.UnaryOp) and isinstance(e.op, ast.UAdd):
            return self.expr(e.operand, env)
        if isinstance(e, ast.BinOp):
            op = {ast.Add: 'padd', ast.Sub: 'psub', ast.Mult: 'pmul', ast.Div: 'pdiv'}.get(type(e.op))
            if op is None:
                self.fail(e, 'operator outside the whitelist')
            return '(%s P %s %s)' % (op, self.expr(e.left, env), self.expr(e.right, env))
        if isinstance(e, ast.Attribute) and isinstance(e.value, ast.Name) and e.value.id == self.alias and e.attr == 'pi':
            return '(ppi P)'
        if isinstance(e, ast.Call):
            if e.keywords and not (isinstance(e.func, ast.Attribute) and e.func.attr == 'pdf'):
                self.fail(e, 'keyword arguments')
            f = e.func
            if isinstance(f, ast.Attribute) and isinstance(f.value, ast.Name) and f.value.id == self.alias:
                a = [self.expr(x, env) for x in e.args]
                one = {'sqrt': 'psqrt P', 'log': 'pln P', 'exp': 'pexp P', 'square': 'psquare P'}
                if f.attr in one and len(a) == 1:
                    return '(%s %s)' % (one[f.attr], a[0])
                if f.attr == 'divide' and len(a) == 2:
                    return '(pdiv P %s %s)' % (a[0], a[1])
                if f.attr == 'asarray' and len(a) == 1:
                    return a[0]
                self.fail(e, 'array-library function outside the whitelist')
            if isinstance(f, ast.Name) and f.id in ('xlogy', 'gammaln'):
                if self.imports.get(f.id) not in ('scipy.special', 'jax.scipy.special'):
                    self.fail(e, '%s is not the scipy/jax special function (imported from %r)' % (f.id, self.imports.get(f.id)))
                a = [self.expr(x, env) for x in e.args]
                if len(a) != (2 if f.id == 'xlogy' else 1):
                    self.fail(e, 'arity')
                return '(e_%s E %s)' % (f.id, ' '.join(a))
            if isinstance(f, ast.Attribute) and isinstance(f.value, ast.Name) and f.value.id == 'norm' and f.attr == 'pdf':
                if self.imports.get('norm') not in ('scipy.stats', 'jax.scipy.stats'):
                    self.fail(e, 'norm is not scipy.stats.norm / jax.scipy.stats.norm')
                if len(e.args) != 1 or sorted(k.arg or '' for k in e.keywords) != ['loc', 'scale']:
                    self.fail(e, 'norm.pdf call shape')
                kw = {k.arg: self.expr(k.value, env) for k in e.keywords}
                return '(e_norm_pdf E %s %s %s)' % (self.expr(e.args[0], env), kw['loc'], kw['scale'])
        self.fail(e, 'expression outside the whitelisted subset')

    def func(self, fn, name, defaults_ok=False):
        params = [a.arg for a in fn.args.args][1:]
        if fn.args.vararg or fn.args.kwarg or fn.args.kwonlyargs or (fn.args.defaults and not defaults_ok):
            self.fail(fn, 'signature')
        env = {p: p for p in params}
        body, ret, k = [], None, 0
        for st in fn.body:
            if isinstance(st, ast.Expr) and isinstance(st.value, ast.Constant) and isinstance(st.value.value, str):
                continue
            if ret is not None:
                self.fail(st, 'statement after return')
            if isinstance(st, ast.Assign) and len(st.targets) == 1 and isinstance(st.targets[0], ast.Name):
                v = self.expr(st.value, env)
                k += 1
                nm = 'v%d_%s' % (k, st.targets[0].id.strip('_'))
                body.append('let %s := %s in' % (nm, v))
                env[st.targets[0].id] = nm
            elif self.stmt_extra(st, env):
                pass
            elif isinstance(st, ast.Return) and st.value is not None:
                ret = self.expr(st.value, env)
            else:
                self.fail(st, 'statement outside the whitelisted subset')
        if ret is None:
            self.fail(fn, 'no return')
        return ('Definition %s (P : PNum) (E : PExt P) (%s : pV P) : pV P :=\n  %s\n  %s.\n'
                % (name, ' '.join(params), '\n  '.join(body), ret)), params


    def stmt_extra(self, st, env):
        return False


class TorchTr(Tr):
    """the extra forms of pytorch_backend.normal_cdf"""

    def stmt_extra(self, st, env):
        # mu, sigma = broadcast_all(mu, sigma): shapes only
        if isinstance(st, ast.Assign) and len(st.targets) == 1 and isinstance(st.targets[0], ast.Tuple) \
                and isinstance(st.value, ast.Call) and isinstance(st.value.func, ast.Name) and st.value.func.id == 'broadcast_all' \
                and [ast.unparse(t) for t in st.targets[0].elts] == [ast.unparse(a) for a in st.value.args] and not st.value.keywords:
            if self.imports.get('broadcast_all') != 'torch.distributions.utils':
                self.fail(st, 'broadcast_all is not torch.distributions.utils.broadcast_all')
            return True
        return False

    def expr(self, e, env):
        if isinstance(e, ast.Call) and not e.keywords:
            f = e.func
            if isinstance(f, ast.Attribute) and isinstance(f.value, ast.Name) and f.value.id == 'torch' and f.attr == 'erfc' and len(e.args) == 1:
                return '(e_erfc E %s)' % self.expr(e.args[0], env)
            if isinstance(f, ast.Attribute) and isinstance(f.value, ast.Name) and f.value.id == 'math' and f.attr == 'sqrt' and len(e.args) == 1:
                return '(psqrt P %s)' % self.expr(e.args[0], env)
            if isinstance(f, ast.Attribute) and f.attr == 'reciprocal' and not e.args:
                return '(pdiv P (pofZ P 1) %s)' % self.expr(f.value, env)
        return Tr.expr(self, e, env)


def module_imports(tree):
    imp, alias = {}, {}
    for n in tree.body:
        if isinstance(n, ast.ImportFrom):
            for a in n.names:
                imp[a.asname or a.name] = n.module
        elif isinstance(n, ast.Import):
            for a in n.names:
                alias[a.asname or a.name] = a.name
    return imp, alias


def extract(ctx=None, write=True):
    out, info = [], {}
    for mod, cls, want_alias, libname in (('tensor/numpy_backend.py', 'numpy_backend', 'np', 'numpy'),
                                          ('tensor/jax_backend.py', 'jax_backend', 'jnp', 'jax.numpy')):
        tree, path = facts.parse(mod)
        imp, alias = module_imports(tree)
        if alias.get(want_alias) != libname:
            raise facts.TieBroken('%s: %s is not %s' % (mod, want_alias, libname))
        cd = facts.find_class(tree, cls)
        # the names must not be rebound at module level by anything but the imports
        for n in tree.body:
            if isinstance(n, (ast.FunctionDef, ast.ClassDef)) and n.name in ('xlogy', 'gammaln', 'norm'):
                raise facts.TieBroken('%s redefines %s' % (mod, n.name))
            if isinstance(n, ast.Assign) and any(isinstance(t, ast.Name) and t.id in ('xlogy', 'gammaln', 'norm', want_alias) for t in n.targets):
                raise facts.TieBroken('%s rebinds a library name' % mod)
        tr = Tr(mod, want_alias, imp)
        for fn in FUNCS:
            defs = [n for n in cd.body if isinstance(n, ast.FunctionDef) and n.name == fn]
            if len(defs) != 1:
                raise facts.TieBroken('%s.%s defined %d times' % (cls, fn, len(defs)))
            if defs[0].decorator_list:
                raise facts.TieBroken('%s.%s is decorated' % (cls, fn))
            name = '%s_%s' % (cls.split('_')[0], fn)
            text, params = tr.func(defs[0], name)
            src = ast.unparse(defs[0].body[-1])
            out.append('(* %s:%d-%d  %s *)\n%s' % (mod, defs[0].lineno, defs[0].end_lineno, src.replace('*)', '* )')[:150], text))
            info[name] = dict(params=params, source=src[:200])
    # pytorch_backend.normal_cdf is a formula as well: 0.5 * torch.erfc(-((x - mu) * sigma.reciprocal() / math.sqrt(2)))
    tree, _ = facts.parse('tensor/pytorch_backend.py')
    imp, alias = module_imports(tree)
    if alias.get('torch') != 'torch' or alias.get('math') != 'math':
        raise facts.TieBroken('pytorch_backend: torch/math imports')
    f = facts.find_func(facts.find_class(tree, 'pytorch_backend'), 'normal_cdf')
    text, _ = TorchTr('tensor/pytorch_backend.py', 'torch', imp).func(f, 'pytorch_normal_cdf', defaults_ok=True)
    out.append('(* tensor/pytorch_backend.py:%d-%d  %s *)\n%s' % (f.lineno, f.end_lineno, ast.unparse(f.body[-1])[:150], text))
    info['pytorch_normal_cdf'] = dict(params=['x', 'mu', 'sigma'], source=ast.unparse(f.body[-1])[:200])
    text = 'From Coq Require Import ZArith.\nRequire Import PV.ProbNum.\n' + '\n'.join(out)
    if write:
        core.write_if_changed(os.path.join(core.COQ, 'gen', 'ProbGen.v'), text)
    # the other two backends: which library calls they delegate to (recorded; they are kernels, validated numerically)
    deleg = {}
    for mod, cls in (('tensor/pytorch_backend.py', 'pytorch_backend'), ('tensor/tensorflow_backend.py', 'tensorflow_backend')):
        tree, _ = facts.parse(mod)
        cd = facts.find_class(tree, cls)
        for fn in FUNCS + ['normal_cdf']:
            f = facts.find_func(cd, fn)
            deleg['%s.%s' % (cls, fn)] = ast.unparse(f.body[-1])[:160]
    for mod, cls in (('tensor/numpy_backend.py', 'numpy_backend'), ('tensor/jax_backend.py', 'jax_backend')):
        tree, _ = facts.parse(mod)
        deleg['%s.normal_cdf' % cls] = ast.unparse(facts.find_func(facts.find_class(tree, cls), 'normal_cdf').body[-1])[:160]
    return dict(translated=info, delegated=deleg, text=text)


# =========================================================================================
# points
def f32(x):
    import numpy as np
    return float(np.float32(x))


def gen_points(rng, n_each, quick):
    """three families of arguments; every point carries `set`: 'A' (float32-representable, used for both precisions) or 'B' (binary64 only)"""
    pts = dict(normal=[], poisson=[], cdf=[])

    def both(x):
        return [('A', f32(x)), ('B', float(x))]
    # ---- normal: sigma over 20 orders of magnitude, z = (x-mu)/sigma up to +-38
    fixed = [(0.0, 0.0, 1.0), (1.0, 0.0, 1.0), (0.3, 0.1, 1.0), (5.0, 0.0, 1e-10), (0.0, 0.0, 1e10), (1e10, 1e10, 2.0), (7.0, -3.0, 0.25),
             (1e-10, 0.0, 1e-10), (-38.0, 0.0, 1.0), (3e5, 1e5, 1e5)]
    for x, mu, s in fixed:
        pts['normal'].append(dict(set='A', x=f32(x), mu=f32(mu), sigma=f32(s)))
    for _ in range(n_each):
        s = 10.0 ** rng.uniform(-10, 10)
        mu = rng.choice([0.0, 1.0, -1.0]) * 10.0 ** rng.uniform(-5, 10) if rng.random() < 0.7 else 0.0
        z = rng.choice([rng.uniform(-38, 38), rng.uniform(-3, 3), rng.choice([-1e-8, 1e-8, 0.0])])
        x = mu + z * s
        st = rng.choice(['A', 'B'])
        c = (lambda v: f32(v)) if st == 'A' else float
        p = dict(set=st, x=c(x), mu=c(mu), sigma=c(s))
        if p['sigma'] > 0 and abs(p['x'] - p['mu']) / p['sigma'] <= 60:
            pts['normal'].append(p)
    # ---- poisson: integer n <= 170 (certified), large n, non-integer n, rates around n, tiny and huge rates
    small = [0, 1, 2, 3, 5, 10, 20, 50, 100, 150, 170]
    for n in small:
        for lam in (n * 1.0 if n else 1e-3, n * 0.7 + 0.5, n * 1.4 + 0.25, 1e-3):
            pts['poisson'].append(dict(set='A', n=float(n), lam=f32(lam)))
    for _ in range(n_each):
        r = rng.random()
        if r < 0.35:
            n = float(rng.randrange(0, 171))
        elif r < 0.6:
            n = float(int(10 ** rng.uniform(2.3, 8)))
        elif r < 0.85:
            n = rng.choice([0.5, 1.5, 2.5, 10.25]) if rng.random() < 0.5 else round(10 ** rng.uniform(0, 6), 3)
        else:
            n = float(rng.randrange(0, 30))
        r2 = rng.random()
        if r2 < 0.55:
            lam = max(n, 0.5) * (1 + rng.uniform(-0.6, 0.6))
        elif r2 < 0.75:
            lam = max(n + rng.choice([-3, -1, 1, 3]) * math.sqrt(max(n, 1)), 1e-3)
        elif r2 < 0.9:
            lam = 10.0 ** rng.uniform(-30, -3)
        else:
            lam = 10.0 ** rng.uniform(3, 8)
        st = rng.choice(['A', 'B'])
        c = (lambda v: f32(v)) if st == 'A' else float
        p = dict(set=st, n=c(n), lam=c(lam))
        if p['lam'] > 0:
            pts['poisson'].append(p)
    for lam in (1e-300, 5e-324, 2.2250738585072014e-308):         # far below float32: binary64 only
        for n in (0.0, 1.0, 3.0):
            pts['poisson'].append(dict(set='B', n=n, lam=lam))
    for lam in (1e-38, 1.401298464324817e-45):                    # float32 denormals
        for n in (0.0, 2.0):
            pts['poisson'].append(dict(set='A', n=n, lam=f32(lam)))
    # ---- cdf: -38 .. 38
    grid = [-38.0, -37.5, -37.0, -35.0, -30.0, -25.0, -20.0, -15.0, -13.0, -10.0, -8.0, -6.0, -5.0, -4.0, -3.0, -2.0, -1.0, -0.5, -1e-3, 0.0,
            1e-3, 0.5, 1.0, 2.0, 3.0, 5.0, 8.0, 10.0, 20.0, 38.0]
    for x in grid:
        pts['cdf'].append(dict(set='A', x=x, mu=0.0, sigma=1.0))
    for _ in range(n_each):
        st = rng.choice(['A', 'B'])
        c = (lambda v: f32(v)) if st == 'A' else float
        if rng.random() < 0.5:
            pts['cdf'].append(dict(set=st, x=c(rng.uniform(-38, 38)), mu=0.0, sigma=1.0))
        else:
            s = 10.0 ** rng.uniform(-5, 5)
            mu = rng.uniform(-10, 10) * s
            z = rng.uniform(-37, 37)
            pts['cdf'].append(dict(set=st, x=c(mu + z * s), mu=c(mu), sigma=c(s)))
    return pts


# =========================================================================================
# references
def _mp():
    import mpmath as mp
    mp.mp.dps = 60
    return mp


def mpf(x):
    mp = _mp()
    return mp.mpf(x) if not isinstance(x, Fraction) else mp.mpf(x.numerator) / mp.mpf(x.denominator)


def ref_normal(p):
    mp = _mp()
    x, mu, s = mpf(p['x']), mpf(p['mu']), mpf(p['sigma'])
    z = (x - mu) / s
    # T: magnitudes of the terms of ln(1/(sigma sqrt(2 pi))) - z^2/2 with z = (x - mu)/sigma formed from the (exact) difference of
    # the two floats.  T_wide additionally allows one rounding of x/sigma and mu/sigma SEPARATELY, |z| (|x| + |mu|) / sigma: the terms
    # involved when the standardised variable is formed as x/sigma - mu/sigma, as TensorFlow Probability's Normal.log_prob does
    # (squared_difference(x / scale, loc / scale)); it is used for the tensorflow backend only (see T_of)
    T = abs(mp.log(s * mp.sqrt(2 * mp.pi))) + z * z / 2 + 1
    p['T_wide'] = T + abs(z) * (abs(x) + abs(mu)) / s
    return -mp.log(s * mp.sqrt(2 * mp.pi)) - z * z / 2, T


def ref_poisson(p):
    mp = _mp()
    n, lam = mpf(p['n']), mpf(p['lam'])
    lg = mp.loggamma(n + 1)
    xl = n * mp.log(lam) if n != 0 else mp.mpf(0)
    return xl - lam - lg, abs(xl) + lam + abs(lg) + 1


def ref_cdf(p):
    mp = _mp()
    return mp.ncdf((mpf(p['x']) - mpf(p['mu'])) / mpf(p['sigma']))


def cdf_cond(p):
    """relative condition number of Phi((x-mu)/sigma) with respect to one rounding of x, mu: |d ln Phi / dz| * (|x|+|mu|)/sigma,
    with |d ln Phi/dz| = phi/Phi <= |z| + 1 (Mills ratio) in the lower tail and <= 1 above"""
    x, mu, s = p['x'], p['mu'], p['sigma']
    z = (x - mu) / s
    return (abs(z) + 1 if z < 0 else 1.0) * (abs(x) + abs(mu)) / s + 1


def to_frac(m, bits=170):
    """mpmath number -> exact rational close to it (the proposal that Coq then certifies)"""
    mp = _mp()
    if m == 0:
        return Fraction(0)
    e = int(mp.floor(mp.log(abs(m), 2)))
    k = bits - e
    v = int(mp.nint(m * mp.mpf(2) ** k))
    return Fraction(v, 1) / (Fraction(2) ** k) if k >= 0 else Fraction(v * 2 ** (-k))


def rq(f):
    """Coq real literal of a Fraction"""
    f = Fraction(f)
    if f.denominator == 1:
        return '(IZR (%d))' % f.numerator
    return '(IZR (%d) / IZR %d)' % (f.numerator, f.denominator)


CERT_HEADER = '''From Coq Require Import Reals ZArith.
From Coquelicot Require Import Coquelicot.
From Interval Require Import Tactic.
Require Import PV.ProbNum PV.ProbThms PV.gen.ProbGen.
Open Scope R_scope.
(* the externals at R: xlogy x y = x * ln y (y > 0), gammaln = a constant holding ln(n!) for the single call gammaln(n+1) *)
Definition E0 (g : R) : PExt RP := mkPExt RP (fun x y => x * ln y) (fun _ => g) normal_pdf erfc_def.
Ltac open_model := cbv beta iota zeta delta [numpy_normal_logpdf numpy_poisson_logpdf jax_normal_logpdf jax_poisson_logpdf E0 psquare pofQ
  pV pofZ padd psub pmul pdiv popp pexp pln psqrt ppi RP e_xlogy e_gammaln e_norm_pdf e_erfc].
'''


def cert_goals(pts, quick):
    """Coq goals certifying the proposed reference values; returns (list of (key, goal text), keys)"""
    goals = []
    for i, p in enumerate(pts['normal']):
        r, T = ref_normal(p)
        fr = to_frac(r)
        err = Fraction(1, 2 ** 75) * max(1, int(abs(r)) + 1)
        p['ref'], p['T'], p['cert'] = fr, T, 'interval'
        p['ref_err'] = err
        for who in ('numpy', 'jax'):
            goals.append((('normal', i, who), 'Goal Rabs (%s_normal_logpdf RP (E0 0) %s %s %s - %s) <= %s.\nProof. open_model. interval with (i_prec 120). Qed.'
                          % (who, rq(Fraction(*p['x'].as_integer_ratio())), rq(Fraction(*p['mu'].as_integer_ratio())),
                             rq(Fraction(*p['sigma'].as_integer_ratio())), rq(fr), rq(err))))
    nmax = 170 if quick else 1000
    for i, p in enumerate(pts['poisson']):
        r, T = ref_poisson(p)
        fr = to_frac(r)
        p['ref'], p['T'] = fr, T
        n = p['n']
        if n == int(n) and 0 <= n <= nmax and p['lam'] >= 1e-300:
            k = int(n)
            nf = math.factorial(k)
            err = Fraction(1, 2 ** 75) * max(1, int(abs(r)) + 1)
            p['cert'], p['ref_err'] = 'interval', err
            lam = Fraction(*p['lam'].as_integer_ratio())
            for who in ('numpy', 'jax'):
                goals.append((('poisson', i, who),
                              'Goal zfact %d = %d%%Z /\\ Rabs (%s_poisson_logpdf RP (E0 (ln (IZR %d))) (IZR %d) %s - %s) <= %s.\n'
                              'Proof. split; [vm_compute; reflexivity|]. open_model. %sinterval with (i_prec 120). Qed.'
                              % (k, nf, who, nf, k, rq(lam), rq(fr), rq(err),
                                 'replace (IZR 0 * ln %s) with 0 by ring. ' % rq(lam) if k == 0 else '')))
        else:
            p['cert'], p['ref_err'] = 'mpmath', abs(fr) * Fraction(1, 10 ** 40)
    for i, p in enumerate(pts['cdf']):
        r = ref_cdf(p)
        p['ref'], p['cert'], p['ref_err'] = to_frac(r), 'mpmath', to_frac(r) * Fraction(1, 10 ** 40)
    return goals


def integral_goals(xs):
    """Phi x (the concrete integral of ProbThms) enclosed by Coq's `integral` tactic"""
    mp = _mp()
    out = []
    for x in xs:
        r = to_frac(mp.ncdf(mp.mpf(x)), 120)
        out.append((x, r, 'Goal Rabs (Phi %s - %s) <= %s.\nProof. unfold Phi, phi. integral with (i_prec 70, i_fuel 4000). Qed.'
                    % (rq(Fraction(x).limit_denominator(1000)), rq(r), rq(Fraction(1, 10 ** 13)))))
    return out


def run_coq_goals(ctx, name, header, goals, per_file, timeout=600):
    """compile goal files in parallel; returns dict key -> bool (certified)"""
    d = os.path.join(ctx.work, name)
    os.makedirs(d, exist_ok=True)
    files = []
    for k in range(0, len(goals), per_file):
        fn = os.path.join(d, '%s_%d.v' % (name, k // per_file))
        with open(fn, 'w') as f:
            f.write(header + '\n' + '\n'.join(g for _, g in goals[k:k + per_file]) + '\n')
        files.append((fn, [key for key, _ in goals[k:k + per_file]], [g for _, g in goals[k:k + per_file]]))
    procs = []
    res = {}
    pending = list(files)
    running = []
    while pending or running:
        while pending and len(running) < core.NCPU:
            fn, keys, gs = pending.pop(0)
            pr = subprocess.Popen(['timeout', str(timeout), 'coqc', '-w', '-all', '-R', core.COQ, 'PV', fn], cwd=d,
                                  stdout=subprocess.PIPE, stderr=subprocess.STDOUT, text=True)
            running.append((fn, keys, gs, pr))
        fn, keys, gs, pr = running.pop(0)
        out, _ = pr.communicate()
        if pr.returncode == 0:
            for k in keys:
                res[k] = True
        elif len(keys) == 1:
            res[keys[0]] = False
            res.setdefault('_errors', []).append(out[-600:])
        else:
            # find the failing goals: one file per goal
            sub = run_coq_goals(ctx, name + '_retry%d' % len(res), header, list(zip(keys, gs)), 1, timeout)
            res.setdefault('_errors', [])
            res['_errors'] += sub.pop('_errors', [])
            res.update(sub)
    return res


# =========================================================================================
# implementation side
def impl_values(backend, prec, pts):
    """evaluate every primitive on the points allowed for this precision; returns dict family -> list aligned with pts (None = not run)"""
    import numpy as np
    import pyhf
    pyhf.set_backend(backend, precision=prec)
    tl = pyhf.tensorlib

    def arr(xs):
        return tl.astensor([float(x) for x in xs])

    def lst(t):
        return [float(v) for v in np.asarray(tl.tolist(t), dtype=float).ravel()]
    out = {}
    ok = [p['set'] == 'A' or prec == '64b' for p in pts['normal']]
    sel = [p for p, o in zip(pts['normal'], ok) if o]
    x, mu, s = arr(p['x'] for p in sel), arr(p['mu'] for p in sel), arr(p['sigma'] for p in sel)
    vals = dict(log=lst(tl.normal_logpdf(x, mu, s)), nonlog=lst(tl.normal(x, mu, s)),
                dist=lst(pyhf.probability.Normal(mu, s).log_prob(x)))
    out['normal'] = scatter(ok, vals)
    ok = [p['set'] == 'A' or prec == '64b' for p in pts['poisson']]
    sel = [p for p, o in zip(pts['poisson'], ok) if o]
    n, lam = arr(p['n'] for p in sel), arr(p['lam'] for p in sel)
    vals = dict(log=lst(tl.poisson_logpdf(n, lam)), nonlog=lst(tl.poisson(n, lam)), dist=lst(pyhf.probability.Poisson(lam).log_prob(n)))
    out['poisson'] = scatter(ok, vals)
    ok = [p['set'] == 'A' or prec == '64b' for p in pts['cdf']]
    sel = [p for p, o in zip(pts['cdf'], ok) if o]
    x, mu, s = arr(p['x'] for p in sel), arr(p['mu'] for p in sel), arr(p['sigma'] for p in sel)
    out['cdf'] = scatter(ok, dict(cdf=lst(tl.normal_cdf(x, mu, s))))
    # rate zero
    ns = [0.0, 1.0, 2.5, 10.0, 0.0]
    zero = arr([0.0] * len(ns))
    out['rate0'] = dict(n=ns, log=lst(tl.poisson_logpdf(arr(ns), zero)), nonlog=lst(tl.poisson(arr(ns), zero)),
                        dist=lst(pyhf.probability.Poisson(zero).log_prob(arr(ns))))
    # Independent = sum of the pieces
    sel = [p for p in pts['poisson'] if p['set'] == 'A'][:6]
    n, lam = arr(p['n'] for p in sel), arr(p['lam'] for p in sel)
    ind = pyhf.probability.Independent(pyhf.probability.Poisson(lam)).log_prob(n)
    out['independent'] = dict(total=lst(ind), pieces=lst(tl.poisson_logpdf(n, lam)))
    out['type_ok'] = isinstance(tl.poisson_logpdf(n, lam), type(tl.astensor([0.0])))
    # the primitives are functions of the VALUES handed to them: one tensor object refilled in place between two calls (a preallocated
    # toy buffer) must give what fresh tensors of the same values give
    out['inplace'] = None
    if backend in ('numpy', 'pytorch'):
        sel = [p for p in pts['poisson'] if p['set'] == 'A' and p['lam'] > 1e-3][:8]
        if len(sel) >= 4:
            h = len(sel) // 2
            first, second = sel[:h], sel[h:2 * h]
            buf_n, buf_l = arr(p['n'] for p in first), arr(p['lam'] for p in first)
            tl.poisson_logpdf(buf_n, buf_l)
            pyhf.probability.Poisson(buf_l).log_prob(buf_n)
            xb, mb, sb = arr([0.5] * h), arr([0.0] * h), arr([1.0] * h)
            tl.normal_logpdf(xb, mb, sb)
            for j, p in enumerate(second):
                buf_n[j] = float(p['n'])
                buf_l[j] = float(p['lam'])
                xb[j] = 0.25 * (j + 1)
            out['inplace'] = dict(
                poisson=lst(tl.poisson_logpdf(buf_n, buf_l)), poisson_fresh=lst(tl.poisson_logpdf(arr(p['n'] for p in second), arr(p['lam'] for p in second))),
                dist=lst(pyhf.probability.Poisson(buf_l).log_prob(buf_n)),
                normal=lst(tl.normal_logpdf(xb, mb, sb)), normal_fresh=lst(tl.normal_logpdf(arr(0.25 * (j + 1) for j in range(h)), arr([0.0] * h), arr([1.0] * h))),
                args=[dict(n=p['n'], lam=p['lam']) for p in second])
    return out


def scatter(ok, vals):
    n = len(ok)
    res = {k: [None] * n for k in vals}
    j = 0
    for i, o in enumerate(ok):
        if o:
            for k in vals:
                res[k][i] = vals[k][j]
            j += 1
    return res


def fr(v):
    return Fraction(*float(v).as_integer_ratio())


def finite(v):
    return v is not None and v == v and abs(v) != float('inf')


def T_of(p, backend):
    """magnitude of the terms involved: for the Normal log-density on tensorflow the kernel (tfp) standardises x and mu separately"""
    return p['T_wide'] if backend == 'tensorflow' and 'T_wide' in p else p['T']


def tol_log(p, prec, backend=None):
    """absolute tolerance on a log-density: max(relative 1e-10 (1e-4 for 32b), k ulp of the largest term involved), plus the
    half-width of the certified enclosure of the reference"""
    Tv = T_of(p, backend)
    T = Fraction(*float(Tv).as_integer_ratio()) if not isinstance(Tv, Fraction) else Tv
    return max(Fraction(REL[prec]) * abs(p['ref']), Fraction(KULP[prec]) * Fraction(EPS[prec]) * T) + p['ref_err']


def regime(fam, p):
    if fam == 'normal':
        z = abs(p['x'] - p['mu']) / p['sigma']
        return ('tail' if z > 6 else 'bulk') + (':tiny-sigma' if p['sigma'] < 1e-5 else ':huge-sigma' if p['sigma'] > 1e5 else '')
    if fam == 'poisson':
        n = p['n']
        a = 'nonint' if n != int(n) else 'int<=170' if n <= 170 else 'int-large'
        if p['lam'] < TINY['64b'] or (p['set'] == 'A' and p['lam'] < TINY['32b']):
            return 'subnormal-rate'
        return a + (':tiny-rate' if p['lam'] < 1e-3 else '')
    z = (p['x'] - p['mu']) / p['sigma']
    return 'lower-tail' if z < -8 else 'upper-tail' if z > 8 else 'bulk'


def compare_all(backend, prec, pts, got):
    """returns (list of failures, number of comparisons)"""
    mp = _mp()
    bad, ncmp = [], 0

    def chk(fam, what, i, p, v, ref, tol, extra=None):
        nonlocal ncmp
        ncmp += 1
        okv = v is not None and v == v and abs(v) != float('inf') and abs(fr(v) - ref) <= tol
        if not okv:
            bad.append(dict(func='%s.%s' % (fam, what), backend=backend, prec=prec, args={k: p[k] for k in p if k in ('x', 'mu', 'sigma', 'n', 'lam')},
                            impl=v, expected=float(ref), tol=float(tol), regime=regime(fam, dict(p, set=p.get('set', 'A'))), reference=p.get('cert'), **(extra or {})))
    for fam in ('normal', 'poisson'):
        g = got[fam]
        for i, p in enumerate(pts[fam]):
            v = g['log'][i]
            if v is None:
                continue
            t = tol_log(p, prec, backend)
            chk(fam, 'log', i, p, v, p['ref'], t)
            # non-log = exp(log): relative error of exp = absolute error of its argument
            if p['ref'] < -1200:
                e = Fraction(0)         # far below the smallest subnormal
            else:
                e = to_frac(mp.exp(mpf(p['ref'])))
            # exp turns an absolute error t of the log into a relative error exp(t) - 1 <= t + t^2 (t <= 1); if the log itself is only
            # known to more than +-1 (float32 with terms of 1e7 and more) its exponential carries no information and is not compared
            tn = e * (t + t * t + 4 * Fraction(EPS[prec])) + Fraction(TINY[prec])
            if p['ref'] < (700 if prec == '64b' else 80) and t <= 1:
                chk(fam, 'nonlog', i, p, g['nonlog'][i], e, tn)
            # the distribution object gives the same number as the function (same kernel: a few ulp of the largest term)
            ncmp += 1
            d = g['dist'][i]
            if finite(v) and (not finite(d) or abs(fr(d) - fr(v)) > Fraction(4 * EPS[prec]) * fr(float(T_of(p, backend)))):
                bad.append(dict(func='%s.dist' % fam, backend=backend, prec=prec, args={k: p[k] for k in p if k in ('x', 'mu', 'sigma', 'n', 'lam')},
                                impl=d, expected=v, tol=4 * EPS[prec] * float(T_of(p, backend)), regime=regime(fam, p), reference='function form'))
    for i, p in enumerate(pts['cdf']):
        v = got['cdf']['cdf'][i]
        if v is None:
            continue
        # relative accuracy down to the smallest normal number; below it (subnormal results) only the absolute error is bounded
        t = (Fraction(REL[prec]) + Fraction(KULP[prec] * EPS[prec]) * fr(cdf_cond(p))) * p['ref'] + Fraction(TINY[prec]) + p['ref_err']
        chk('cdf', 'cdf', i, p, v, p['ref'], t)
    ip = got.get('inplace')
    if ip:
        ncmp += 3
        for what, a, b in (('poisson.log', ip['poisson'], ip['poisson_fresh']), ('poisson.dist', ip['dist'], ip['poisson_fresh']), ('normal.log', ip['normal'], ip['normal_fresh'])):
            if len(a) != len(b) or any(not finite(x) or not finite(y) or abs(x - y) > 1e-12 * max(1.0, abs(y)) for x, y in zip(a, b)):
                bad.append(dict(func=what, backend=backend, prec=prec, args=dict(refilled_in_place=ip['args']), impl=a, expected=b[0] if b else None, tol=1e-12,
                                regime='same-tensor-object-refilled-in-place', reference='fresh tensors of the same values', expected_all=b))
    z = got['rate0']
    for n, l, e, d in zip(z['n'], z['log'], z['nonlog'], z['dist']):
        ncmp += 2
        want_l, want_e = (0.0, 1.0) if n == 0 else (float('-inf'), 0.0)
        slack = KULP[prec] * EPS[prec]          # lgamma(1) = 0 is reached only up to a few ulp of 1 by Lanczos-type kernels
        if n == 0 and all(finite(t_) and abs(t_) <= slack for t_ in (l, d)) and finite(e) and abs(e - 1.0) <= 2 * slack:
            continue
        if l != want_l or d != want_l:
            bad.append(dict(func='poisson.log', backend=backend, prec=prec, args=dict(n=n, lam=0.0), impl=[l, d], expected=want_l, tol=0, regime='rate0', reference='limit'))
        if e != want_e:
            bad.append(dict(func='poisson.nonlog', backend=backend, prec=prec, args=dict(n=n, lam=0.0), impl=e, expected=want_e, tol=0, regime='rate0', reference='limit'))
    ind = got['independent']
    ncmp += 1
    pieces = [x for x in ind['pieces'] if finite(x)]
    s = sum(fr(x) for x in pieces)
    mag = sum(abs(fr(x)) for x in pieces) + 1
    if len(pieces) == len(ind['pieces']) and (len(ind['total']) != 1 or not finite(ind['total'][0]) or abs(fr(ind['total'][0]) - s) > Fraction(16 * EPS[prec]) * mag):
        bad.append(dict(func='independent.log_prob', backend=backend, prec=prec, args=dict(pieces=ind['pieces']), impl=ind['total'], expected=float(s),
                        tol=float(Fraction(16 * EPS[prec]) * mag), regime='sum', reference='sum of the pieces'))
    if not got['type_ok']:
        bad.append(dict(func='poisson.log', backend=backend, prec=prec, args={}, impl='wrong tensor type', expected='backend tensor', tol=0, regime='type', reference='-'))
    return bad, ncmp


WORKER = r'''
import json, sys
sys.path.insert(0, %r)
from harness.props import c04
job = json.load(open(sys.argv[1]))
pts = job['pts']
res = {}
for b, p in job['settings']:
    try:
        res[b + '/' + p] = c04.impl_values(b, p, pts)
    except Exception as e:
        import traceback
        res[b + '/' + p] = dict(error=type(e).__name__ + ': ' + str(e)[:300], tb=traceback.format_exc()[-1200:])
json.dump(res, open(sys.argv[2], 'w'))
'''


def run_backends(ctx, pts):
    """one worker process per backend (imports are slow and independent): returns dict 'backend/prec' -> values"""
    clean = dict((k, [{kk: vv for kk, vv in p.items() if kk in ('set', 'x', 'mu', 'sigma', 'n', 'lam')} for p in v]) for k, v in pts.items())
    procs = []
    wf = os.path.join(ctx.work, 'worker.py')
    with open(wf, 'w') as f:                      # written once, before any worker starts (a worker must never see it truncated)
        f.write(WORKER % core.VERIF)
    for b in BACKENDS:
        jf, of = os.path.join(ctx.work, 'job_%s.json' % b), os.path.join(ctx.work, 'out_%s.json' % b)
        with open(jf, 'w') as f:
            json.dump(dict(pts=clean, settings=[[b, p] for p in PRECS]), f)
        procs.append((b, of, subprocess.Popen([os.environ.get('VERIF_PYTHON', '/venv/bin/python'), '-W', 'ignore', wf, jf, of],
                                              stdout=subprocess.PIPE, stderr=subprocess.STDOUT, text=True)))
    res = {}
    for b, of, pr in procs:
        out, _ = pr.communicate(timeout=900)
        if pr.returncode != 0 or not os.path.exists(of):
            for p in PRECS:
                res[b + '/' + p] = dict(error='worker failed: ' + out[-500:])
        else:
            res.update(json.load(open(of)))
    return res


def run(ctx):
    rng = ctx.rng
    tie = None
    fx = None
    try:
        fx = extract(ctx)
        ctx.coverage['translated'] = fx['translated']
        ctx.coverage['delegated_to_library'] = fx['delegated']
    except facts.TieBroken as e:
        tie = 'translation failed: %s' % e
    if tie is None:
        ok, txt = core.prove(ctx)
        if not ok:
            tie = 'proof obligations of props/C04.v no longer check: ' + txt[-1500:]
    ctx.trusted += ['harness/props/c04.py: translator python ast -> Gallina for the numpy/jax bodies of normal_logpdf, poisson_logpdf, poisson, normal '
                    'and the pytorch normal_cdf formula (whitelisted expression subset, fail closed)',
                    'Coq Interval tactics (interval, integral) for the certified reference values; Coquelicot',
                    'mpmath at 60 digits as the reference where Coq has no enclosure (lgamma of non-integers and of n > %d, far tails of the cdf)' % (170 if ctx.quick else 1000),
                    'library kernels are validated, not proved: scipy.special.xlogy/gammaln, scipy.stats.norm, jax.scipy, torch.distributions, torch.erfc, tensorflow_probability']
    ctx.assumptions += ['special_ok: gammaln = ln o Gamma with Gamma > 0 on (0,inf) and Gamma(k+1) = k!, xlogy x y = x ln y for y > 0 and xlogy 0 y = 0',
                        'norm.pdf is the normal density (for normal = exp(normal_logpdf)); torch.erfc is the complementary error function',
                        'IEEE rounding is covered only through the stated tolerance (validated_not_proved)']
    pts = gen_points(rng, ctx.n(40, 400), ctx.quick)
    cdir = os.path.join(core.VERIF, 'corpus', 'C04')
    ncorpus = 0
    if os.path.isdir(cdir):
        for fn in sorted(os.listdir(cdir)):
            if fn.endswith('.json'):
                doc = json.load(open(os.path.join(cdir, fn)))
                for fam in ('normal', 'poisson', 'cdf'):
                    for p in doc.get(fam, []):
                        pts[fam].insert(0, {k: (float(v) if k != 'set' else v) for k, v in p.items()})
                        ncorpus += 1
    goals = cert_goals(pts, ctx.quick)
    xs_int = [-5.0, -3.0, -1.0, 0.5, 2.5, 4.0] if ctx.quick else [-5.0, -4.0, -3.0, -2.0, -1.0, -0.25, 0.5, 1.5, 2.5, 4.0, 5.0]
    ig = integral_goals(xs_int)
    # the backends run while Coq certifies the references
    import threading
    box = {}
    th = threading.Thread(target=lambda: box.update(impl=run_backends(ctx, pts)))
    th.start()
    cert = {}
    if tie is None or 'translation' not in tie:
        cert = run_coq_goals(ctx, 'cert', CERT_HEADER, goals, 30)
        cert.update(run_coq_goals(ctx, 'integral', CERT_HEADER, [(('Phi', x), g) for x, r, g in ig], 1))
    th.join()
    impl = box['impl']
    uncert = [k for k, v in cert.items() if v is False]
    ncert = sum(1 for k, v in cert.items() if v is True)
    if uncert and tie is None:
        tie = 'reference values could not be certified inside Coq: %r %s' % (uncert[:3], (cert.get('_errors') or [''])[0][-300:])
    # integral-certified Phi points join the cdf family
    for x, r, g in ig:
        if cert.get(('Phi', x)):
            pts['cdf'].append(dict(set='A', x=x, mu=0.0, sigma=1.0, ref=r, cert='integral', ref_err=Fraction(1, 10 ** 13)))
    if any(p.get('cert') == 'integral' for p in pts['cdf']):
        extra = run_backends_cdf(ctx, [p for p in pts['cdf'] if p.get('cert') == 'integral'])
    else:
        extra = {}
    failures, ncmp, nset = [], 0, 0
    per_setting = {}
    for b in BACKENDS:
        for p in PRECS:
            key = b + '/' + p
            got = impl.get(key, dict(error='missing'))
            if 'error' in got:
                failures.append(dict(func='backend', backend=b, prec=p, args={}, impl=got['error'], expected='values', tol=0, regime='crash', reference='-'))
                continue
            nset += 1
            if key in extra:
                got['cdf']['cdf'] = got['cdf']['cdf'] + extra[key]
            else:
                got['cdf']['cdf'] = got['cdf']['cdf'] + [None] * (len(pts['cdf']) - len(got['cdf']['cdf']))
            bad, n = compare_all(b, p, pts, got)
            failures += bad
            ncmp += n
            per_setting[key] = dict(comparisons=n, failures=len(bad))
    for f in failures:
        sig = '%s:%s:%s:%s' % (f['func'], f['backend'], f['prec'], f['regime'])
        if f['regime'] == 'subnormal-rate':
            # the kernels of some backends treat subnormal inputs as zero (or read them wrongly, depending on the vector lane): one finding
            sig = '%s:%s:subnormal-rate' % (f['func'], f['backend'])
        ctx.violation(sig, '%s on %s/%s at %r gives %r, exact value %r (tolerance %.3g, reference: %s)' % (
            f['func'], f['backend'], f['prec'], f['args'], f['impl'], f['expected'], f['tol'], f['reference']),
            dict(kind='point', theorem='C04 validation (%s)' % f['reference'], **f))
    if tie and not failures:
        ctx.violation('tie-broken', tie[:300], dict(kind='tie', detail=tie, theorem='props/C04.v'), nofail=True)
    fam_counts = {k: len(v) for k, v in pts.items()}
    cert_counts = {}
    for fam in pts:
        for p in pts[fam]:
            cert_counts[p.get('cert', '?')] = cert_counts.get(p.get('cert', '?'), 0) + 1
    distinct = len({json.dumps([fam, {k: p[k] for k in p if k in ('x', 'mu', 'sigma', 'n', 'lam')}], sort_keys=True) for fam in pts for p in pts[fam]
                    if not (fam == 'normal' and p['x'] == p['mu'] and p['sigma'] == 1.0)})
    ctx.coverage.update(
        evaluations=ncmp, distinct_nontrivial=distinct,
        rule='argument points: normal (x, mu, sigma) with sigma in 1e-10..1e10 and |z| up to 38; poisson (n, lambda) with integer n<=170, integer n up to 1e8, '
             'non-integer n, lambda around n, down to subnormals and up to 1e8, lambda = 0; normal_cdf arguments -38..38 with and without (mu, sigma). '
             'Set A is float32-representable and used for both precisions, set B is binary64 only. Each point is compared on every backend/precision for the '
             'log form, the non-log form (= exp of the log form) and the distribution object. distinct_nontrivial = distinct argument tuples other than the '
             'standard normal at its mean. TOLERANCE (64b): |impl - exact| <= max(1e-10*|exact|, 8 ulp * T) where T = 1 + sum of the magnitudes of the terms '
             'of the formula (|n ln lambda| + lambda + |lgamma(n+1)|, resp. |ln(sigma sqrt(2 pi))| + z^2/2): the relative rule applies unless the terms cancel; '
             '32b: max(1e-4*|exact|, 16 ulp32 * T). cdf: relative 1e-10 (1e-4) down to the smallest normal number, absolute below it (subnormal results may '
             'flush to zero: scipy/jax/tfp return 0 for x < -37.7 where the exact value is about 1e-310).',
        accuracy_claim='validated_not_proved', points=fam_counts, corpus_points=ncorpus, references=cert_counts, coq_certified_goals=ncert,
        backends=BACKENDS, precisions=PRECS, settings_run=nset, per_setting=per_setting,
        samples=[dict(family='poisson', point={k: v for k, v in pts['poisson'][5].items() if k in ('n', 'lam', 'cert')}, exact=float(pts['poisson'][5]['ref']),
                      numpy64=impl.get('numpy/64b', {}).get('poisson', {}).get('log', [None] * 6)[5]),
                 dict(family='cdf', point={k: v for k, v in pts['cdf'][0].items() if k in ('x', 'mu', 'sigma', 'cert')}, exact=float(pts['cdf'][0]['ref']),
                      pytorch64=impl.get('pytorch/64b', {}).get('cdf', {}).get('cdf', [None])[0])])


def run_backends_cdf(ctx, ps):
    """the integral-certified Phi points (added after certification) evaluated on every setting"""
    pts = dict(normal=[], poisson=[dict(set='A', n=1.0, lam=1.0)] * 2, cdf=[{k: p[k] for k in ('set', 'x', 'mu', 'sigma')} for p in ps])
    pts['normal'] = [dict(set='A', x=0.0, mu=0.0, sigma=1.0)]
    sub = core.Ctx.__new__(core.Ctx)
    sub.work = os.path.join(ctx.work, 'cdf_extra')
    os.makedirs(sub.work, exist_ok=True)
    res = run_backends(sub, pts)
    return {k: v['cdf']['cdf'] for k, v in res.items() if 'error' not in v}


def replay(body):
    if body.get('kind') != 'point':
        print(body.get('detail'))
        return 0
    import pyhf
    pyhf.set_backend(body['backend'], precision=body['prec'])
    tl = pyhf.tensorlib
    a = body['args']
    f = body['func']
    if 'refilled_in_place' in a:
        pts = a['refilled_in_place']
        buf_n, buf_l = tl.astensor([1.0] * len(pts)), tl.astensor([2.0] * len(pts))
        tl.poisson_logpdf(buf_n, buf_l)
        for j, q in enumerate(pts):
            buf_n[j] = float(q['n'])
            buf_l[j] = float(q['lam'])
        fresh = tl.poisson_logpdf(tl.astensor([q['n'] for q in pts]), tl.astensor([q['lam'] for q in pts]))
        print(dict(refilled=tl.tolist(tl.poisson_logpdf(buf_n, buf_l)), fresh=tl.tolist(fresh)))
        return 0
    if f.startswith('normal.'):
        args = [tl.astensor([a['x']]), tl.astensor([a['mu']]), tl.astensor([a['sigma']])]
        v = dict(log=tl.normal_logpdf, nonlog=tl.normal, dist=lambda x, m, s: pyhf.probability.Normal(m, s).log_prob(x))[f.split('.')[1]](*args)
    elif f.startswith('poisson.'):
        args = [tl.astensor([a['n']]), tl.astensor([a['lam']])]
        v = dict(log=tl.poisson_logpdf, nonlog=tl.poisson, dist=lambda n, l: pyhf.probability.Poisson(l).log_prob(n))[f.split('.')[1]](*args)
    elif f.startswith('cdf.'):
        v = tl.normal_cdf(tl.astensor([a['x']]), tl.astensor([a['mu']]), tl.astensor([a['sigma']]))
    else:
        print(body)
        return 0
    print(dict(impl=tl.tolist(v), expected=body['expected'], tol=body['tol']))
    return 0
