"""C08 - hypothesis tests: analytic answer for counting models, stable result layout, prerequisites.

Model: coq/Hypotest.v (result assembly, prerequisites, the asymptotic calculator's wiring, counting models),
run on labels through coq/HypotestRun.v.
(1) layout: all 16 flag combinations x {default (qtilde), q, q0} x {asymptotics, toybased}: the value returned by
    pyhf.infer.hypotest is diffed item by item with the layout computed inside Coq (labels -> the p-values obtained
    from a calculator driven through its public methods with the same random seed).
(2) prerequisites: no POI / POI held fixed (by argument or by the model's own configuration) / accepted variants.
(3) counting models (1..n bins, 1..n channels, signal proportional to background): Asimov data, fitted parameters,
    q and q_A against the closed form (each comparison a Coq goal proved by `interval` about
    TestStat.stat_closed at the summed counts - theorem C08_multi_bin_reduction), and CLs / tail probabilities /
    expected band against the formulae of C07 at those q, q_A.
(4) models with nuisance parameters, one model object reused over a history of calls versus fresh objects.
(5) the one-nuisance counting model (uncorrelated_background, one bin): Asimov data, fitted parameters, q, q_A against the closed
    form of coq/HypotestNuis.v (each comparison a Coq goal proved by `interval`), CLs / tails / band against the C07 formulae."""
import itertools
import json
import math
import os
from fractions import Fraction

from harness import core, facts
from harness.props import c06, c07, c08_tie

FLAGS = ['return_tail_probs', 'return_expected', 'return_expected_set', 'return_calculator']
KW = {'default': {}, 'q': {'test_stat': 'q'}, 'q0': {'test_stat': 'q0'}}
CT = {'asymptotics': 'CAsymptotics', 'toybased': 'CToybased'}
TOL_FIT = 1e-5

HEADER = '''From Coq Require Import ZArith List.
Require Import PV.Num PV.Run PV.Asympt PV.Hypotest PV.HypotestRun.
Import ListNotations.
'''


# ---------------------------------------------------------------------------------------
def extract(ctx):
    """tie to the source: gen/HypotestGen.v (tail of hypotest, prerequisites) and gen/AsymptGen.v (Asimov POI value); raises facts.TieBroken"""
    a = c07.extract(ctx)
    h = c08_tie.extract(ctx)
    return dict(files=[h['file'], a['file']], definitions=h['definitions'] + ['gen_asimov_mu'])


def fl(tb, x):
    v = tb.tolist(x) if not isinstance(x, (int, float)) else x
    while isinstance(v, list):
        assert len(v) == 1
        v = v[0]
    v = float(v)
    return None if v != v else v


def seed_all(backend, s):
    import numpy as np
    np.random.seed(s)
    if backend == 'pytorch':
        import torch
        torch.manual_seed(s)


def classify(tb, item, calc_types):
    if isinstance(item, calc_types):
        return ('calc', type(item).__name__)
    if isinstance(item, (list, tuple)):
        return ('list', [fl(tb, x) for x in item])
    return ('scalar', fl(tb, item))


class Layout:
    def __init__(self, backend):
        import pyhf
        from pyhf.infer.calculators import AsymptoticCalculator, ToyCalculator
        self.pyhf = pyhf
        pyhf.set_backend(backend)
        self.backend = backend
        self.tb, _ = pyhf.get_backend()
        self.calc_types = (AsymptoticCalculator, ToyCalculator)
        self.model = pyhf.simplemodels.uncorrelated_background([5.0], [50.0], [7.0])
        self.data = [53.0] + [float(x) for x in self.model.config.auxdata]
        self.seed = 12345
        import logging
        logging.getLogger('pyhf.infer.test_statistics').setLevel(logging.ERROR)

    def extra(self, calctype):
        return dict(ntoys=3, track_progress=False) if calctype == 'toybased' else {}

    def reference(self, calctype, kw):
        """the quantities the documentation names, from a calculator driven through its public methods"""
        tb = self.tb
        seed_all(self.backend, self.seed)
        calc = self.pyhf.infer.utils.create_calculator(calctype, self.data, self.model, None, None, None, **kw, **self.extra(calctype))
        ts = calc.teststatistic(1.0)
        sb, b = calc.distributions(1.0)
        o = [fl(tb, x) for x in calc.pvalues(ts, sb, b)]
        e = [[fl(tb, x) for x in band] for band in calc.expected_pvalues(sb, b)]
        lab = {1: o[0], 2: o[1], 3: o[2]}
        for base, band in ((10, e[0]), (20, e[1]), (30, e[2])):
            for i, v in enumerate(band):
                lab[base + i] = v
        return lab

    def run(self, calctype, kw, flags):
        seed_all(self.backend, self.seed)
        try:
            r = self.pyhf.infer.hypotest(1.0, self.data, self.model, calctype=calctype, **dict(zip(FLAGS, flags)), **kw, **self.extra(calctype))
        except Exception as e:
            return dict(exception=core.exc_enum(e), msg=str(e)[:200])
        if isinstance(r, tuple):
            return dict(is_tuple=True, items=[classify(self.tb, x, self.calc_types) for x in r])
        return dict(is_tuple=False, items=[classify(self.tb, r, self.calc_types)])


def layout_expr(poi, fg, sf, ct, q0, flags):
    b = core.cbool
    poi_s = 'None' if poi is None else '(Some %d%%nat)' % poi
    fg_s = 'None' if fg is None else '(Some %s)' % core.clist(fg, b)
    return 'run_layout %s %s %s %s %s %s' % (poi_s, fg_s, core.clist(sf, b), ct, b(q0), ' '.join(b(f) for f in flags))


def decode_layout(res):
    v = core.parse_qc(res.replace('%Z', ''))
    if v[0] == 'inl':
        return dict(error={1: 'UnspecifiedPOI', 2: 'InvalidModel', 3: 'PyKeyError', 4: 'calc'}[v[1]])
    is_tuple, items = v[1]
    out = []
    for kind, vals in items:
        out.append(({0: 'scalar', 1: 'list', 2: 'calc'}[kind], list(vals)))
    return dict(is_tuple=(is_tuple == 'true'), items=out)


def same_float(a, b):
    if a is None or b is None:
        return a is None and b is None
    return core.close(core.frac(a), b, 1e-12, 1e-300)


def layout_diff(model, labels, impl):
    """first difference between the Coq layout (labels) and what hypotest returned, or None"""
    if 'exception' in impl:
        return 'raises %s' % impl['exception']
    if model['is_tuple'] != impl['is_tuple']:
        return 'returns %s, documented %s' % ('a tuple' if impl['is_tuple'] else 'a bare value', 'a tuple' if model['is_tuple'] else 'a bare value')
    if len(model['items']) != len(impl['items']):
        return 'returns %d items, documented %d' % (len(impl['items']), len(model['items']))
    for pos, ((mk, mv), (ik, iv)) in enumerate(zip(model['items'], impl['items'])):
        if mk != ik:
            return 'item %d is a %s, documented a %s' % (pos, ik, mk)
        if mk == 'scalar' and not same_float(labels[mv[0]], iv):
            return 'item %d (scalar) is %r, documented quantity %s = %r' % (pos, iv, label_name(mv[0]), labels[mv[0]])
        if mk == 'list':
            if len(mv) != len(iv):
                return 'item %d is a list of %d, documented %d' % (pos, len(iv), len(mv))
            for j, (l, x) in enumerate(zip(mv, iv)):
                if not same_float(labels[l], x):
                    return 'item %d[%d] is %r, documented quantity %s = %r' % (pos, j, x, label_name(l), labels[l])
    return None


def label_name(l):
    if l < 10:
        return {1: 'CLsb_obs', 2: 'CLb_obs', 3: 'CLs_obs'}[l]
    return '%s_exp[%d]' % ({1: 'CLsb', 2: 'CLb', 3: 'CLs'}[l // 10], l % 10)


# ---------------------------------------------------------------------------------------
# (2) prerequisites
def prereq_cases():
    import pyhf
    m = pyhf.simplemodels.uncorrelated_background([5.0], [50.0], [7.0])
    data = [53.0] + [float(x) for x in m.config.auxdata]
    nopoi = pyhf.Model({'channels': m.spec['channels']}, poi_name=None)
    spec_fixed = {'channels': m.spec['channels'], 'parameters': [{'name': 'mu', 'fixed': True, 'inits': [1.0], 'bounds': [[0, 10]]}]}
    mfixed = pyhf.Model(spec_fixed, poi_name='mu')
    out = []
    for ct in ('asymptotics', 'toybased'):
        for flags in ((False,) * 4, (True,) * 4, (True, False, True, False)):
            out.append(dict(name='no-poi', model=nopoi, data=data, fixed=None, ct=ct, flags=flags))
            out.append(dict(name='poi-fixed-by-argument', model=m, data=data, fixed=[True, False], ct=ct, flags=flags))
            out.append(dict(name='poi-fixed-by-model', model=mfixed, data=data, fixed=None, ct=ct, flags=flags))
            out.append(dict(name='poi-fixed-by-both', model=mfixed, data=data, fixed=[True, True], ct=ct, flags=flags))
    for flags in ((False,) * 4, (True, True, True, True)):
        out.append(dict(name='nuisance-fixed', model=m, data=data, fixed=[False, True], ct='asymptotics', flags=flags))
        out.append(dict(name='empty-fixed-list-falls-back', model=m, data=data, fixed=[], ct='asymptotics', flags=flags))
        out.append(dict(name='model-fixed-overridden-free', model=mfixed, data=data, fixed=[False, False], ct='asymptotics', flags=flags))
    return out


def run_prereq(c):
    import pyhf
    kw = dict(ntoys=2, track_progress=False) if c['ct'] == 'toybased' else {}
    try:
        r = pyhf.infer.hypotest(1.0, c['data'], c['model'], fixed_params=c['fixed'], calctype=c['ct'], **dict(zip(FLAGS, c['flags'])), **kw)
        return dict(ok=True, is_tuple=isinstance(r, tuple), n=len(r) if isinstance(r, tuple) else 1)
    except Exception as e:
        return dict(ok=False, exception=core.exc_enum(e), msg=str(e)[:200])


# ---------------------------------------------------------------------------------------
# (3) counting models
def counting_spec(channels, r, lo, hi):
    chs = []
    for ci, bins in enumerate(channels):
        chs.append({'name': 'ch%d' % ci, 'samples': [
            {'name': 'sig', 'data': [r * b for b in bins], 'modifiers': [{'name': 'mu', 'type': 'normfactor', 'data': None}]},
            {'name': 'bkg', 'data': [float(b) for b in bins], 'modifiers': []}]})
    return {'channels': chs, 'observations': [{'name': 'ch%d' % ci, 'data': [0.0] * len(bins)} for ci, bins in enumerate(channels)],
            'measurements': [{'name': 'm', 'config': {'poi': 'mu', 'parameters': [{'name': 'mu', 'bounds': [[float(lo), float(hi)]], 'inits': [1.0]}]}}],
            'version': '1.0.0'}


SHAPES = [[[50.0]], [[12.0, 30.0, 6.0]], [[20.0, 8.0], [40.0]], [[3.0], [5.0, 9.0], [16.0, 2.0, 7.0]], [[1.5]]]


def gen_counting(rng, n_shapes, n_mu):
    out = []
    shapes = SHAPES[:] if n_shapes >= len(SHAPES) else [SHAPES[0], SHAPES[2]] + rng.sample([SHAPES[1]] + SHAPES[3:], max(0, n_shapes - 2))
    for channels in shapes:
        r = rng.choice([0.25, 0.125, 0.5])
        flat = [b for ch in channels for b in ch]
        B, S = sum(flat), r * sum(flat)
        for kind in ('q', 'qtilde', 'q0'):
            lo = -0.125 if kind == 'q' else 0.0
            hi = 10.0
            patterns = {'zero': [0.0] * len(flat), 'bkg-like': [float(round(b)) for b in flat],
                        'signal-like': [float(round(b * (1 + r))) for b in flat], 'below-bkg': [float(math.floor(b * 0.6)) for b in flat],
                        'far-above': [float(round(b * (1 + 2.5 * r) + 3)) for b in flat]}
            for pname, n in patterns.items():
                mus = [0.0] if kind == 'q0' else rng.sample([0.5, 1.0, 2.0, 3.5], n_mu)
                for mu in mus:
                    out.append(dict(channels=channels, r=r, lo=lo, hi=hi, kind=kind, n=n, mu=mu, pattern=pname,
                                    N=sum(n), S=S, B=B, nbins=len(flat), nch=len(channels)))
    return out


def run_counting(cases):
    import pyhf
    from pyhf.infer.calculators import generate_asimov_data
    import logging
    logging.getLogger('pyhf.infer.test_statistics').setLevel(logging.ERROR)
    pyhf.set_backend('numpy')
    tb, _ = pyhf.get_backend()
    cache = {}
    outs = []
    for c in cases:
        key = json.dumps([c['channels'], c['r'], c['lo'], c['hi']])
        if key not in cache:
            cache[key] = pyhf.Workspace(counting_spec(c['channels'], c['r'], c['lo'], c['hi'])).model()
        model = cache[key]
        data = list(c['n']) + list(model.config.auxdata)
        o = {}
        try:
            r = pyhf.infer.hypotest(c['mu'], data, model, test_stat=c['kind'], return_tail_probs=True, return_expected_set=True, return_calculator=True)
            o['obs'] = fl(tb, r[0])
            o['tails'] = [fl(tb, x) for x in r[1]]
            o['band'] = [fl(tb, x) for x in r[2]]
            calc = r[3]
            fp = calc.fitted_pars
            o['fitted'] = {k: [float(x) for x in tb.tolist(getattr(fp, k))] for k in
                           ('asimov_pars', 'free_fit_to_data', 'free_fit_to_asimov', 'fixed_poi_fit_to_data', 'fixed_poi_fit_to_asimov')}
            o['sqrtqmuA'] = fl(tb, calc.sqrtqmuA_v)
            init, bounds, fixed = model.config.suggested_init(), model.config.suggested_bounds(), model.config.suggested_fixed()
            func = pyhf.infer.utils.get_test_stat(c['kind'])
            o['q'] = fl(tb, func(c['mu'], data, model, init, bounds, fixed))
            amu = 1.0 if c['kind'] == 'q0' else 0.0
            adata = generate_asimov_data(amu, data, model, None, None, None)
            o['asimov'] = [float(x) for x in tb.tolist(adata)]
            o['qA'] = fl(tb, func(c['mu'], adata, model, init, bounds, fixed))
        except Exception as e:
            o['exception'] = core.exc_enum(e)
            o['msg'] = str(e)[:200]
        outs.append(o)
    return outs


def one_bin(c, n_total):
    return dict(stat=c['kind'], n=n_total, s=c['S'], b=c['B'], lo=c['lo'], hi=c['hi'], mu=c['mu'])


def clamp_muhat(c, n_total):
    return max(c['lo'], min(c['hi'], (n_total - c['B']) / c['S']))



# ---------------------------------------------------------------------------------------
# (4) models with nuisance parameters, ONE model object reused over a history of (data, mu, statistic) calls:
#     every call must give what a freshly built model gives for the same call (the hypothesis test is a function
#     of its arguments, not of what the model object or the calculator module saw before), and the Asimov parameters
#     must be the conditional fit to the CURRENT data (C08_asimov_is_expectation).
def nuisance_specs():
    return [
        ('uncorrelated_background', dict(signal=[6.0], bkg=[40.0], bkg_uncertainty=[8.0])),
        ('uncorrelated_background', dict(signal=[3.0, 5.0], bkg=[30.0, 12.0], bkg_uncertainty=[5.0, 3.0])),
        ('correlated_background', dict(signal=[4.0, 6.0], bkg=[50.0, 20.0], bkg_up=[56.0, 23.0], bkg_down=[45.0, 18.0])),
    ]


def build_nuisance(kind, kw):
    import pyhf
    return getattr(pyhf.simplemodels, kind)(**kw)


def gen_history(rng, n_models, n_calls):
    specs = nuisance_specs()
    out = []
    for kind, kw in (specs if n_models >= len(specs) else [specs[0]] + rng.sample(specs[1:], max(0, n_models - 1))):
        bkg = kw['bkg']
        calls = []
        for _ in range(n_calls):
            scale = rng.choice([0.3, 0.6, 1.0, 1.15, 1.6, 0.0])
            n = [float(round(b * scale + rng.choice([0, 1, 2]))) for b in bkg]
            calls.append(dict(n=n, mu=rng.choice([0.5, 1.0, 2.5]), kind=rng.choice(['qtilde', 'qtilde', 'q0'])))
        out.append(dict(model=kind, kwargs=kw, calls=calls))
    return out


def run_history(h):
    import pyhf
    import logging
    logging.getLogger('pyhf.infer.test_statistics').setLevel(logging.ERROR)
    pyhf.set_backend('numpy')
    tb, _ = pyhf.get_backend()
    reused = build_nuisance(h['model'], h['kwargs'])
    outs = []
    for c in h['calls']:
        o = {}
        for tag in ('reused', 'fresh'):
            model = reused if tag == 'reused' else build_nuisance(h['model'], h['kwargs'])
            data = list(c['n']) + list(model.config.auxdata)
            mu = 0.0 if c['kind'] == 'q0' else c['mu']
            try:
                r = pyhf.infer.hypotest(mu, data, model, test_stat=c['kind'], return_tail_probs=True, return_expected_set=True, return_calculator=True)
                fp = r[3].fitted_pars
                o[tag] = dict(obs=fl(tb, r[0]), tails=[fl(tb, x) for x in r[1]], band=[fl(tb, x) for x in r[2]],
                              asimov_pars=[float(x) for x in tb.tolist(fp.asimov_pars)], sqrtqmuA=fl(tb, r[3].sqrtqmuA_v))
                if tag == 'fresh':
                    amu = 1.0 if c['kind'] == 'q0' else 0.0
                    bf = pyhf.infer.mle.fixed_poi_fit(amu, data, model)
                    o['conditional_fit'] = [float(x) for x in tb.tolist(bf)]
            except Exception as e:
                o[tag] = dict(exception=core.exc_enum(e), msg=str(e)[:200])
        outs.append(o)
    return outs


def flat_result(d):
    return [d['obs']] + d['tails'] + d['band'] + d['asimov_pars'] + [d['sqrtqmuA']]


# ---------------------------------------------------------------------------------------
# (5) the one-nuisance counting model ("on/off"): n ~ Pois(mu s + gamma b), auxiliary m ~ Pois(gamma tau), tau = (b/db)^2
#     (pyhf.simplemodels.uncorrelated_background([s],[b],[db])).  Closed form: coq/HypotestNuis.v (gamma_cond = larger root of
#     the stationarity quadratic, mu_hat = clamp of (n - (m/tau) b)/s, q_closed_onoff, asimov_n/asimov_m, qA_closed_onoff).
#     Every comparison below is a Coq goal about those definitions proved by `interval`; the python floats only propose.
TOL_PAR = 2e-3      # fitted parameters / Asimov data (= expectation at fitted parameters): optimiser accuracy on the arg-min
TOL_CHAIN = 1e-3    # q_A on the exact Asimov data versus pyhf's q_A on its own (fitted) Asimov data, relative to max(1, q_A)
# (s, b, db): tau = 25, 100, 9, 25, 16, (50/7)^2
ONOFF_MODELS = [(6.0, 40.0, 8.0), (5.0, 50.0, 5.0), (4.0, 12.0, 4.0), (3.0, 10.0, 2.0), (2.0, 4.0, 1.0), (5.0, 50.0, 7.0)]
ONOFF_AUX = [('nominal', 1.0), ('aux-low', 0.8), ('aux-high', 1.25)]

ONOFF_HEADER = '''From Coq Require Import Reals Lra.
From Interval Require Import Tactic.
Require Import PV.Num PV.TestStat PV.HypotestNuis.
Local Open Scope R_scope.
'''


def onoff_tau(b, db):
    return (b / db) ** 2          # the float pyhf's shapesys builder computes (checked against model.config.auxdata in run_onoff)


def gen_onoff(rng, n_models, n_mu, n_aux):
    out = []
    # quick: the models whose tau is a small integer (the exact rationals of the goals stay short: ~4x cheaper per goal); thorough: all, incl. tau = (50/7)^2
    models = ONOFF_MODELS[:] if n_models >= len(ONOFF_MODELS) else [ONOFF_MODELS[0]] + rng.sample(ONOFF_MODELS[1:-1], max(0, n_models - 1))
    for (s, b, db) in models:
        tau = onoff_tau(b, db)
        for kind in ('q', 'qtilde', 'q0'):
            lo = -0.125 if kind == 'q' else 0.0
            hi = 10.0
            patterns = {'zero': 0.0, 'below-bkg': float(math.floor(0.6 * b)), 'bkg-like': float(round(b)), 'signal-like': float(round(b + s)),
                        'above': float(round(1.6 * b + 3)), 'far-above': float(round(b + 12 * s))}
            auxs = [ONOFF_AUX[0]] + rng.sample(ONOFF_AUX[1:], max(0, n_aux - 1))
            for pname, n in patterns.items():
                for aname, af in auxs:
                    mus = [0.0] if kind == 'q0' else rng.sample([0.5, 1.0, 2.0, 3.5], n_mu)
                    for mu in mus:
                        out.append(dict(s=s, b=b, db=db, lo=lo, hi=hi, kind=kind, n=n, m=af * tau, mu=mu, pattern=pname, aux=aname))
    return out


def run_onoff(cases):
    import pyhf
    from pyhf.infer.calculators import generate_asimov_data
    import logging
    logging.getLogger('pyhf.infer.test_statistics').setLevel(logging.ERROR)
    pyhf.set_backend('numpy')
    tb, _ = pyhf.get_backend()
    outs = []
    for c in cases:
        o = {}
        try:
            model = pyhf.simplemodels.uncorrelated_background([c['s']], [c['b']], [c['db']])
            o['auxdata'] = [float(x) for x in model.config.auxdata]
            o['par_order'] = list(model.config.par_order)
            pi = model.config.poi_index
            o['poi_index'] = pi
            init, bounds, fixed = model.config.suggested_init(), model.config.suggested_bounds(), model.config.suggested_fixed()
            bounds[pi] = (c['lo'], c['hi'])
            data = [c['n'], c['m']]
            r = pyhf.infer.hypotest(c['mu'], data, model, par_bounds=bounds, test_stat=c['kind'], return_tail_probs=True, return_expected_set=True, return_calculator=True)
            o['obs'] = fl(tb, r[0])
            o['tails'] = [fl(tb, x) for x in r[1]]
            o['band'] = [fl(tb, x) for x in r[2]]
            calc = r[3]
            fp = calc.fitted_pars
            o['fitted'] = {k: [float(x) for x in tb.tolist(getattr(fp, k))] for k in
                           ('asimov_pars', 'free_fit_to_data', 'free_fit_to_asimov', 'fixed_poi_fit_to_data', 'fixed_poi_fit_to_asimov')}
            o['sqrtqmuA'] = fl(tb, calc.sqrtqmuA_v)
            func = pyhf.infer.utils.get_test_stat(c['kind'])
            o['q'] = fl(tb, func(c['mu'], data, model, init, bounds, fixed))
            amu = 1.0 if c['kind'] == 'q0' else 0.0
            adata = generate_asimov_data(amu, data, model, init, bounds, fixed)
            o['asimov'] = [float(x) for x in tb.tolist(adata)]
            o['qA'] = fl(tb, func(c['mu'], adata, model, init, bounds, fixed))
            # diagnostics for the decision only: the objective pyhf's two fits reached on the data and on the Asimov data
            for tag, d in (('data', data), ('asimov', o['asimov'])):
                mu_fit = 0.0 if c['kind'] == 'q0' else c['mu']
                _, v1 = pyhf.infer.mle.fixed_poi_fit(mu_fit, d, model, init, bounds, fixed, return_fitted_val=True)
                _, v2 = pyhf.infer.mle.fit(d, model, init, bounds, fixed, return_fitted_val=True)
                o['objective_' + tag] = [float(v1), float(v2)]
        except Exception as e:
            o['exception'] = core.exc_enum(e)
            o['msg'] = str(e)[:200]
        outs.append(o)
    return outs


# python floats: proposer only
def oo_gcond(n, m, s, b, tau, mu):
    A = (b + tau) * b
    B = (b + tau) * mu * s - (n + m) * b
    C = -m * mu * s
    return (-B + math.sqrt(max(0.0, B * B - 4 * A * C))) / (2 * A)


def oo_nll(n, m, s, b, tau, mu, g):
    l1, l2 = mu * s + g * b, g * tau
    xlogy = lambda x, y: 0.0 if x == 0 else x * math.log(y)
    return l1 - xlogy(n, l1) + l2 - xlogy(m, l2)


def oo_muhat(n, m, s, b, tau, lo, hi):
    return max(lo, min(hi, (n - (m / tau) * b) / s))


def oo_stat(kind, n, m, s, b, tau, lo, hi, mu):
    mh = oo_muhat(n, m, s, b, tau, lo, hi)
    t = lambda x: 2 * (oo_nll(n, m, s, b, tau, x, oo_gcond(n, m, s, b, tau, x)) - oo_nll(n, m, s, b, tau, mh, oo_gcond(n, m, s, b, tau, mh)))
    if kind in ('q', 'qtilde'):
        return 0.0 if mu < mh else t(mu)
    return 0.0 if mh < 0 else t(0.0)


def oo_twice_nll_full(n, m, s, b, tau, mu, g):
    """pyhf's objective (with the data-only terms) at a parameter point, for the optimiser-shortfall diagnosis"""
    return 2 * (oo_nll(n, m, s, b, tau, mu, g) + math.lgamma(n + 1) + math.lgamma(m + 1))


class OnOff:
    """exact rationals of one case and the Coq text of the goals about it"""
    def __init__(self, c, tau):
        F = core.frac
        self.c = c
        self.n, self.m, self.s, self.b, self.tau, self.lo, self.hi, self.mu = (F(x) for x in (c['n'], c['m'], c['s'], c['b'], tau, c['lo'], c['hi'], c['mu']))
        self.kind = c['kind']
        self.amu = Fraction(1) if self.kind == 'q0' else Fraction(0)
        self.mu_fit = Fraction(0) if self.kind == 'q0' else self.mu
        self.model_args = ' '.join(c06.rat(x) for x in (self.s, self.b, self.tau))

    def coef(self, n, m, mu):
        A = (self.b + self.tau) * self.b
        B = (self.b + self.tau) * (mu * self.s) - (n + m) * self.b
        C = -(m * (mu * self.s))
        return -B, B * B - 4 * A * C, 2 * A

    def clamp(self, n, m):
        u = (n - m / self.tau * self.b) / self.s
        if u <= self.lo:
            return self.lo, 'left'
        if u >= self.hi:
            return self.hi, 'right; right'
        return u, 'right; left'

    def gassert(self, name, n, m, mu):
        r = c06.rat
        cf = self.coef(n, m, mu)
        return ('  assert (%s : gamma_cond %s %s %s %s = (%s + sqrt %s) / %s) by (apply gamma_cond_eq; unfold disc, qb, qa, qc; lra).\n'
                % (name, r(n), r(m), self.model_args, r(mu), r(cf[0]), r(cf[1]), r(cf[2])))

    def lemma(self, gid, expr, val, tol, proof):
        return 'Lemma g_%d : Rabs (%s - %s) <= %s.\nProof.\n%s Qed.\n' % (gid, expr, c06.rat(val), c06.rat(tol), proof)

    def goal_stat(self, gid, n, m, val, tol):
        """q_closed_onoff at the (rational) data n, m"""
        r = c06.rat
        mh, path = self.clamp(n, m)
        dargs = '%s %s %s %s %s' % (r(n), r(m), self.model_args, r(self.lo), r(self.hi))
        proof = ('  assert (E : mu_hat %s = %s) by (apply mu_hat_eq; [lra | unfold mu_free; %s; split; lra]).\n' % (dargs, r(mh), path)
                 + self.gassert('G1', n, m, self.mu_fit) + self.gassert('G2', n, m, mh)
                 + '  unfold q_closed_onoff, t_onoff. rewrite E. try (destruct (Rlt_dec _ _); try (exfalso; lra)); unfold prof; try rewrite G1; try rewrite G2;\n'
                   '  unfold nll_onoff, lam1, lam2; interval with (i_prec 60).')
        return self.lemma(gid, 'q_closed_onoff %s %s %s' % (c06.SCOQ[self.kind], dargs, r(self.mu)), val, tol, proof)

    def goal_chain(self, gid, val, tol):
        """qA_closed_onoff: the statistic on the exact Asimov data of the conditional fit with the POI at amu (lo <= amu <= hi here)"""
        r = c06.rat
        dargs = '%s %s %s' % (r(self.n), r(self.m), self.model_args)
        proof = (self.gassert('G0', self.n, self.m, self.amu)
                 + '  rewrite (qA_closed_unfold _ _ _ _ _ _ _ _ _ _ _ G0). unfold q_closed_onoff, t_onoff. rewrite mu_hat_lam by lra.\n'
                   '  try (destruct (Rlt_dec _ _); try (exfalso; lra)); unfold prof, nll_onoff, gamma_cond, disc, qb, qa, qc, lam1, lam2; interval with (i_prec 60).')
        expr = 'qA_closed_onoff %s %s %s %s %s %s' % (c06.SCOQ[self.kind], dargs, r(self.lo), r(self.hi), r(self.mu), r(self.amu))
        return self.lemma(gid, expr, val, tol, proof)

    def goal_gamma(self, gid, n, m, mu, val, tol):
        r = c06.rat
        proof = self.gassert('G1', n, m, mu) + '  rewrite G1; interval with (i_prec 60).'
        return self.lemma(gid, 'gamma_cond %s %s %s %s' % (r(n), r(m), self.model_args, r(mu)), val, tol, proof)

    def goal_asimov(self, gid, which, val, tol):
        r = c06.rat
        proof = self.gassert('G1', self.n, self.m, self.amu) + '  unfold asimov_n, asimov_m, lam1, lam2; rewrite G1; interval with (i_prec 60).'
        return self.lemma(gid, 'asimov_%s %s %s %s %s' % (which, r(self.n), r(self.m), self.model_args, r(self.amu)), val, tol, proof)


def certify_onoff(ctx, name, items):
    """c06.certify with the header of this part (same protocol: set of rejected goal ids)"""
    saved = c06.GOAL_HEADER
    c06.GOAL_HEADER = ONOFF_HEADER
    try:
        return c06.certify(ctx, name, items)
    finally:
        c06.GOAL_HEADER = saved

# ---------------------------------------------------------------------------------------
def load_corpus(key='counting'):
    d = os.path.join(core.VERIF, 'corpus', 'C08')
    out = []
    if os.path.isdir(d):
        for fn in sorted(os.listdir(d)):
            if fn.endswith('.json'):
                out += json.load(open(os.path.join(d, fn))).get(key, [])
    return out


def run(ctx):
    rng = ctx.rng
    tie = None
    try:
        ctx.coverage['translated_from_source'] = extract(ctx)
    except facts.TieBroken as e:
        tie = 'translation of pyhf/infer/__init__.py (hypotest) to Gallina failed (harness/props/c08.py:extract): %s' % e
    if tie is None:
        ok, txt = core.prove(ctx)
        if not ok:
            why = ('the functions translated from the source no longer coincide with the hand model (coq/TieHypotest.v, C08_source_is_model_*): '
                   if ('Tie' in txt or 'source_is_model' in txt or 'Gen.v' in txt) else 'proof obligations of props/C08.v no longer check: ')
            tie = why + txt[-1200:]
    rc, mout, _ = core.coq_make(['HypotestRun.vo', 'TestStat.vo'])
    if rc != 0:
        tie = tie or ('coq/HypotestRun.v does not build: ' + mout[-800:])
    model_ok = rc == 0          # the hand model is run for the correspondence even when a tie theorem no longer checks
    ctx.trusted += ['harness/props/c08_tie.py + harness/props/tie_translate.py (python ast -> Gallina for the tail of hypotest: returned sequence by flags, '
                    'singleton unwrapping, is_q0; _check_hypotest_prerequisites with utils.all_pois_floating; the Asimov POI value of '
                    'AsymptoticCalculator.teststatistic; fail closed): C08_source_is_model_* prove the translated definitions equal to the hand model']
    ctx.trusted += ['harness/props/c08.py: classification of the returned python value (tuple / list / 0-d tensor / calculator object); the '
                    'reference quantities for the layout come from a calculator driven through its documented methods with the same seed',
                    'SLSQP (scipy) behind the real fits of the counting models; closed-form q, q_A certified by Interval at the summed counts '
                    '(C08_multi_bin_reduction), tolerance 1e-5',
                    'the last step CLs = formulae(q, q_A) is evaluated with mpmath at the implementation\'s own q, q_A (relation proved in '
                    'C07/C08_hypotest_counting_analytic for an arbitrary cdf; numeric cdf is property C04)',
                    'one-nuisance (on/off) models: closed form coq/HypotestNuis.v (conditional optimum = larger root of the stationarity quadratic, clamped '
                    'best fit, Asimov data, q, q_A), every comparison certified by Interval: q and q_A within 1e-5 (q_A on the Asimov data pyhf generated), '
                    'Asimov data and fitted nuisance parameter within 2e-3 relative (accuracy of SLSQP on the arg-min), q_A on the exact Asimov data within '
                    '1e-3 relative; a case where scipy stopped more than 2e-6 above the minimum of the objective it was given (pyhf objective evaluated at '
                    'the closed-form optimum) is counted (onoff_optimiser_short_of_minimum) and its q/q_A not compared - optimiser quality is property C05']
    ctx.assumptions += ['exact fits in C08_hypotest_counting_analytic (cfit/cfixed) and C08_hypotest_onoff_analytic (ofit/ofixed: proved to be the arg-min, '
                        'C08_onoff_mu_hat_is_argmin / C08_onoff_gamma_cond_is_argmin); real optimiser within 1e-5 on the statistic',
                        'C08_hypotest_onoff_analytic / C08_onoff_q_closed_form: observed count > 0 or POI range >= 0 (C08_onoff_q_closed_form_gen: rate positive at '
                        'every conditional optimum of the range); gamma bounds of the shapesys parameter (1e-10, 10) not modelled: generated cases keep the optimum inside']
    fails = {}
    stats = dict(layout_runs=0, layout_by_calctype={}, prereq_runs=0, prereq_outcomes={}, counting_patterns={}, counting_kinds={},
                 counting_shapes={}, counting_goals=0, counting_goals_rejected=0, keyerror_unknown_calctype=None)
    sigs = set()
    evaluations = 0

    # ---- (1) layout: exhaustive over flags x statistic x calculator type ----
    combos = list(itertools.product([False, True], repeat=4))
    lexprs, lkeys = [], []
    for ct in CT:
        for kwname in KW:
            for flags in combos:
                lkeys.append((ct, kwname, flags))
                lexprs.append(layout_expr(0, None, [False, False], CT[ct], kwname == 'q0', flags))
    # (2) prerequisites
    pcases = prereq_cases()
    for c in pcases:
        sf = [bool(x) for x in c['model'].config.suggested_fixed()]
        lexprs.append(layout_expr(c['model'].config.poi_index, c['fixed'], sf, CT[c['ct']], False, c['flags']))
    lmodels = None
    if model_ok:
        try:
            res = core.coq_eval(ctx, 'layout', HEADER, lexprs, shard=200)
            lmodels = [decode_layout(r) for r in res]
        except (core.CoqEvalError, AssertionError, KeyError) as e:
            tie = tie or ('model evaluation failed: %s' % str(e)[-800:])
    backends = ['numpy', 'pytorch'] + ([] if ctx.quick else ['jax'])
    for be in backends:
        L = Layout(be)
        refs = {}
        for idx, (ct, kwname, flags) in enumerate(lkeys):
            if be != 'numpy' and ct == 'toybased' and be == 'jax':
                continue            # jax toys cost seconds per call; numpy and pytorch cover the toy calculator
            if (ct, kwname) not in refs:
                try:
                    refs[(ct, kwname)] = L.reference(ct, KW[kwname])
                except Exception as e:
                    refs[(ct, kwname)] = dict(exception=core.exc_enum(e), msg=str(e)[:200])
            impl = L.run(ct, KW[kwname], flags)
            evaluations += 1
            stats['layout_runs'] += 1
            stats['layout_by_calctype'][ct] = stats['layout_by_calctype'].get(ct, 0) + 1
            if any(flags):
                sigs.add(('layout', ct, kwname, flags))
            labels = refs[(ct, kwname)]
            if 'exception' in labels:
                fails.setdefault('calculator-raises:%s' % ct, []).append(
                    (dict(calctype=ct, kwargs=KW[kwname], flags=list(flags), backend=be), labels, 'p-values', 'the %s calculator raises %s: %s' % (ct, labels['exception'], labels['msg'])))
                continue
            if lmodels is None:
                continue
            d = layout_diff(lmodels[idx], labels, impl)
            if d:
                fails.setdefault('layout:%s:%s' % (ct, 'q0' if kwname == 'q0' else 'cls'), []).append(
                    (dict(calctype=ct, kwargs=KW[kwname], flags=dict(zip(FLAGS, flags)), backend=be), impl,
                     dict(layout=lmodels[idx], quantities={label_name(k): v for k, v in labels.items()}),
                     'hypotest(%s%s) %s' % (', '.join('%s=%s' % kv for kv in zip(FLAGS, flags)), ''.join(', %s=%r' % kv for kv in KW[kwname].items()), d)))
        ctx.log('%s: layout runs done' % be)
    # unknown calculator type (diagnostic)
    try:
        L.pyhf.infer.hypotest(1.0, L.data, L.model, calctype='no-such-calculator')
        stats['keyerror_unknown_calctype'] = 'accepted'
    except Exception as e:
        stats['keyerror_unknown_calctype'] = core.exc_enum(e)

    # ---- (2) prerequisites ----
    import pyhf
    pyhf.set_backend('numpy')
    for j, c in enumerate(pcases):
        o = run_prereq(c)
        evaluations += 1
        stats['prereq_runs'] += 1
        key = c['name'] + ':' + (o.get('exception') or 'accepted')
        stats['prereq_outcomes'][key] = stats['prereq_outcomes'].get(key, 0) + 1
        sigs.add(('prereq', c['name'], c['ct'], c['flags']))
        if lmodels is None:
            continue
        m = lmodels[len(lkeys) + j]
        want = m.get('error')
        got = None if o['ok'] else o['exception']
        if want != got or (o['ok'] and (m['is_tuple'] != o['is_tuple'] or len(m['items']) != o['n'])):
            text = 'hypotest on %s (calctype %s, flags %s): %s; the prerequisites give %s' % (
                c['name'], c['ct'], list(c['flags']), ('raises ' + got) if got else 'accepted', ('refusal with ' + want) if want else 'acceptance')
            fails.setdefault('prereq:%s' % c['name'], []).append(
                (dict(prereq=c['name'], calctype=c['ct'], flags=list(c['flags']), fixed_params=c['fixed']), o, dict(expected=want or 'accepted'), text))
    ctx.log('prerequisite runs done')

    # ---- (3) counting models ----
    ccases = load_corpus() + gen_counting(rng, ctx.n(3, 5), ctx.n(2, 4))
    couts = run_counting(ccases)
    ctx.log('%d counting-model hypothesis tests run' % len(ccases))
    items = []
    goal_of = {}
    for i, (c, o) in enumerate(zip(ccases, couts)):
        evaluations += 1
        for k, v in (('counting_patterns', c['pattern']), ('counting_kinds', c['kind']), ('counting_shapes', '%dch/%dbins' % (c['nch'], c['nbins']))):
            stats[k][v] = stats[k].get(v, 0) + 1
        sigs.add(('counting', json.dumps(c['channels']), c['r'], c['kind'], tuple(c['n']), c['mu']))
        case = {k: c[k] for k in ('channels', 'r', 'lo', 'hi', 'kind', 'n', 'mu', 'pattern')}
        if 'exception' in o:
            fails.setdefault('counting-raises:%s' % c['kind'], []).append((case, o, 'a result', 'hypotest on a counting model raises %s: %s' % (o['exception'], o['msg'])))
            continue
        amu = 1.0 if c['kind'] == 'q0' else 0.0
        flat = [b for ch in c['channels'] for b in ch]
        # Asimov data = expectation at the conditional fit with the POI at 0 (1 for q0): exact, nothing is fitted here
        want_asimov = [Fraction(amu) * core.frac(c['r']) * core.frac(b) + core.frac(b) for b in flat]
        if len(o['asimov']) != len(want_asimov) or not all(core.close(w, g, 1e-9, 1e-12) for w, g in zip(want_asimov, o['asimov'])):
            fails.setdefault('asimov-data:%s' % c['kind'], []).append(
                (case, o, dict(asimov=[float(x) for x in want_asimov]), 'generate_asimov_data(%g, ...) = %r, the model expectation at mu=%g is %r' % (amu, o['asimov'], amu, [float(x) for x in want_asimov])))
        f = o['fitted']
        mh = clamp_muhat(c, c['N'])
        mhA = clamp_muhat(c, float(sum(want_asimov)))
        mu_fit = 0.0 if c['kind'] == 'q0' else c['mu']
        fp_want = dict(asimov_pars=(amu, 1e-9), fixed_poi_fit_to_data=(mu_fit, 1e-9), fixed_poi_fit_to_asimov=(mu_fit, 1e-9),
                       free_fit_to_data=(mh, 5e-3 * max(1.0, abs(mh))), free_fit_to_asimov=(mhA, 5e-3 * max(1.0, abs(mhA))))
        for name, (w, tol) in fp_want.items():
            if len(f[name]) != 1 or abs(f[name][0] - w) > tol:
                fails.setdefault('fitted-pars:%s:%s' % (name, c['kind']), []).append(
                    (case, o, {name: w}, 'calculator.fitted_pars.%s = %r, analytic %r' % (name, f[name], w)))
        # q and q_A against the closed form at the summed counts
        for which, val, ntot in (('q', o['q'], c['N']), ('qA', o['qA'], float(sum(want_asimov)))):
            ob = one_bin(c, ntot)
            ref = c06.closed_form(ob['stat'], ob['n'], ob['s'], ob['b'], ob['lo'], ob['hi'], ob['mu'])
            if val is None or abs(val - ref) > 5 * TOL_FIT:
                fails.setdefault('counting:%s:%s' % (which, c['kind']), []).append(
                    (case, o, {which: ref}, '%s = %r on the counting model (N=%g, S=%g, B=%g, mu=%g), closed form %r' % (which, val, ntot, c['S'], c['B'], c['mu'], ref)))
            else:
                gid = len(items)
                goal_of[gid] = (i, which, ref)
                items.append((gid, c06.counting_goal(gid, ob, val)))
        # p-values = the formulae at those q, q_A
        if o['q'] is not None and o['qA'] is not None and o['qA'] > 0:
            cc = dict(kind=c['kind'], base='normal', q=o['q'], qA=o['qA'])
            if c07.representable(cc):
                ref = c07.mp_reference(cc)
                want = c07.expected_observables(cc, ref['pvalues'], ref['expected'])
                got = {'hypotest.obs': o['obs']}
                for t, v in enumerate(o['tails']):
                    got['hypotest.tail[%d]' % t] = v
                for t, v in enumerate(o['band']):
                    got['hypotest.band[%d]' % t] = v
                for name in sorted(k for k in want if k.startswith('hypotest.')):
                    g = got.get(name)
                    if g is None or not c07.mp_close(want[name], g, 1e-6):
                        fails.setdefault('counting:pvalue:%s:%s' % (name.split('.')[1].split('[')[0], c['kind']), []).append(
                            (case, o, {name: str(want[name])}, '%s = %r, the asymptotic formulae at q=%r, qA=%r give %s' % (name, g, o['q'], o['qA'], want[name])))
    rejected = set()
    if model_ok:
        try:
            rejected = c06.certify(ctx, 'counting', items)
            stats['counting_goals'] = len(items)
            stats['counting_goals_rejected'] = len(rejected)
        except core.CoqEvalError as e:
            tie = tie or ('certification of the closed-form comparisons failed: %s' % str(e)[-800:])
    for gid in sorted(rejected):
        i, which, ref = goal_of[gid]
        c, o = ccases[i], couts[i]
        case = {k: c[k] for k in ('channels', 'r', 'lo', 'hi', 'kind', 'n', 'mu', 'pattern')}
        fails.setdefault('counting:%s:%s' % (which, c['kind']), []).append(
            (case, o, {which: ref}, '%s = %r on the counting model, closed form %r (difference beyond 1e-5, certified)' % (which, o[which], ref)))
    ctx.log('%d closed-form comparisons certified by interval, %d rejected' % (len(items), len(rejected)))

    # ---- (4) nuisance models, one model object reused over a history of calls ----
    hists = gen_history(rng, ctx.n(2, 3), ctx.n(4, 8))
    stats['history_calls'] = 0
    for h in hists:
        houts = run_history(h)
        for step, (c, o) in enumerate(zip(h['calls'], houts)):
            evaluations += 1
            stats['history_calls'] += 1
            sigs.add(('history', h['model'], json.dumps(h['kwargs'], sort_keys=True), step, tuple(c['n']), c['mu'], c['kind']))
            case = dict(model=h['model'], kwargs=h['kwargs'], history=h['calls'][:step + 1], step=step)
            a, b = o.get('reused', {}), o.get('fresh', {})
            if 'exception' in b:
                continue                      # the call itself is refused/fails on a fresh model: not a history effect
            if 'exception' in a:
                fails.setdefault('history:raises:%s' % c['kind'], []).append(
                    (case, o, 'the result of a freshly built model', 'hypotest on a reused model object raises %s (%s); on a freshly built model the same call succeeds' % (a['exception'], a['msg'])))
                continue
            fa, fb = flat_result(a), flat_result(b)
            bad = [i for i, (x, y) in enumerate(zip(fa, fb)) if (x is None) != (y is None) or (x is not None and abs(x - y) > 1e-6 * max(1.0, abs(y)))]
            if bad:
                fails.setdefault('history:differs-from-fresh:%s' % c['kind'], []).append(
                    (case, o, dict(fresh=b), 'call %d of a history on ONE model object (data %r, mu %g, %s): CLs %r, Asimov parameters %r; a freshly built model gives CLs %r, Asimov parameters %r'
                     % (step, c['n'], c['mu'], c['kind'], a['obs'], a['asimov_pars'], b['obs'], b['asimov_pars'])))
            cf = o.get('conditional_fit')
            if cf is not None and any(abs(x - y) > 2e-3 * max(1.0, abs(y)) for x, y in zip(a['asimov_pars'], cf)):
                fails.setdefault('history:asimov-not-conditional-fit:%s' % c['kind'], []).append(
                    (case, o, dict(conditional_fit=cf), 'Asimov parameters %r are not the conditional fit %r to the data of this call' % (a['asimov_pars'], cf)))
    ctx.log('%d calls in %d reuse histories' % (stats['history_calls'], len(hists)))

    # ---- (5) one-nuisance on/off models against the closed form of coq/HypotestNuis.v ----
    rc5, mout5, _ = core.coq_make(['HypotestNuis.vo'])
    if rc5 != 0:
        tie = tie or ('coq/HypotestNuis.v does not build: ' + mout5[-800:])
    ocases = load_corpus('onoff') + gen_onoff(rng, ctx.n(3, 6), ctx.n(2, 4), ctx.n(2, 3))
    oouts = run_onoff(ocases)
    ctx.log('%d on/off (one-nuisance) hypothesis tests run' % len(ocases))
    stats.update(onoff_patterns={}, onoff_kinds={}, onoff_aux={}, onoff_regimes={}, onoff_models={}, onoff_goals=0, onoff_goals_rejected=0,
                 onoff_optimiser_short_of_minimum=0)
    oitems, ogoal_of = [], {}

    def ocase(c):
        return {k: c[k] for k in ('s', 'b', 'db', 'lo', 'hi', 'kind', 'n', 'm', 'mu', 'pattern', 'aux')}

    def ofail(sig, c, o, exp, text):
        fails.setdefault(sig, []).append((ocase(c), o, exp, text))

    for i, (c, o) in enumerate(zip(ocases, oouts)):
        evaluations += 1
        tau = onoff_tau(c['b'], c['db'])
        fn, fm, fs, fb, ft = float(c['n']), float(c['m']), float(c['s']), float(c['b']), tau
        lo, hi, kind = c['lo'], c['hi'], c['kind']
        mh = oo_muhat(fn, fm, fs, fb, ft, lo, hi)
        u = (fn - fm / ft * fb) / fs
        regime = 'at-lo' if u <= lo else ('at-hi' if u >= hi else 'interior')
        for k, v in (('onoff_patterns', c['pattern']), ('onoff_kinds', kind), ('onoff_aux', c['aux']), ('onoff_regimes', regime),
                     ('onoff_models', 's=%g b=%g db=%g' % (c['s'], c['b'], c['db']))):
            stats[k][v] = stats[k].get(v, 0) + 1
        sigs.add(('onoff', c['s'], c['b'], c['db'], kind, c['n'], c['m'], c['mu']))
        if 'exception' in o:
            ofail('onoff-raises:%s' % kind, c, o, 'a result', 'hypotest on the on/off model raises %s: %s' % (o['exception'], o['msg']))
            continue
        if o['auxdata'] != [tau] or o['par_order'] != ['mu', 'uncorr_bkguncrt'] or o['poi_index'] != 0:
            # the closed form is for this layout: anything else is a harness assumption that no longer holds, not a finding about hypotest
            tie = tie or ('on/off part: uncorrelated_background([%g],[%g],[%g]) has auxdata %r / parameters %r, the closed form assumes [%r] / [mu, gamma]'
                          % (c['s'], c['b'], c['db'], o['auxdata'], o['par_order'], tau))
            continue
        G = OnOff(c, tau)
        amu = float(G.amu)
        mu_fit = float(G.mu_fit)
        g_amu = oo_gcond(fn, fm, fs, fb, ft, amu)
        ref_asimov = [amu * fs + g_amu * fb, g_amu * ft]

        def propose(label, sig, val, ref, tol, goal, what):
            """pre-screen with the float closed form (5 x tol), else queue the certified comparison"""
            if val is None or abs(val - ref) > 5 * tol:
                ofail(sig, c, o, {label: ref}, '%s = %r on the on/off model (n=%g, m=%g, s=%g, b=%g, tau=%g, mu=%g, POI range [%g, %g]), closed form %r'
                      % (what, val, fn, fm, fs, fb, ft, c['mu'], lo, hi, ref))
                return
            gid = len(oitems)
            ogoal_of[gid] = (i, sig, label, what, ref, val)
            oitems.append((gid, goal(gid, val, tol)))

        # Asimov data = expectation at the conditional fit with the POI at amu
        if len(o['asimov']) != 2:
            ofail('onoff:asimov-data:%s' % kind, c, o, dict(asimov=ref_asimov), 'generate_asimov_data returns %r, expected two entries' % (o['asimov'],))
            continue
        for j, w in enumerate(('n', 'm')):
            tol = TOL_PAR * max(1.0, abs(ref_asimov[j]))
            propose('asimov[%d]' % j, 'onoff:asimov-data:%s' % kind, o['asimov'][j], ref_asimov[j], tol,
                    (lambda gid, val, tol, w=w: G.goal_asimov(gid, w, core.frac(val), core.frac(tol))),
                    'generate_asimov_data(%g, ...)[%d]' % (amu, j))
        # fitted parameters
        f = o['fitted']
        g_fit, g_hat = oo_gcond(fn, fm, fs, fb, ft, mu_fit), oo_gcond(fn, fm, fs, fb, ft, mh)
        an, am = ref_asimov
        gA_fit = oo_gcond(an, am, fs, fb, ft, mu_fit)
        mhA = max(lo, min(hi, amu))
        poi_want = dict(asimov_pars=(amu, 1e-9), fixed_poi_fit_to_data=(mu_fit, 1e-9), fixed_poi_fit_to_asimov=(mu_fit, 1e-9),
                        free_fit_to_data=(mh, 5e-3 * max(1.0, abs(mh))), free_fit_to_asimov=(mhA, 5e-3 * max(1.0, abs(mhA))))
        for name, (w, tol) in poi_want.items():
            if len(f[name]) != 2 or abs(f[name][0] - w) > tol:
                ofail('onoff:fitted-pars:%s:%s' % (name, kind), c, o, {name: w}, 'calculator.fitted_pars.%s = %r, analytic POI value %r' % (name, f[name], w))
        fn_, fm_ = core.frac(c['n']), core.frac(c['m'])
        for name, gref, at in (('asimov_pars', g_amu, G.amu), ('fixed_poi_fit_to_data', g_fit, G.mu_fit), ('free_fit_to_data', g_hat, None),
                               ('free_fit_to_asimov', g_amu, G.amu)):
            if len(f[name]) != 2:
                continue
            at_mu = G.clamp(fn_, fm_)[0] if at is None else at
            propose(name, 'onoff:fitted-pars:%s:%s' % (name, kind), f[name][1], gref, TOL_PAR * max(1.0, abs(gref)),
                    (lambda gid, val, tol, at_mu=at_mu: G.goal_gamma(gid, fn_, fm_, at_mu, core.frac(val), core.frac(tol))),
                    'calculator.fitted_pars.%s[1] (the nuisance parameter)' % name)
        if len(f['fixed_poi_fit_to_asimov']) == 2 and abs(f['fixed_poi_fit_to_asimov'][1] - gA_fit) > 5 * TOL_PAR * max(1.0, abs(gA_fit)):
            ofail('onoff:fitted-pars:fixed_poi_fit_to_asimov:%s' % kind, c, o, dict(fixed_poi_fit_to_asimov=[mu_fit, gA_fit]),
                  'calculator.fitted_pars.fixed_poi_fit_to_asimov = %r, conditional optimum on the Asimov data %r' % (f['fixed_poi_fit_to_asimov'], [mu_fit, gA_fit]))
        # q on the data; q_A on pyhf's own Asimov data (tight) and on the exact Asimov data of the closed form (the chain; looser:
        # the Asimov data are fitted parameters)
        short = False
        for tag, d in (('data', [fn, fm]), ('asimov', o['asimov'])):
            mhd = oo_muhat(d[0], d[1], fs, fb, ft, lo, hi)
            best = [oo_twice_nll_full(d[0], d[1], fs, fb, ft, mu_fit, oo_gcond(d[0], d[1], fs, fb, ft, mu_fit)),
                    oo_twice_nll_full(d[0], d[1], fs, fb, ft, mhd, oo_gcond(d[0], d[1], fs, fb, ft, mhd))]
            if any(got - want > 2e-6 for got, want in zip(o['objective_' + tag], best)):
                short = True       # the optimiser stopped above the minimum of the objective it was given (property C05), not a hypotest matter
        if short:
            stats['onoff_optimiser_short_of_minimum'] += 1
        qref = oo_stat(kind, fn, fm, fs, fb, ft, lo, hi, c['mu'])
        qAref_own = oo_stat(kind, o['asimov'][0], o['asimov'][1], fs, fb, ft, lo, hi, c['mu'])
        qAref = oo_stat(kind, an, am, fs, fb, ft, lo, hi, c['mu'])
        if not short:
            propose('q', 'onoff:q:%s' % kind, o['q'], qref, TOL_FIT, (lambda gid, val, tol: G.goal_stat(gid, fn_, fm_, core.frac(val), core.frac(tol))), 'q')
            a0, a1 = core.frac(o['asimov'][0]), core.frac(o['asimov'][1])
            if a0 >= 0 and a1 > 0:
                propose('qA', 'onoff:qA:%s' % kind, o['qA'], qAref_own, TOL_FIT,
                        (lambda gid, val, tol: G.goal_stat(gid, a0, a1, core.frac(val), core.frac(tol))), 'q_A (on the Asimov data pyhf generated)')
            propose('qA_chain', 'onoff:qA-chain:%s' % kind, o['qA'], qAref, TOL_CHAIN * max(1.0, abs(qAref)),
                    (lambda gid, val, tol: G.goal_chain(gid, core.frac(val), core.frac(tol))), 'q_A')
        # the calculator's own Asimov statistic is the one recomputed above through the public functions
        if o['sqrtqmuA'] is None or o['qA'] is None or abs(o['sqrtqmuA'] ** 2 - o['qA']) > 1e-9 * max(1.0, abs(o['qA'])):
            ofail('onoff:sqrtqmuA:%s' % kind, c, o, dict(sqrtqmuA_squared=o['qA']),
                  'calculator.sqrtqmuA_v^2 = %r, the statistic on generate_asimov_data(%g, ...) is %r' % (None if o['sqrtqmuA'] is None else o['sqrtqmuA'] ** 2, amu, o['qA']))
        # p-values = the formulae at those q, q_A
        if o['q'] is not None and o['qA'] is not None and o['qA'] > 0:
            cc = dict(kind=kind, base='normal', q=o['q'], qA=o['qA'])
            if c07.representable(cc):
                ref = c07.mp_reference(cc)
                want = c07.expected_observables(cc, ref['pvalues'], ref['expected'])
                got = {'hypotest.obs': o['obs']}
                for t, v in enumerate(o['tails']):
                    got['hypotest.tail[%d]' % t] = v
                for t, v in enumerate(o['band']):
                    got['hypotest.band[%d]' % t] = v
                for name in sorted(k for k in want if k.startswith('hypotest.')):
                    g = got.get(name)
                    if g is None or not c07.mp_close(want[name], g, 1e-6):
                        ofail('onoff:pvalue:%s:%s' % (name.split('.')[1].split('[')[0], kind), c, o, {name: str(want[name])},
                              '%s = %r, the asymptotic formulae at q=%r, qA=%r give %s' % (name, g, o['q'], o['qA'], want[name]))
    orejected = set()
    if rc5 == 0:
        try:
            orejected = certify_onoff(ctx, 'onoff', oitems)
            stats['onoff_goals'] = len(oitems)
            stats['onoff_goals_rejected'] = len(orejected)
        except core.CoqEvalError as e:
            tie = tie or ('certification of the on/off closed-form comparisons failed: %s' % str(e)[-800:])
    for gid in sorted(orejected):
        i, sig, label, what, ref, val = ogoal_of[gid]
        c, o = ocases[i], oouts[i]
        ofail(sig, c, o, {label: ref}, '%s = %r on the on/off model (n=%g, m=%g, s=%g, b=%g, db=%g, mu=%g), closed form %r: difference beyond the tolerance (certified by interval; coq/HypotestNuis.v)'
              % (what, val, c['n'], c['m'], c['s'], c['b'], c['db'], c['mu'], ref))
    ctx.log('%d on/off closed-form comparisons certified by interval, %d rejected' % (len(oitems), len(orejected)))

    # ---- decide ----
    found = False
    for sig in sorted(fails)[:8]:
        lst = fails[sig]
        def weight(f):
            fl_ = f[0].get('flags')
            nset = sum(bool(x) for x in (fl_.values() if isinstance(fl_, dict) else fl_)) if fl_ is not None else 0
            return (nset, len(json.dumps(f[0], default=str)))
        case, impl, exp, text = min(lst, key=weight)
        found = True
        ctx.violation(sig, text, dict(kind=sig.split(':')[0], case=case, impl=impl, expected=exp, n_failing_cases=len(lst),
                                      theorem='C08_layout_documented_order / C08_singleton_unwrapped' if sig.startswith('layout') else
                                      'C08_refused_without_poi / C08_refused_fixed_poi / C08_accepted_layout' if sig.startswith('prereq') else
                                      'C08_asimov_is_expectation (the Asimov data set is a function of the data of the call)' if sig.startswith('history') else
                                      'C08_asimov_is_expectation / C08_onoff_* (coq/HypotestNuis.v: closed form of the one-nuisance counting model)' if sig.startswith('onoff') else
                                      'C08_asimov_is_expectation / C08_hypotest_counting_analytic'))
    if tie and not found:
        ctx.violation('tie-broken', tie[:300], dict(kind='tie', detail=tie, theorem='props/C08.v'), nofail=True)
    ctx.coverage.update(
        evaluations=evaluations, distinct_nontrivial=len(sigs), exhaustive=True,
        rule='layout: all 16 flag combinations x {default qtilde, q, q0} x {asymptotics, toybased (3 toys, fixed seed)} - the finite space is '
             'enumerated completely (exhaustive refers to this part); non-trivial = at least one flag set. prerequisites: no POI / POI fixed by '
             'argument / by the model / both / nuisance fixed / empty list / override, x calctype x flag subsets. counting: shapes 1 bin .. 3 '
             'channels x 6 bins with signal = r x background, statistics q (lower bound -0.125), qtilde, q0, observed counts zero / below / at '
             'background / signal-like / far above, tested mu from {0.5, 1, 2, 3.5} (0 for q0); distinct by the full tuple. histories: simplemodels with nuisance parameters, ONE model object over a sequence of (data, mu, statistic) calls, every call compared with a freshly built model and the Asimov parameters with the conditional fit to the data of that call. on/off: '
             'uncorrelated_background one-bin models (s, b, db) with tau = (b/db)^2 in {9, 16, 25, 100, (50/7)^2}, observed count 0 / 0.6 b / b / b+s / 1.6 b+3 / '
             'b+12 s (best fit clamped at the upper POI bound), auxiliary datum tau x {1, 0.8, 1.25}, statistics q (POI lower bound -0.125 passed as '
             'par_bounds), qtilde, q0, tested mu from {0.5, 1, 2, 3.5}; distinct by the full tuple',
        backends=backends, stats=stats,
        samples=[dict(layout=dict(calctype=lkeys[5][0], kwargs=KW[lkeys[5][1]], flags=dict(zip(FLAGS, lkeys[5][2]))),
                      model_layout=(lmodels[5] if lmodels else None)),
                 dict(counting={k: ccases[0][k] for k in ('channels', 'r', 'kind', 'n', 'mu')}, impl=couts[0]),
                 dict(onoff=ocase(ocases[len(ocases) // 2]), impl=oouts[len(ocases) // 2])])


def replay(body):
    kind = body.get('kind')
    if kind == 'tie':
        print(body.get('detail'))
        return 0
    c = body['case']
    if kind in ('layout', 'calculator-raises'):
        L = Layout(c.get('backend', 'numpy'))
        flags = c['flags'] if isinstance(c['flags'], list) else [c['flags'][f] for f in FLAGS]
        print('pyhf returns:', json.dumps(L.run(c['calctype'], c['kwargs'], flags), default=str))
        print('documented:', json.dumps(body.get('expected'), default=str))
    elif kind == 'prereq':
        pc = [p for p in prereq_cases() if p['name'] == c['prereq'] and p['ct'] == c['calctype'] and list(p['flags']) == list(c['flags'])]
        print('pyhf:', run_prereq(pc[0]) if pc else 'case not found', ' expected:', body.get('expected'))
    elif kind in ('onoff', 'onoff-raises'):
        o = run_onoff([c])[0]
        print('pyhf returns:', json.dumps(o, default=str))
        tau = onoff_tau(c['b'], c['db'])
        amu = 1.0 if c['kind'] == 'q0' else 0.0
        g = oo_gcond(c['n'], c['m'], c['s'], c['b'], tau, amu)
        an, am = amu * c['s'] + g * c['b'], g * tau
        mh = oo_muhat(c['n'], c['m'], c['s'], c['b'], tau, c['lo'], c['hi'])
        print('closed form (float evaluation of coq/HypotestNuis.v):', json.dumps(dict(
            asimov=[an, am], asimov_pars=[amu, g], free_fit_to_data=[mh, oo_gcond(c['n'], c['m'], c['s'], c['b'], tau, mh)],
            q=oo_stat(c['kind'], c['n'], c['m'], c['s'], c['b'], tau, c['lo'], c['hi'], c['mu']),
            qA=oo_stat(c['kind'], an, am, c['s'], c['b'], tau, c['lo'], c['hi'], c['mu']))))
        print('expected:', json.dumps(body.get('expected'), default=str))
    elif kind == 'history':
        outs = run_history(dict(model=c['model'], kwargs=c['kwargs'], calls=c['history']))
        print('last call of the history, reused vs fresh model object:', json.dumps(outs[-1], default=str))
        print('expected:', json.dumps(body.get('expected'), default=str))
    else:
        flat = [b for ch in c['channels'] for b in ch]
        c = dict(c, N=sum(c['n']), S=c['r'] * sum(flat), B=sum(flat), nbins=len(flat), nch=len(c['channels']))
        print('pyhf returns:', json.dumps(run_counting([c])[0], default=str))
        print('expected:', json.dumps(body.get('expected'), default=str))
    return 0
