"""C16 - workspace combine / prune / rename / sorted act on the likelihood as advertised.

Correspondence: random workspace pairs x 4 join modes x merge flag (+ bad join strings, validate=False),
prune / rename selections, permuted lists -> pyhf's result (JSON tree or exception class) against the
Gallina transcription `PV.Workspace` evaluated inside Coq (documents compared there with `jsame`).
Property level (decides VIOLATION): refusal rules, containment, exact pruning, inverse renaming, idempotent /
canonical sorting, likelihood identities with `model.logpdf`, inputs never mutated, outputs schema-valid."""
import ast
import copy
import json
import math
import os

from harness import core, facts

JOINS = ['none', 'outer', 'left outer', 'right outer']
ERR = {0: 'ok', 1: 'InvalidWorkspaceOperation', 2: 'InvalidSpecification', 3: 'SchemaNotFound',
       4: 'PyValueError', 5: 'PyTypeError', 6: 'PyIndexError'}
CONSTRAINED = ('normsys', 'histosys', 'lumi', 'staterror', 'shapesys')

def extract(ctx):
    """facts read from workspace.py on every run (fail closed):
    * Workspace.valid_joins (literal list of strings);
    * the collection `prune_modifier_types` is checked against in _prune_and_rename:
      `dict(self.modifiers).values()` (one type per modifier name) or the types of all (name, type) pairs."""
    tree, _ = facts.parse('workspace.py')
    cls = facts.find_class(tree, 'Workspace')
    joins = None
    for n in cls.body:
        tgt = n.target if isinstance(n, ast.AnnAssign) else (n.targets[0] if isinstance(n, ast.Assign) and len(n.targets) == 1 else None)
        if isinstance(tgt, ast.Name) and tgt.id == 'valid_joins':
            v = n.value
            if not (isinstance(v, ast.List) and all(isinstance(e, ast.Constant) and isinstance(e.value, str) for e in v.elts)):
                raise facts.TieBroken('valid_joins is not a literal list of strings')
            joins = [e.value for e in v.elts]
    if joins is None:
        raise facts.TieBroken('Workspace.valid_joins not found')
    fn = facts.find_func(cls, '_prune_and_rename')
    via_dict = None
    for n in ast.walk(fn):
        if isinstance(n, ast.For) and isinstance(n.target, ast.Name) and isinstance(n.iter, ast.Name) and n.iter.id == 'prune_modifier_types':
            if via_dict is not None or len(n.body) != 1 or not isinstance(n.body[0], ast.If) or n.body[0].orelse:
                raise facts.TieBroken('unexpected shape of the prune_modifier_types loop')
            t = n.body[0].test
            if not (isinstance(t, ast.Compare) and len(t.ops) == 1 and isinstance(t.ops[0], ast.NotIn) and isinstance(t.left, ast.Name)
                    and t.left.id == n.target.id and len(n.body[0].body) == 1 and isinstance(n.body[0].body[0], ast.Raise)):
                raise facts.TieBroken('unexpected test in the prune_modifier_types loop')
            c = t.comparators[0]
            src = ast.unparse(c)
            if src == 'dict(self.modifiers).values()':
                via_dict = True
            elif isinstance(c, (ast.SetComp, ast.ListComp, ast.GeneratorExp)) and len(c.generators) == 1 and not c.generators[0].ifs \
                    and ast.unparse(c.generators[0].iter) == 'self.modifiers' and isinstance(c.generators[0].target, ast.Tuple) \
                    and len(c.generators[0].target.elts) == 2 and isinstance(c.elt, ast.Name) \
                    and isinstance(c.generators[0].target.elts[1], ast.Name) and c.generators[0].target.elts[1].id == c.elt.id \
                    and ast.unparse(c.generators[0].target.elts[0]) != c.elt.id:
                via_dict = False
            else:
                raise facts.TieBroken('modifier types are checked against an unrecognised collection: ' + src)
    if via_dict is None:
        raise facts.TieBroken('prune_modifier_types loop not found')
    facts.write_gen('FactsC16', 'Definition ws_valid_joins : list string := %s.\nDefinition prune_types_via_dict : bool := %s.\n'
                    % (facts.coq_strlist(joins), core.cbool(via_dict)))
    # tie to the source: coq/gen/WorkspaceGen.v is written from $VERIF_REPO/src on every run (harness/props/c16_tie.py)
    from harness.props import c16_tie
    return dict(valid_joins=joins, prune_types_via_dict=via_dict, translated_from_source=c16_tie.extract(ctx))


def generate():
    from harness.props import c16_tie
    return c16_tie.generate()


HEADER = '''From Coq Require Import ZArith QArith Qcanon String List.
Require Import PV.Num PV.Run PV.Json PV.Workspace PV.WorkspaceRun PV.gen.FactsC16.
Import ListNotations. Open Scope string_scope.
Notation W := Build_workspace. Notation C := Build_channel. Notation S := Build_sample. Notation M := Build_modifier.
Notation O := Build_observation. Notation P := Build_pconfig. Notation E := Build_measurement.
Notation q := mkq.
'''


# =========================================================================================
# python dict -> Coq terms (fail closed)
class NotRepresentable(Exception):
    pass


def qq(x):
    f = core.frac(x)
    return '(q (%d) %d)' % (f.numerator, f.denominator)


def qs(l):
    if not isinstance(l, list):
        raise NotRepresentable('number list expected: %r' % (l,))
    return '[' + ';'.join(qq(x) for x in l) + ']'


def only_keys(d, req, opt=()):
    if not isinstance(d, dict) or not set(req) <= set(d) or not set(d) <= set(req) | set(opt):
        raise NotRepresentable('unexpected keys %r' % (sorted(d) if isinstance(d, dict) else d,))


def c_mdata(d):
    if d is None:
        return 'MNull'
    if isinstance(d, list):
        return '(MList %s)' % qs(d)
    if isinstance(d, dict) and set(d) == {'lo', 'hi'}:
        return '(MNormsys %s %s)' % (qq(d['lo']), qq(d['hi']))
    if isinstance(d, dict) and set(d) == {'lo_data', 'hi_data'}:
        return '(MHistosys %s %s)' % (qs(d['lo_data']), qs(d['hi_data']))
    raise NotRepresentable('modifier data %r' % (d,))


def c_mod(m):
    only_keys(m, ['name', 'type', 'data'])
    return '(M %s %s %s)' % (core.cstr(m['name']), core.cstr(m['type']), c_mdata(m['data']))


def c_sample(s):
    only_keys(s, ['name', 'data', 'modifiers'])
    return '(S %s %s %s)' % (core.cstr(s['name']), qs(s['data']), core.clist(s['modifiers'], c_mod))


def c_channel(c):
    only_keys(c, ['name', 'samples'])
    return '(C %s %s)' % (core.cstr(c['name']), core.clist(c['samples'], c_sample))


def c_obs(o):
    only_keys(o, ['name', 'data'])
    return '(O %s %s)' % (core.cstr(o['name']), qs(o['data']))


def c_opt(p, k, f):
    return '(Some %s)' % f(p[k]) if k in p else 'None'


def c_pconfig(p):
    only_keys(p, ['name'], ['inits', 'bounds', 'auxdata', 'factors', 'sigmas', 'fixed'])
    return '(P %s %s %s %s %s %s %s)' % (
        core.cstr(p['name']), c_opt(p, 'inits', qs), c_opt(p, 'bounds', lambda b: core.clist(b, qs)),
        c_opt(p, 'auxdata', qs), c_opt(p, 'factors', qs), c_opt(p, 'sigmas', qs), c_opt(p, 'fixed', core.cbool))


def c_meas(m):
    only_keys(m, ['name', 'config'])
    only_keys(m['config'], ['poi', 'parameters'])
    return '(E %s %s %s)' % (core.cstr(m['name']), core.cstr(m['config']['poi']), core.clist(m['config']['parameters'], c_pconfig))


def c_ws(w):
    only_keys(w, ['channels', 'observations', 'measurements', 'version'])
    return '(W %s %s %s %s)' % (core.clist(w['channels'], c_channel), core.clist(w['observations'], c_obs),
                                core.clist(w['measurements'], c_meas), core.cstr(w['version']))


def c_json(j):
    """generic JSON -> PV.Json.json, every number as a float (numbers are compared by exact value)"""
    if j is None:
        return 'JNull'
    if isinstance(j, bool):
        return '(JBool %s)' % core.cbool(j)
    if isinstance(j, (int, float)):
        return '(F %s)' % qq(j)
    if isinstance(j, str):
        return '(JStr %s)' % core.cstr(j)
    if isinstance(j, list):
        return '(JArr %s)' % core.clist(j, c_json)
    if isinstance(j, dict):
        return '(JObj %s)' % core.clist(j.items(), lambda kv: '(%s,%s)' % (core.cstr(kv[0]), c_json(kv[1])))
    raise NotRepresentable(type(j).__name__)


def c_strs(l):
    return core.clist(l, core.cstr)


def c_map(d):
    return core.clist(d.items(), lambda kv: '(%s,%s)' % (core.cstr(kv[0]), core.cstr(kv[1])))


def op_expr(op, names):
    """Coq expression of the model call for one operation; names: python workspace id -> Coq variable"""
    k = op['op']
    if k == 'combine':
        return 'combine %s %s %s %s %s' % (names[op['l']], names[op['r']], core.cstr(op['join']), core.cbool(op['merge']), core.cbool(op['validate']))
    if k == 'prune':
        a = op['args']
        return 'prune prune_types_via_dict %s %s %s %s %s %s' % (names[op['w']], c_strs(a.get('modifiers', [])), c_strs(a.get('modifier_types', [])),
                                            c_strs(a.get('samples', [])), c_strs(a.get('channels', [])), c_strs(a.get('measurements', [])))
    if k == 'rename':
        a = op['args']
        return 'rename %s %s %s %s %s' % (names[op['w']], c_map(a.get('modifiers', {})), c_map(a.get('samples', {})),
                                          c_map(a.get('channels', {})), c_map(a.get('measurements', {})))
    if k == 'sorted':
        return 'sorted %s' % names[op['w']]
    raise ValueError(k)


# =========================================================================================
# generators
CH_POOL = ['SR', 'CR', 'VR', 'A', 'ch_b', 'Zee']
NBINS = {'SR': 2, 'CR': 1, 'VR': 3, 'A': 2, 'ch_b': 1, 'Zee': 2}
S_POOL = ['sig', 'bkg', 'ttbar', 'Wjets', 'fake']
NORMSYS = ['JES', 'JER', 'xsec']
HISTOSYS = ['JES', 'shape1', 'pdf']          # JES: normsys and histosys share one parameter
NORMFACTOR = ['mu', 'mu_bkg', 'k']
M_POOL = ['meas', 'fit2', 'alt']
LUMI_CFG = {'name': 'lumi', 'auxdata': [1.0], 'sigmas': [0.02], 'bounds': [[0.5, 1.5]], 'inits': [1.0]}


def qz(x, den=64):
    """quantise to a multiple of 1/den: an exact small rational for the model, the same float for pyhf"""
    return round(x * den) / den


def num(rng, lo, hi, ints=0.15):
    if rng.random() < ints:
        return rng.randrange(int(lo) + 1, int(hi) + 1)      # python int: 5 == 5.0 for the joins
    return qz(rng.uniform(lo, hi), 8)


def gen_modifier(rng, kind, ch, sname, nb, nom, tag):
    if kind == 'normsys':
        return {'name': rng.choice(NORMSYS), 'type': 'normsys', 'data': {'lo': qz(rng.uniform(0.8, 0.97)), 'hi': qz(rng.uniform(1.03, 1.2))}}
    if kind == 'histosys':
        return {'name': rng.choice(HISTOSYS), 'type': 'histosys',
                'data': {'lo_data': [qz(x * rng.uniform(0.85, 0.98)) for x in nom], 'hi_data': [qz(x * rng.uniform(1.02, 1.15)) for x in nom]}}
    if kind == 'normfactor':
        return {'name': rng.choice(NORMFACTOR), 'type': 'normfactor', 'data': None}
    if kind == 'lumi':
        return {'name': 'lumi', 'type': 'lumi', 'data': None}
    if kind == 'staterror':
        return {'name': 'staterror_%s%s' % (ch, tag), 'type': 'staterror', 'data': [qz(max(0.1, x * rng.uniform(0.03, 0.2))) for x in nom]}
    if kind == 'shapesys':
        return {'name': 'shp_%s_%s%s' % (ch, sname, tag), 'type': 'shapesys', 'data': [qz(max(0.1, x * rng.uniform(0.05, 0.3))) for x in nom]}
    if kind == 'shapefactor':
        return {'name': 'sf_%s%s' % (ch, tag), 'type': 'shapefactor', 'data': None}
    raise ValueError(kind)


def gen_channel(rng, name, tag='', rich=1.0):
    nb = NBINS[name]
    snames = rng.sample(S_POOL, rng.choice([1, 2, 2, 3]))
    samples = []
    for i, sn in enumerate(snames):
        nom = [float(num(rng, 5, 60, 0)) if rng.random() > 0.2 else num(rng, 5, 60, 1.0) for _ in range(nb)]
        kinds = []
        if i == 0:
            kinds.append('mu')
        for kind in ['normsys', 'histosys', 'normfactor', 'lumi', 'staterror', 'shapesys', 'shapefactor']:
            if rng.random() < 0.3 * rich:
                kinds.append(kind)
        if rng.random() < 0.15:
            kinds.append('normsys')
        mods, seen = [], set()
        for kind in kinds:
            m = {'name': 'mu', 'type': 'normfactor', 'data': None} if kind == 'mu' else gen_modifier(rng, kind, name, sn, nb, nom, tag)
            if (m['name'], m['type']) in seen:
                continue
            seen.add((m['name'], m['type']))
            mods.append(m)
        rng.shuffle(mods)
        samples.append({'name': sn, 'data': nom, 'modifiers': mods})
    return {'name': name, 'samples': samples}


def has_lumi(chs):
    return any(m['type'] == 'lumi' for c in chs for s in c['samples'] for m in s['modifiers'])


def binwise_modifiers(chs):
    """(name, type) -> number of bins, for the modifiers that own one parameter per bin"""
    out = {}
    for c in chs:
        for s in c['samples']:
            for m in s['modifiers']:
                if m['type'] in ('staterror', 'shapesys', 'shapefactor'):
                    out.setdefault((m['name'], m['type']), len(s['data']))
    return out


POILESS = ''          # workspace.json: "poi" is any string; the empty string declares a measurement without a parameter of interest


def gen_measurement(rng, name, chs, poi=None, binwise=0.0):
    """poi=None: drawn here (a normfactor of the channels, 'mu', or with probability 0.12 POI-less)"""
    nfs = sorted({m['name'] for c in chs for s in c['samples'] for m in s['modifiers'] if m['type'] == 'normfactor'})
    if poi is None:
        r = rng.random()
        poi = POILESS if r < 0.12 else (rng.choice(nfs) if nfs and r < 0.40 else 'mu')
    params = []
    for nf in nfs:
        if rng.random() < 0.35:
            p = {'name': nf}
            if rng.random() < 0.7:
                p['inits'] = [rng.choice([1.0, 1, 0.5, 2.0])]
            if rng.random() < 0.6:
                p['bounds'] = [[0, rng.choice([5.0, 10, 8.0])]]
            if rng.random() < 0.2:
                p['fixed'] = rng.random() < 0.5
            params.append(p)
    if rng.random() < 0.15:
        params.append({'name': 'unused_%d' % rng.randrange(3), 'inits': [1.0]})
    # bin-wise modifiers (staterror / shapesys / shapefactor) configured away from the defaults: one entry per bin
    for (mn, mt), nb in sorted(binwise_modifiers(chs).items()):
        if rng.random() < binwise and not any(p['name'] == mn for p in params):
            p = {'name': mn}
            if rng.random() < 0.7:
                p['inits'] = [qz(rng.uniform(0.9, 1.1)) for _ in range(nb)]
            if rng.random() < 0.7:
                p['bounds'] = [[qz(rng.uniform(0.25, 0.6)), qz(rng.uniform(1.5, 3.0))] for _ in range(nb)]
            if mt == 'staterror' and rng.random() < 0.6:
                p['auxdata'] = [qz(rng.uniform(0.95, 1.05)) for _ in range(nb)]
            if rng.random() < 0.2 or len(p) == 1:
                p['fixed'] = rng.random() < 0.5
            params.append(p)
    params.append(copy.deepcopy(LUMI_CFG))        # always present and identical, so that any measurement configures lumi
    rng.shuffle(params)
    return {'name': name, 'config': {'poi': poi, 'parameters': params}}


def gen_ws(rng, chnames, mnames, tag='', version='1.0.0', rich=1.0, binwise=0.0):
    chs = [gen_channel(rng, n, tag, rich) for n in chnames]
    obs = [{'name': c['name'], 'data': [float(rng.randrange(3, 90)) for _ in range(NBINS[c['name']])]} for c in chs]
    rng.shuffle(obs)
    return {'channels': chs, 'observations': obs, 'measurements': [gen_measurement(rng, m, chs, binwise=binwise) for m in mnames], 'version': version}


def perturb_channel(rng, c):
    c = copy.deepcopy(c)
    r = rng.random()
    if r < 0.35:
        s = rng.choice(c['samples'])
        s['data'] = [x + 1 for x in s['data']]
    elif r < 0.6:
        free = [n for n in S_POOL if n not in [s['name'] for s in c['samples']]]
        nb = NBINS[c['name']]
        c['samples'].append({'name': rng.choice(free), 'data': [float(rng.randrange(1, 9)) for _ in range(nb)], 'modifiers': []})
    elif r < 0.8:
        s = rng.choice(c['samples'])
        s['modifiers'] = s['modifiers'] + [{'name': 'extra_nf', 'type': 'normfactor', 'data': None}]
    else:
        c['samples'] = list(reversed(c['samples'])) if len(c['samples']) > 1 else c['samples'] + [
            {'name': 'zz', 'data': [1.0] * NBINS[c['name']], 'modifiers': []}]
    return c


def gen_pair(rng):
    """returns (left, right, kind tags)"""
    tags = {}
    nl, nr = rng.choice([1, 1, 2, 2, 3]), rng.choice([1, 1, 2])
    names = rng.sample(CH_POOL, nl + nr)
    chan_mode = rng.choice(['disjoint', 'disjoint', 'identical', 'conflict', 'mixed'])
    # same-name measurements: identical / same POI / different POI / POI against POI-less / both POI-less (each x all four joins)
    meas_mode = rng.choice(['disjoint', 'identical', 'compatible', 'conflict-param', 'conflict-poi', 'disjoint',
                            'conflict-poiless', 'both-poiless'])
    ver_mode = 'same' if rng.random() < 0.9 else 'different'
    if rng.random() < 0.3:          # fully disjoint pairs: the case the likelihood statements are about
        chan_mode, meas_mode, ver_mode = 'disjoint', 'disjoint', 'same'
    lm = rng.sample(M_POOL, rng.choice([1, 1, 2]))
    left = gen_ws(rng, names[:nl], lm, tag='')
    if meas_mode == 'disjoint':
        rm = [m for m in M_POOL if m not in lm][:1]
    else:
        rm = [lm[0]] + ([m for m in M_POOL if m not in lm][:1] if rng.random() < 0.4 else [])
    right = gen_ws(rng, names[nl:], rm, tag='')
    # overlapping channels
    if chan_mode != 'disjoint':
        k = rng.randrange(1, nl + 1)
        for c in rng.sample(left['channels'], k):
            mode = chan_mode if chan_mode != 'mixed' else rng.choice(['identical', 'conflict'])
            c2 = copy.deepcopy(c) if mode == 'identical' else perturb_channel(rng, c)
            o = copy.deepcopy([o for o in left['observations'] if o['name'] == c['name']][0])
            r = rng.random()
            if mode == 'conflict' and r < 0.5 or mode == 'identical' and r < 0.15:
                o['data'] = [x + 2 for x in o['data']]
            if mode == 'identical' and rng.random() < 0.3:      # same document, int/float spelled differently
                for s in c2['samples']:
                    s['data'] = [int(x) if float(x).is_integer() else x for x in s['data']]
            right['channels'].insert(rng.randrange(len(right['channels']) + 1), c2)
            if rng.random() < 0.93:
                right['observations'].insert(rng.randrange(len(right['observations']) + 1), o)
    # measurements sharing a name
    if meas_mode != 'disjoint':
        ml = left['measurements'][0]
        mr = right['measurements'][0]
        if meas_mode == 'identical':
            right['measurements'][0] = copy.deepcopy(ml)
        elif meas_mode == 'compatible':
            mr['config']['poi'] = ml['config']['poi']
            lnames = {p['name']: p for p in ml['config']['parameters']}
            mr['config']['parameters'] = [copy.deepcopy(lnames[p['name']]) if p['name'] in lnames else p for p in mr['config']['parameters']]
        elif meas_mode == 'conflict-param':
            mr['config']['poi'] = ml['config']['poi']
            mr['config']['parameters'] = [p for p in mr['config']['parameters'] if p['name'] != 'mu'] + [{'name': 'mu', 'inits': [3.0]}]
            ml['config']['parameters'] = [p for p in ml['config']['parameters'] if p['name'] != 'mu'] + [{'name': 'mu', 'inits': [1.5]}]
        elif meas_mode == 'conflict-poi':
            mr['config']['poi'] = 'mu_other' if ml['config']['poi'] == 'mu' else 'mu'
            if rng.random() < 0.5:
                mr['config']['parameters'] = copy.deepcopy(ml['config']['parameters'])
        elif meas_mode == 'conflict-poiless':
            # one of the two declares no POI, the other one does: their definitions clash like any two different POIs
            if ml['config']['poi'] == POILESS:
                ml['config']['poi'] = 'mu'
            mr['config']['poi'] = ml['config']['poi']
            rng.choice([ml, mr])['config']['poi'] = POILESS
            if rng.random() < 0.6:      # the POI is the only difference
                mr['config']['parameters'] = copy.deepcopy(ml['config']['parameters'])
        elif meas_mode == 'both-poiless':
            ml['config']['poi'] = mr['config']['poi'] = POILESS
            lnames = {p['name']: p for p in ml['config']['parameters']}
            mr['config']['parameters'] = [copy.deepcopy(lnames[p['name']]) if p['name'] in lnames else p for p in mr['config']['parameters']]
    if ver_mode == 'different':
        right['version'] = rng.choice(['1.0.1', '2.0.0', '1.0'])
        if rng.random() < 0.3:
            left['version'] = right['version'] if rng.random() < 0.6 else '0.9'
    # rare: duplicated names inside one workspace (schema-valid; exercises first-match semantics of the joins)
    dup = None
    if rng.random() < 0.08:
        dup = rng.choice(['channel', 'measurement', 'observation'])
        w = rng.choice([left, right])
        if dup == 'channel':
            w['channels'].append(perturb_channel(rng, w['channels'][0]) if rng.random() < 0.7 else copy.deepcopy(w['channels'][0]))
        elif dup == 'measurement':
            m = copy.deepcopy(w['measurements'][0])
            if rng.random() < 0.7:
                m['config']['parameters'] = m['config']['parameters'] + [{'name': 'dupextra', 'fixed': True}]
            w['measurements'].append(m)
        else:
            o = copy.deepcopy(w['observations'][0])
            o['data'] = [x + 1 for x in o['data']]
            w['observations'].append(o)
    tags.update(channels=chan_mode, measurements=meas_mode, versions=ver_mode, dup=dup)
    return left, right, tags


def names_of(w):
    mods = sorted({m['name'] for c in w['channels'] for s in c['samples'] for m in s['modifiers']})
    types = sorted({m['type'] for c in w['channels'] for s in c['samples'] for m in s['modifiers']})
    samples = sorted({s['name'] for c in w['channels'] for s in c['samples']})
    chans = sorted({c['name'] for c in w['channels']})
    meas = sorted({m['name'] for m in w['measurements']})
    return dict(modifiers=mods, modifier_types=types, samples=samples, channels=chans, measurements=meas)


def gen_prune_args(rng, w):
    nm = names_of(w)
    args = {}
    for k in ['modifiers', 'modifier_types', 'samples', 'channels', 'measurements']:
        p = {'modifiers': 0.5, 'modifier_types': 0.35, 'samples': 0.3, 'channels': 0.3, 'measurements': 0.25}[k]
        if rng.random() < p and nm[k]:
            sel = rng.sample(nm[k], rng.randrange(1, min(3, len(nm[k])) + 1))
            if rng.random() < 0.06:
                sel.append(rng.choice(['nope', 'histosys', 'mu', 'SR', 'sig', 'meas', 'lumi']))    # often not a name of that kind
            if rng.random() < 0.05:
                sel.append(sel[0])
            args[k] = sel
    return args


def gen_rename_args(rng, w):
    nm = names_of(w)
    args = {}
    for k in ['modifiers', 'samples', 'channels', 'measurements']:
        if rng.random() < 0.55 and nm[k]:
            olds = rng.sample(nm[k], rng.randrange(1, min(3, len(nm[k])) + 1))
            d = {}
            for i, o in enumerate(olds):
                r = rng.random()
                if r < 0.8:
                    d[o] = 'new_%s_%d' % (o, i)                    # fresh, injective
                elif r < 0.88:
                    d[o] = rng.choice(nm[k])                        # collides with an existing name (or itself)
                elif r < 0.94:
                    d[o] = 'same_target'                            # non-injective when chosen twice
                else:
                    d[o] = o
            if rng.random() < 0.05:
                d['absent_name'] = 'x'
            args[k] = d
    return args


def permute_ws(rng, w):
    w = copy.deepcopy(w)
    rng.shuffle(w['channels'])
    for c in w['channels']:
        rng.shuffle(c['samples'])
        for s in c['samples']:
            rng.shuffle(s['modifiers'])
    rng.shuffle(w['measurements'])
    for m in w['measurements']:
        rng.shuffle(m['config']['parameters'])
    rng.shuffle(w['observations'])
    return w


# =========================================================================================
# implementation side
def jround(x):
    return json.loads(json.dumps(x))


def mk_ws(spec):
    import logging
    import pyhf
    logging.getLogger('pyhf').setLevel(logging.CRITICAL)
    return pyhf.Workspace(copy.deepcopy(spec), validate=(spec.get('version') == '1.0.0'))


def run_op(op, env, cache=None):
    """env: id -> python spec.  Returns dict(outcome='ok'|enum, out=json tree|None, mutated=bool, valid=bool|None).
    cache: id -> Workspace object reused between operations (dropped as soon as an operation modified it)"""
    import pyhf
    k = op['op']
    ins = [op['l'], op['r']] if k == 'combine' else [op['w']]
    if cache is None:
        cache = {}
    for i in ins:
        if i not in cache:
            cache[i] = mk_ws(env[i])
    objs = [cache[i] for i in ins]
    before = [json.dumps(dict(o), sort_keys=True) for o in objs]
    try:
        if k == 'combine':
            res = pyhf.Workspace.combine(objs[0], objs[1], join=op['join'], merge_channels=op['merge'], validate=op['validate'])
        elif k == 'prune':
            res = objs[0].prune(**copy.deepcopy(op['args']))
        elif k == 'rename':
            res = objs[0].rename(**copy.deepcopy(op['args']))
        else:
            res = pyhf.Workspace.sorted(objs[0])
        out = dict(outcome='ok', out=jround(dict(res)), msg='')
        try:
            pyhf.schema.validate(out['out'], 'workspace.json', version='1.0.0')
            out['valid'] = True
        except Exception as e:
            out['valid'] = False
            out['msg'] = str(e)[:200]
        out['is_new'] = all(res is not o for o in objs)
    except Exception as e:
        out = dict(outcome=core.exc_enum(e), out=None, msg=str(e)[:160], valid=None, is_new=True)
    after = [json.dumps(dict(o), sort_keys=True) for o in objs]
    out['mutated'] = before != after
    if out['mutated']:
        for i in ins:
            cache.pop(i, None)
    return out


def nontrivial(op, env, res):
    """an operation that has something to do: any combine; prune / rename with at least one name; sorted of a workspace
    that is not already in sorted order (or that is refused)"""
    if op['op'] == 'combine':
        return True
    if op['op'] in ('prune', 'rename'):
        return any(op['args'].get(k) for k in op['args'])
    return res['outcome'] != 'ok' or json.dumps(res['out'], sort_keys=True) != json.dumps(jround(env[op['w']]), sort_keys=True)


def process_group(arg):
    """worker: run every operation of one group and evaluate the property rules.  Returns (results, failures)"""
    g, lik, backend = arg
    BACKEND[0] = backend
    cache = {}
    results, fails = [], []
    for oi, op in enumerate(g['ops']):
        res = run_op(op, g['env'], cache)
        do_lik = lik and (op['op'] != 'combine' or op['join'] in ('none', 'outer') and not op['merge'])
        for sig, what, extra in check_properties(op, g['env'], res, do_lik):
            fails.append((oi, sig, what, extra))
        results.append(res)
    return results, fails


# ---- canonical comparison of documents by value -------------------------------------------
def canon_doc(j):
    if isinstance(j, dict):
        return {k: canon_doc(j[k]) for k in sorted(j)}
    if isinstance(j, list):
        return [canon_doc(x) for x in j]
    if isinstance(j, bool) or j is None or isinstance(j, str):
        return j
    return float(j)


def same_doc(a, b):
    return json.dumps(canon_doc(a), sort_keys=True) == json.dumps(canon_doc(b), sort_keys=True)


def uniq(l):
    return len(set(l)) == len(l)


def internally_distinct(w):
    return (uniq([c['name'] for c in w['channels']]) and uniq([o['name'] for o in w['observations']])
            and uniq([m['name'] for m in w['measurements']])
            and all(uniq([p['name'] for p in m['config']['parameters']]) for m in w['measurements'])
            and all(uniq([s['name'] for s in c['samples']]) for c in w['channels']))


# ---- the property's refusal rule for combine, written from the statement (not from the code) -----------
def spec_combine_refusal(l, r, join, merge):
    """None when the rule makes no statement (duplicated names inside an input); else the set of reasons to refuse."""
    reasons = set()
    if join not in JOINS:
        return {'bad-join'}
    if merge and join == 'none':
        return {'merge-without-join'}
    if l['version'] != r['version']:
        reasons.add('version')
    if not (internally_distinct(l) and internally_distinct(r)):
        return reasons or None
    def by(items):
        return {i['name']: i for i in items}
    for sect in ['channels', 'observations', 'measurements']:
        L, R = by(l[sect]), by(r[sect])
        shared = sorted(set(L) & set(R))
        if join == 'none' and shared:
            reasons.add('common-' + sect)
        if join == 'outer':
            for n in shared:
                if sect == 'channels' and merge:
                    continue
                if sect == 'measurements':
                    if same_doc(L[n], R[n]):
                        continue
                    if L[n]['config']['poi'] != R[n]['config']['poi']:
                        reasons.add('conflict-poi')
                    pl, pr = by(L[n]['config']['parameters']), by(R[n]['config']['parameters'])
                    if any(not same_doc(pl[k], pr[k]) for k in set(pl) & set(pr)):
                        reasons.add('conflict-parameters')
                elif not same_doc(L[n], R[n]):
                    reasons.add('conflict-' + sect)
    return reasons


# ---- likelihood --------------------------------------------------------------------------------------
def theta(name, i):
    """deterministic by-name parameter value in a safe range"""
    h = 0
    for ch in '%s#%d' % (name, i):
        h = (h * 131 + ord(ch)) % 1000003
    return 0.8 + 0.4 * (h % 1000) / 1000.0


class LikelihoodUnavailable(Exception):
    pass


BACKEND = ['numpy']


def build_model(spec, measurement=None):
    import pyhf
    try:
        if pyhf.tensorlib.name != BACKEND[0]:
            pyhf.set_backend(BACKEND[0])
    except Exception as e:
        raise LikelihoodUnavailable('backend %s: %s' % (BACKEND[0], e))
    try:
        w = pyhf.Workspace(copy.deepcopy(spec))
        m = w.model(measurement_name=measurement) if measurement else w.model()
        return w, m
    except Exception as e:
        raise LikelihoodUnavailable('%s: %s' % (type(e).__name__, str(e)[:120]))


def pars_by_name(model, rename=None):
    """parameter vector with value theta(old name, i); rename: new name -> old name"""
    import numpy as np
    rename = rename or {}
    v = np.zeros(model.config.npars)
    for name in model.config.par_order:
        sl = model.config.par_slice(name)
        for i, k in enumerate(range(sl.start, sl.stop)):
            v[k] = theta(rename.get(name, name), i)
    return v


def eval_model(w, model, rename=None, neutral=()):
    """returns dict(main, constraint, total, by_channel={name: expected}, by_sample) at the by-name point"""
    try:
        return _eval_model(w, model, rename, neutral)
    except LikelihoodUnavailable:
        raise
    except Exception as e:
        raise LikelihoodUnavailable('%s: %s' % (type(e).__name__, str(e)[:120]))


def _eval_model(w, model, rename, neutral):
    import numpy as np
    import pyhf
    T = pyhf.tensorlib.astensor
    pars = pars_by_name(model, rename)
    for n in neutral:
        if n in model.config.par_map:
            sl = model.config.par_slice(n)
            ps = model.config.par_map[n]['paramset']
            pars[sl] = ps.auxdata if (ps.constrained and ps.pdf_type == 'normal') else 1.0
    data = np.asarray(w.data(model), dtype=float)
    nm = model.config.nmaindata
    pars = T(pars.tolist())
    main = float(np.asarray(model.mainlogpdf(T(data[:nm].tolist()), pars)).reshape(-1)[0])
    try:
        cons = float(np.asarray(model.constraint_logpdf(T(data[nm:].tolist()), pars)).reshape(-1)[0]) if model.config.nauxdata else 0.0
    except IndexError:
        cons = 0.0
    tot = float(np.asarray(model.logpdf(pars, T(data.tolist()))).reshape(-1)[0])
    if not all(math.isfinite(x) for x in (main, cons, tot)):
        raise LikelihoodUnavailable('non-finite log-likelihood')
    exp = np.asarray(model.expected_actualdata(pars), dtype=float)
    bych = {c: exp[model.config.channel_slices[c]].tolist() for c in model.config.channels}
    bys = np.asarray(model.main_model.expected_data(pars, return_by_sample=True), dtype=float)
    bysample = {(c, s): bys[i][model.config.channel_slices[c]].tolist() for c in model.config.channels for i, s in enumerate(model.config.samples)}
    constrained = sorted(n for n in model.config.par_order if model.config.par_map[n]['paramset'].constrained)
    return dict(main=main, constraint=cons, total=tot, by_channel=bych, by_sample=bysample, constrained=constrained,
                nmaindata=nm, nauxdata=model.config.nauxdata)


def evaluate(spec, meas, rename=None, neutral=()):
    w, m = build_model(spec, meas)
    return eval_model(w, m, rename, neutral)


def feq(a, b, rtol=1e-9):
    return abs(a - b) <= rtol * max(1.0, abs(a), abs(b))


def leq(a, b, rtol=1e-9):
    return len(a) == len(b) and all(feq(x, y, rtol) for x, y in zip(a, b))


def strip_constrained(spec, names):
    """the spec without the constrained modifiers called `names` (harness-side surgery, not pyhf.prune)"""
    s = copy.deepcopy(spec)
    for c in s['channels']:
        for sm in c['samples']:
            sm['modifiers'] = [m for m in sm['modifiers'] if not (m['name'] in names and m['type'] in CONSTRAINED)]
    return s


def lik_combine(l, r, out):
    """disjoint channels: main log-likelihood adds; every constrained parameter contributes once"""
    probs = []
    try:
        el = evaluate(l, l['measurements'][0]['name'])
        er = evaluate(r, r['measurements'][0]['name'])
    except LikelihoodUnavailable:
        return None, probs
    for meas in [l['measurements'][0]['name'], r['measurements'][0]['name']]:
        if [m['name'] for m in out['measurements']].count(meas) != 1:
            continue
        try:
            eo = evaluate(out, meas)
        except LikelihoodUnavailable as e:
            probs.append(('combined-model-unbuildable', str(e)))
            continue
        if not feq(eo['main'], el['main'] + er['main']):
            probs.append(('main-likelihood-not-additive', dict(combined=eo['main'], left=el['main'], right=er['main'], measurement=meas)))
        if eo['constrained'] != sorted(set(el['constrained']) | set(er['constrained'])):
            probs.append(('constrained-parameters-not-union', dict(combined=eo['constrained'], left=el['constrained'], right=er['constrained'])))
        else:
            shared = set(el['constrained']) & set(er['constrained'])
            try:
                er2 = evaluate(strip_constrained(r, shared), r['measurements'][0]['name'])
                if not feq(eo['constraint'], el['constraint'] + er2['constraint']):
                    probs.append(('constraint-terms-not-once', dict(combined=eo['constraint'], left=el['constraint'],
                                                                    right_private=er2['constraint'], shared=sorted(shared))))
            except LikelihoodUnavailable:
                pass
        for c, v in list(el['by_channel'].items()) + list(er['by_channel'].items()):
            if not leq(eo['by_channel'].get(c, []), v):
                probs.append(('channel-rates-changed', dict(channel=c, combined=eo['by_channel'].get(c), input=v)))
    return True, probs


def lik_same(w0, out, rename=None):
    """out is a relabelling / reordering of w0: full log-likelihood equal at corresponding points, for every measurement"""
    probs = []
    rename = rename or {}
    inv_mod = {v: k for k, v in rename.get('modifiers', {}).items()}
    inv_meas = {v: k for k, v in rename.get('measurements', {}).items()}
    done = 0
    for m in out['measurements']:
        if [x['name'] for x in out['measurements']].count(m['name']) != 1:
            continue
        old = inv_meas.get(m['name'], m['name'])
        try:
            ea = evaluate(w0, old)
        except LikelihoodUnavailable:
            continue
        try:
            eb = evaluate(out, m['name'], rename=inv_mod)
        except LikelihoodUnavailable as e:
            probs.append(('result-model-unbuildable', str(e)))
            continue
        done += 1
        if not (feq(ea['total'], eb['total']) and feq(ea['main'], eb['main'])):
            probs.append(('likelihood-changed', dict(before=ea['total'], after=eb['total'], measurement=m['name'])))
    return done, probs


def lik_prune(w0, out, args):
    """remaining channels / samples keep their rates when the pruned parameters sit at their neutral values"""
    probs = []
    if args.get('measurements') and w0['measurements'][0]['name'] in args['measurements']:
        return 0, probs
    meas = w0['measurements'][0]['name']
    pruned_names = set(args.get('modifiers', []))
    ptypes = set(args.get('modifier_types', []))
    for c in w0['channels']:
        for s in c['samples']:
            for m in s['modifiers']:
                if m['type'] in ptypes:
                    pruned_names.add(m['name'])
    # a name used with a pruned type and a kept type keeps a live parameter: put it at neutral on both sides
    try:
        ea = evaluate(w0, meas, neutral=pruned_names)
        eb = evaluate(out, meas, neutral=pruned_names)
    except LikelihoodUnavailable:
        return 0, probs            # e.g. the POI was pruned away: no statement
    gone_s = set(args.get('samples', []))
    for (c, s), v in ea['by_sample'].items():
        if c in args.get('channels', []) or s in gone_s:
            if (c, s) in eb['by_sample'] and any(abs(x) > 0 for x in eb['by_sample'][(c, s)]):
                probs.append(('pruned-item-still-contributes', dict(channel=c, sample=s)))
            continue
        if (c, s) not in eb['by_sample']:
            if any(abs(x) > 0 for x in v):
                probs.append(('kept-sample-lost', dict(channel=c, sample=s)))
            continue
        if not leq(v, eb['by_sample'][(c, s)]):
            probs.append(('kept-sample-rates-changed', dict(channel=c, sample=s, before=v, after=eb['by_sample'][(c, s)])))
    return 1, probs


# =========================================================================================
# property-level evaluation of one executed operation (no Coq, no model of the code)
def check_properties(op, env, res, lik):
    """returns list of (signature, what, extra)"""
    out = []
    k = op['op']
    if res['mutated']:
        out.append(('%s-mutates-input' % k, 'the operation modified a workspace passed to it', {}))
    if res['outcome'] == 'ok':
        if res['valid'] is False and all(env[i]['version'] == '1.0.0' for i in ([op['l'], op['r']] if k == 'combine' else [op['w']])):
            out.append(('%s-returns-invalid' % k, 'the returned workspace fails schema validation: ' + res['msg'], {}))
        if not res.get('is_new', True):
            out.append(('%s-returns-input-object' % k, 'the operation returned one of its inputs instead of a new workspace', {}))
    if k == 'combine':
        l, r = env[op['l']], env[op['r']]
        reasons = spec_combine_refusal(l, r, op['join'], op['merge'])
        if reasons is not None:
            if reasons and res['outcome'] == 'ok':
                out.append(('combine-accepts:%s:%s' % (op['join'].replace(' ', '-'), sorted(reasons)[0]),
                            'combine(join=%r, merge_channels=%r) accepted inputs it must refuse (%s)' % (op['join'], op['merge'], sorted(reasons)), dict(reasons=sorted(reasons))))
            ok_validation = op['validate'] is False or (l['version'] == '1.0.0')
            if not reasons and res['outcome'] != 'ok' and ok_validation:
                out.append(('combine-refuses:%s:%s' % (op['join'].replace(' ', '-'), res['outcome']),
                            'combine(join=%r, merge_channels=%r) refused compatible inputs: %s' % (op['join'], op['merge'], res['msg']), {}))
        if res['outcome'] == 'ok' and internally_distinct(l) and internally_distinct(r):
            o = res['out']
            def names(w, sect):
                return [x['name'] for x in w[sect]]
            disjoint = all(not set(names(l, s)) & set(names(r, s)) for s in ['channels', 'observations', 'measurements'])
            if disjoint:
                for sect in ['channels', 'observations', 'measurements']:
                    exp = sorted(json.dumps(canon_doc(x), sort_keys=True) for x in l[sect] + r[sect])
                    got = sorted(json.dumps(canon_doc(x), sort_keys=True) for x in o[sect])
                    if exp != got:
                        out.append(('combine-disjoint-%s-not-union' % sect, 'combining disjoint workspaces (join=%r) does not return every %s of both unchanged' % (op['join'], sect), {}))
                if lik and l['version'] == '1.0.0':
                    did, probs = lik_combine(l, r, o)
                    for sig, d in probs:
                        out.append(('combine-' + sig, 'combined likelihood: %s' % sig, dict(detail=d)))
                    res['lik'] = bool(did)
            elif not op['merge']:
                # every returned item is an item of one of the inputs or (outer) a merged measurement
                for sect in ['channels', 'observations']:
                    pool = [json.dumps(canon_doc(x), sort_keys=True) for x in l[sect] + r[sect]]
                    for x in o[sect]:
                        if json.dumps(canon_doc(x), sort_keys=True) not in pool:
                            out.append(('combine-invents-' + sect, 'combine(join=%r) returned a %s entry that is in neither input' % (op['join'], sect[:-1]), dict(item=x)))
                for sect in ['channels', 'observations', 'measurements']:
                    want = set(names(l, sect)) | set(names(r, sect))
                    if set(names(o, sect)) != want or not uniq(names(o, sect)):
                        out.append(('combine-%s-names' % sect, 'combine(join=%r): %s names of the result are not the union, once each' % (op['join'], sect), dict(got=names(o, sect))))
                prim, sec = (r, l) if op['join'] == 'right outer' else (l, r)
                for sect in ['channels', 'observations'] + (['measurements'] if op['join'] in ('left outer', 'right outer') else []):
                    for x in prim[sect]:
                        if not any(same_doc(x, y) for y in o[sect]):
                            out.append(('combine-drops-primary-' + sect, 'combine(join=%r) lost or altered an entry of the preferred input' % op['join'], dict(item=x)))
                if op['join'] == 'outer':
                    for m in o['measurements']:
                        srcs = [x for x in l['measurements'] + r['measurements'] if x['name'] == m['name']]
                        want_params = {}
                        for x in srcs:
                            for p in x['config']['parameters']:
                                want_params[p['name']] = p
                        got = {p['name']: p for p in m['config']['parameters']}
                        if set(got) != set(want_params) or any(not same_doc(got[n], want_params[n]) for n in got) \
                                or len(got) != len(m['config']['parameters']) or m['config']['poi'] != srcs[0]['config']['poi']:
                            out.append(('combine-outer-measurement-merge', 'outer join: merged measurement %r does not hold every parameter config of both, once' % m['name'], dict(got=m)))
    elif k == 'prune':
        w, a = env[op['w']], op['args']
        nm = names_of(w)
        unknown = [(kk, n) for kk in a for n in a[kk] if n not in nm[kk]]
        if unknown and res['outcome'] == 'ok':
            out.append(('prune-accepts-unknown-' + unknown[0][0], 'prune accepted the name %r which is no %s of the workspace' % (unknown[0][1], unknown[0][0]), {}))
        if not unknown and res['outcome'] == 'InvalidWorkspaceOperation':
            kind = 'modifier-type' if 'modifier types' in res['msg'] else 'name'
            out.append(('prune-refuses-existing-' + kind, 'prune refused names that all exist: ' + res['msg'], {}))
        if res['outcome'] == 'ok':
            o = res['out']
            exp = ref_prune(w, a)
            if not same_doc(exp, o):
                out.append(('prune-not-exact', 'prune did not remove exactly the named items (or altered the rest)', dict(expected=exp)))
            elif lik and internally_distinct(w):
                did, probs = lik_prune(w, o, a)
                for sig, d in probs:
                    out.append(('prune-' + sig, 'pruned likelihood: %s' % sig, dict(detail=d)))
                res['lik'] = bool(did)
    elif k == 'rename':
        w, a = env[op['w']], op['args']
        nm = names_of(w)
        unknown = [(kk, n) for kk in a for n in a[kk] if n not in nm[kk]]
        if unknown and res['outcome'] == 'ok':
            out.append(('rename-accepts-unknown-' + unknown[0][0], 'rename accepted the name %r which is no %s of the workspace' % (unknown[0][1], unknown[0][0]), {}))
        if not unknown and res['outcome'] == 'InvalidWorkspaceOperation':
            out.append(('rename-refuses-existing', 'rename refused names that all exist: ' + res['msg'], {}))
        if res['outcome'] == 'ok':
            o = res['out']
            exp = ref_rename(w, a)
            if not same_doc(exp, o):
                out.append(('rename-not-relabelling', 'rename is not the pure relabelling by the given maps', dict(expected=exp)))
            inj = injective_fresh(w, a)
            if inj:
                import pyhf
                try:
                    back = jround(dict(pyhf.Workspace(copy.deepcopy(o)).rename(**{kk: {v: k2 for k2, v in d.items()} for kk, d in a.items()})))
                    if not same_doc(back, w):
                        out.append(('rename-inverse-not-identity', 'renaming back with the inverse maps does not restore the workspace', dict(back=back)))
                except Exception as e:
                    out.append(('rename-inverse-raises', 'renaming back with the inverse maps raised %s' % core.exc_enum(e), {}))
                if lik and internally_distinct(w):
                    did, probs = lik_same(w, o, rename=a)
                    for sig, d in probs:
                        out.append(('rename-' + sig, 'renamed likelihood: %s' % sig, dict(detail=d)))
                    res['lik'] = bool(did)
    elif k == 'sorted':
        w = env[op['w']]
        if res['outcome'] == 'ok':
            o = res['out']
            exp = ref_sorted(w)
            if not same_doc(exp, o):
                out.append(('sorted-not-sorted', 'sorted() is not the name-ordered rearrangement of its input', dict(expected=exp)))
            import pyhf
            again = jround(dict(pyhf.Workspace.sorted(pyhf.Workspace(copy.deepcopy(o)))))
            if not same_doc(again, o):
                out.append(('sorted-not-idempotent', 'sorted(sorted(w)) differs from sorted(w)', dict(again=again)))
            if 'base' in op and internally_distinct(w):
                ob = jround(dict(pyhf.Workspace.sorted(mk_ws(env[op['base']]))))
                if not same_doc(ob, o):
                    out.append(('sorted-not-canonical', 'two permutations of one workspace sort to different documents', dict(other=ob)))
            if lik and internally_distinct(w):
                did, probs = lik_same(w, o)
                for sig, d in probs:
                    out.append(('sorted-' + sig, 'sorted likelihood: %s' % sig, dict(detail=d)))
                res['lik'] = bool(did)
        elif w['version'] == '1.0.0':
            out.append(('sorted-refuses', 'sorted() refused a valid workspace: ' + res['msg'], {}))
    return out


def ref_prune(w, a):
    pm, pt, ps, pc, pme = (a.get(k, []) for k in ['modifiers', 'modifier_types', 'samples', 'channels', 'measurements'])
    return {'channels': [{'name': c['name'], 'samples': [
                {'name': s['name'], 'data': s['data'], 'modifiers': [m for m in s['modifiers'] if m['name'] not in pm and m['type'] not in pt]}
                for s in c['samples'] if s['name'] not in ps]} for c in w['channels'] if c['name'] not in pc],
            'observations': [o for o in w['observations'] if o['name'] not in pc],
            'measurements': [{'name': m['name'], 'config': {'poi': m['config']['poi'],
                                                             'parameters': [p for p in m['config']['parameters'] if p['name'] not in pm]}}
                             for m in w['measurements'] if m['name'] not in pme],
            'version': w['version']}


def ref_rename(w, a):
    rm, rs, rc, rme = (a.get(k, {}) for k in ['modifiers', 'samples', 'channels', 'measurements'])
    o = copy.deepcopy(w)
    for c in o['channels']:
        c['name'] = rc.get(c['name'], c['name'])
        for s in c['samples']:
            s['name'] = rs.get(s['name'], s['name'])
            for m in s['modifiers']:
                m['name'] = rm.get(m['name'], m['name'])
    for ob in o['observations']:
        ob['name'] = rc.get(ob['name'], ob['name'])
    for m in o['measurements']:
        m['name'] = rme.get(m['name'], m['name'])
        m['config']['poi'] = rm.get(m['config']['poi'], m['config']['poi'])
        for p in m['config']['parameters']:
            p['name'] = rm.get(p['name'], p['name'])
    return o


def ref_sorted(w):
    o = copy.deepcopy(w)
    o['channels'].sort(key=lambda c: c['name'])
    for c in o['channels']:
        c['samples'].sort(key=lambda s: s['name'])
        for s in c['samples']:
            s['modifiers'].sort(key=lambda m: (m['name'], m['type']))
    o['measurements'].sort(key=lambda m: m['name'])
    for m in o['measurements']:
        m['config']['parameters'].sort(key=lambda p: p['name'])
    o['observations'].sort(key=lambda x: x['name'])
    return o


def injective_fresh(w, a):
    """the maps are injective and their targets are not names already in use (then the inverse maps undo them)"""
    nm = names_of(w)
    used = {'modifiers': set(nm['modifiers']) | {p['name'] for m in w['measurements'] for p in m['config']['parameters']} | {m['config']['poi'] for m in w['measurements']},
            'samples': set(nm['samples']), 'channels': set(nm['channels']) | {o['name'] for o in w['observations']}, 'measurements': set(nm['measurements'])}
    for k, d in a.items():
        if not all(o in nm[k] for o in d):
            return False
        if len(set(d.values())) != len(d) or any(v in used[k] for v in d.values()):
            return False
    return True


# =========================================================================================
def make_group(rng, quick):
    """one generated pair with all operations on it.  Returns dict(env, ops, tags)."""
    l, r, tags = gen_pair(rng)
    env = {'l': l, 'r': r}
    ops = []
    for j in JOINS:
        for mg in (False, True):
            ops.append(dict(op='combine', l='l', r='r', join=j, merge=mg, validate=True))
    if rng.random() < 0.25:
        ops.append(dict(op='combine', l='l', r='r', join=rng.choice(['inner', 'Outer', 'left', '']), merge=rng.random() < 0.5, validate=True))
    if tags['versions'] == 'different' or rng.random() < 0.1:
        ops.append(dict(op='combine', l='l', r='r', join=rng.choice(JOINS), merge=False, validate=False))
    if rng.random() < 0.3:
        ops.append(dict(op='combine', l='r', r='l', join=rng.choice(JOINS), merge=rng.random() < 0.3, validate=True))
    if rng.random() < 0.15:
        ops.append(dict(op='combine', l='l', r='l', join=rng.choice(JOINS[1:]), merge=rng.random() < 0.3, validate=True))
    for wid in ['l', 'r']:
        if env[wid]['version'] != '1.0.0' and rng.random() < 0.7:
            continue
        for _ in range(2):
            ops.append(dict(op='prune', w=wid, args=gen_prune_args(rng, env[wid])))
        for _ in range(2):
            ops.append(dict(op='rename', w=wid, args=gen_rename_args(rng, env[wid])))
        ops.append(dict(op='sorted', w=wid))
        pid = wid + 'p'
        env[pid] = permute_ws(rng, env[wid])
        ops.append(dict(op='sorted', w=pid, base=wid))
    if rng.random() < 0.2 and has_lumi(l['channels']):
        ops.append(dict(op='rename', w='l', args={'modifiers': {'lumi': 'Lumi2'}}))
    return dict(env=env, ops=ops, tags=tags)


def make_sequence_group(rng):
    """an operation SEQUENCE on one analysis: rename (channels, sometimes modifiers / samples) -> combine with a second workspace that
    re-uses the old channel names -> prune (channels of the second workspace, and more).  After the rename the names that follow another
    channel's convention (`staterror_<channel>`, `shp_<channel>_<sample>`, `sf_<channel>`) belong to modifiers living elsewhere, with
    non-default parameter configs.  Every step is an operation of the group on the document the previous step returned, so each
    step is compared with the Coq model and the property rules on its own."""
    import pyhf  # noqa: F401
    na = rng.choice([1, 1, 2])
    names = rng.sample(CH_POOL, na + rng.choice([0, 1]))
    a = gen_ws(rng, names[:na], ['meas'], rich=1.6, binwise=0.8)
    b = gen_ws(rng, names, rng.choice([['alt'], ['alt'], ['meas']]), rich=1.2, binwise=0.5)
    if b['measurements'][0]['name'] == 'meas':          # same measurement name: shared parameter names configured identically
        ma, mb = a['measurements'][0], b['measurements'][0]
        mb['config']['poi'] = ma['config']['poi']
        la = {p['name']: p for p in ma['config']['parameters']}
        mb['config']['parameters'] = [copy.deepcopy(la[p['name']]) if p['name'] in la else p for p in mb['config']['parameters']]
    env = {'l': a, 'r': b}
    suffix = rng.choice(['_2018', '_old', 'X'])
    ren = {'channels': {n: n + suffix for n in names[:na]}}
    if rng.random() < 0.3:
        ren.update({k: v for k, v in gen_rename_args(rng, a).items() if k != 'channels'})
    ops = [dict(op='rename', w='l', args=ren)]
    hist = ['rename(l, %s)' % json.dumps(ren, sort_keys=True)]
    r1 = run_op(ops[0], env)
    if r1['outcome'] == 'ok':
        env['s1'] = r1['out']
        same = b['measurements'][0]['name'] == 'meas'
        join = rng.choice(['outer', 'left outer', 'right outer']) if same else rng.choice(['none', 'outer', 'outer'])
        first, second = ('s1', 'r') if rng.random() < 0.7 else ('r', 's1')
        op2 = dict(op='combine', l=first, r=second, join=join, merge=False, validate=True, history=list(hist))
        ops.append(op2)
        hist = hist + ['combine(%s, %s, join=%r)' % (first, second, join)]
        r2 = run_op(op2, env)
        if r2['outcome'] == 'ok':
            env['s2'] = r2['out']
            ops.append(dict(op='prune', w='s2', args={'channels': list(names)}, history=list(hist)))
            ops.append(dict(op='prune', w='s2', args={'channels': rng.sample(names, rng.randrange(1, len(names) + 1))}, history=list(hist)))
            extra = gen_prune_args(rng, env['s2'])
            extra['channels'] = list(dict.fromkeys(extra.get('channels', []) + [rng.choice(names)]))
            ops.append(dict(op='prune', w='s2', args=extra, history=list(hist)))
            ops.append(dict(op='prune', w='s2', args={'channels': [n + suffix for n in names[:na]][:1]}, history=list(hist)))
            ops.append(dict(op='sorted', w='s2', history=list(hist)))
    # the same coincidence without a history: prune a channel of `l` while another channel holds names of its convention
    ops.append(dict(op='prune', w='l', args=gen_prune_args(rng, a)))
    return dict(env=env, ops=ops, tags=dict(sequence='rename-combine-prune', steps=len(env) - 1))


def group_text(gi, g):
    """Coq text for one group: its workspaces as top-level definitions, then one vm_compute of all its operations"""
    names = {wid: 'g%d_%s' % (gi, wid) for wid in g['env']}
    txt = ''.join('Definition %s := %s.\n' % (names[wid], c_ws(spec)) for wid, spec in g['env'].items())
    txt += 'Eval vm_compute in (MARK, %d%%Z, [%s]).\n' % (gi, '; '.join('chk (%s)' % op_expr(op, names) for op in g['ops']))
    return txt


def eval_groups(ctx, groups, name='ops'):
    """evaluate every operation of every group with the Coq model; returns {group index: [(code, fingerprint)]}"""
    import re
    import subprocess
    d = os.path.join(ctx.work, name)
    os.makedirs(d, exist_ok=True)
    nshard = max(1, min(2 * core.NCPU, (len(groups) + 2) // 3))
    files = []
    for k in range(nshard):
        fn = os.path.join(d, 'cases_%s_%d.v' % (name, k))
        with open(fn, 'w') as f:
            f.write(HEADER + '\n')
            for gi in range(k, len(groups), nshard):
                f.write(group_text(gi, groups[gi]))
        files.append(fn)
    out = {}
    pending, running = list(files), []
    texts = {}
    while pending or running:
        while pending and len(running) < core.NCPU:
            fn = pending.pop(0)
            running.append((fn, subprocess.Popen(['timeout', '900', 'coqc', '-w', '-all', '-R', core.COQ, 'PV', fn], cwd=d,
                                                 stdout=subprocess.PIPE, stderr=subprocess.STDOUT, text=True)))
        fn, pr = running.pop(0)
        o, _ = pr.communicate()
        if pr.returncode != 0:
            for _, p2 in running:
                p2.kill()
            raise core.CoqEvalError('coqc failed on %s (rc=%d):\n%s' % (fn, pr.returncode, o[-3000:]))
        texts[fn] = o
    for fn in files:
        for part in re.split(r'^\s*=\s*\(MARK,', texts[fn], flags=re.M)[1:]:
            body = part[:part.rindex(': Marker')] if ': Marker' in part else part
            body = ' '.join(body.split())
            body = body[:body.rindex(')')]
            gi_txt, lst = body.split(',', 1)
            gi = int(re.sub(r'%\w+', '', gi_txt).strip())
            out[gi] = core.parse_qc(lst)
    if sorted(out) != list(range(len(groups))):
        raise core.CoqEvalError('expected %d group results, parsed %d' % (len(groups), len(out)))
    return out


M89 = (1 << 89) - 1


def fingerprint(j):
    """PV.WorkspaceRun.fp over the key-sorted document, numbers by exact value"""
    def red(x):
        return (x & M89) + (x >> 89)

    def tok(h, t):
        return red(red(red(h * 1000003 + t)))

    def fstr(s, h):
        n = 0
        for ch in s:
            n = n * 256 + ord(ch)
        return tok(tok(h, len(s)), n)

    def go(j, h):
        if j is None:
            return tok(h, 1)
        if isinstance(j, bool):
            return tok(h, 3 if j else 2)
        if isinstance(j, (int, float)):
            f = core.frac(j)
            n = f.numerator
            return tok(tok(tok(h, 4), 2 * (-n) + 1 if n < 0 else 2 * n), f.denominator)
        if isinstance(j, str):
            return fstr(j, tok(h, 5))
        if isinstance(j, list):
            h = tok(tok(h, 6), len(j))
            for x in j:
                h = go(x, h)
            return h
        if isinstance(j, dict):
            h = tok(tok(h, 7), len(j))
            for k in sorted(j):
                h = go(j[k], fstr(k, h))
            return h
        raise NotRepresentable(type(j).__name__)
    return go(j, 7)


def show_expr(g, op):
    names = {wid: 'w_' + wid for wid in g['env']}
    used = [op['l'], op['r']] if op['op'] == 'combine' else [op['w']]
    lets = ''.join('let %s := %s in ' % (names[wid], c_ws(g['env'][wid])) for wid in dict.fromkeys(used))
    return lets + 'show (%s)' % op_expr(op, names)


def ojson_to_py(t):
    if t == 'ONull':
        return None
    tag = t[0]
    if tag == 'OBool':
        return t[1] == 'true'
    if tag == 'ONum':
        return t[1] / t[2]
    if tag == 'OStr':
        return t[1]
    if tag == 'OArr':
        return [ojson_to_py(x) for x in t[1]]
    if tag == 'OObj':
        return {k: ojson_to_py(v) for k, v in t[1]}
    raise ValueError(t)


def corpus_groups():
    d = os.path.join(core.VERIF, 'corpus', 'C16')
    out = []
    if os.path.isdir(d):
        for fn in sorted(os.listdir(d)):
            if fn.endswith('.json'):
                body = json.load(open(os.path.join(d, fn)))
                out.append(dict(env=body['env'], ops=body['ops'], tags=dict(corpus=fn)))
    return out


def shrink(g, op, still_fails):
    """greedy removal of channels / samples / modifiers / measurements / parameters from the inputs of one op"""
    env = copy.deepcopy(g['env'])
    used = [op['l'], op['r']] if op['op'] == 'combine' else [op['w']] + ([op['base']] if 'base' in op else [])
    changed = True
    budget = 60
    while changed and budget > 0:
        changed = False
        for wid in used:
            w = env[wid]
            cands = []
            for sect in ['channels', 'observations', 'measurements']:
                for i in range(len(w[sect])):
                    cands.append((sect, i))
            for ci, c in enumerate(w['channels']):
                for si, s in enumerate(c['samples']):
                    cands.append(('sample', ci, si))
                    for mi in range(len(s['modifiers'])):
                        cands.append(('mod', ci, si, mi))
            for mi, m in enumerate(w['measurements']):
                for pi in range(len(m['config']['parameters'])):
                    cands.append(('par', mi, pi))
            for cand in cands:
                if budget <= 0:
                    break
                trial = copy.deepcopy(env)
                tw = trial[wid]
                try:
                    if cand[0] in ('channels', 'observations', 'measurements'):
                        if len(tw[cand[0]]) <= 1:
                            continue
                        del tw[cand[0]][cand[1]]
                    elif cand[0] == 'sample':
                        if len(tw['channels'][cand[1]]['samples']) <= 1:
                            continue
                        del tw['channels'][cand[1]]['samples'][cand[2]]
                    elif cand[0] == 'mod':
                        del tw['channels'][cand[1]]['samples'][cand[2]]['modifiers'][cand[3]]
                    else:
                        del tw['measurements'][cand[1]]['config']['parameters'][cand[2]]
                except IndexError:
                    continue
                budget -= 1
                try:
                    if still_fails(trial):
                        env = trial
                        changed = True
                        break
                except Exception:
                    pass
    return env


# =========================================================================================
def run(ctx):
    rng = ctx.rng
    tie = None
    have_facts = True
    try:
        ctx.coverage['extracted_facts'] = extract(ctx)
    except facts.TieBroken as e:
        tie = 'translation of pyhf/workspace.py to Gallina / fact extraction failed (harness/props/c16_tie.py, c16.py:extract): %s' % e
        have_facts = os.path.exists(os.path.join(core.COQ, 'gen', 'FactsC16.v'))       # the facts are written before the translation starts
    if tie is None:
        ok, txt = core.prove(ctx)
        if not ok:
            why = ('the functions translated from the source no longer coincide with the hand model (coq/TieWorkspace.v, C16_source_is_model_*): '
                   if ('TieWorkspace' in txt or 'source_is_model' in txt or 'WorkspaceGen' in txt) else 'proof obligations of props/C16.v no longer check: ')
            tie = why + txt[-1200:]
    ctx.trusted += ['harness/props/c16_tie.py + harness/props/tie_translate.py (python ast -> Gallina for _join_items, _join_versions, _join_channels, '
                    '_join_observations, _join_parameter_configs, _join_measurements, Workspace.combine, _prune_and_rename, prune, rename, sorted; fail closed): '
                    'C16_source_is_model_* prove the translated definitions equal to the hand model as functions on the workspace AST; the reading of the python '
                    'values (documents = records, one definition per join text, sets / Counter / setdefault / sort as list functions, private-copy tracking, '
                    'Workspace(..) = construct, the mixin summaries) is stated in the header of coq/gen/WorkspaceGen.v']
    model_ok = True
    if tie is not None and have_facts:
        # the hand model is run for the correspondence even when a tie theorem (or the translation) no longer checks
        rc_model, mout, _ = core.coq_make(['WorkspaceRun.vo', 'gen/FactsC16.vo'])
        model_ok = rc_model == 0
        if not model_ok:
            tie = tie + ' | the hand model does not build: ' + mout[-400:]
    ctx.log('facts extracted, %d/%d obligations discharged' % (ctx.discharged, ctx.obligations))
    ctx.trusted += ['harness/props/c16.py: workspace generators, python dict -> Gallina AST printer (fail closed on unknown keys)',
                    'numbers are compared by exact value (the int/float spelling of a JSON number is not modelled; Python == ignores it too)',
                    'documents are compared through an 89-bit fingerprint of the canonical (key-sorted) token stream, computed inside Coq '
                    '(PV.WorkspaceRun.fp over canon (json_of_ws model_result)) and by the same function in Python over pyhf\'s result; on a mismatch the '
                    'model document is printed by Coq into the replay (shipping full documents into Coq costs ~45 us/byte of parsing)',
                    'jsonschema validation is represented by the structural predicate schema_ok (workspace.json 1.0.0: non-empty lists, modifier data shapes, lumi name)',
                    'model.logpdf / mainlogpdf / constraint_logpdf / expected_data of pyhf (numpy backend) are used to evaluate likelihoods of inputs and outputs (the pdf itself is C01/C02)']
    ctx.assumptions += ['likelihood-level theorems are stated against the name-indexed reference semantics of PV.WorkspaceLik (abstract factor / log-density functions)',
                        'ASCII names (String.leb = Python code-point order)']

    groups = corpus_groups()
    ncorpus = len(groups)
    n = ctx.n(110, 1500)
    groups += [make_group(rng, ctx.quick) for _ in range(n)]
    groups += [make_sequence_group(rng) for _ in range(ctx.n(30, 300))]
    nlik = ctx.n(45, 400)

    stats = dict(ops=0, combine=0, prune=0, rename=0, sorted=0, lik_evaluated=0, outcomes={}, by_join={}, tags={})
    sigs = set()
    found_concrete = False
    import concurrent.futures
    import multiprocessing
    import pyhf  # noqa: F401  (imported before forking)
    args = [(g, gi < ncorpus + nlik, 'numpy') for gi, g in enumerate(groups)]
    backends = ['numpy']
    with concurrent.futures.ProcessPoolExecutor(max_workers=min(12, core.NCPU), mp_context=multiprocessing.get_context('fork')) as ex:
        processed = list(ex.map(process_group, args, chunksize=2))
    all_results = []
    for gi, (g, (results, fails)) in enumerate(zip(groups, processed)):
        for op, res in zip(g['ops'], results):
            stats['ops'] += 1
            stats[op['op']] += 1
            stats['outcomes'][res['outcome']] = stats['outcomes'].get(res['outcome'], 0) + 1
            if op['op'] == 'combine':
                key = '%s/%s/%s' % (op['join'], 'merge' if op['merge'] else 'plain', 'ok' if res['outcome'] == 'ok' else 'refused')
                stats['by_join'][key] = stats['by_join'].get(key, 0) + 1
            if res.get('lik'):
                stats['lik_evaluated'] += 1
            if nontrivial(op, g['env'], res):
                sigs.add(json.dumps([op, {k: g['env'][k] for k in ([op['l'], op['r']] if op['op'] == 'combine' else [op['w']])}], sort_keys=True, default=str))
        for oi, sig, what, extra in fails:
            found_concrete = True
            report(ctx, g, g['ops'][oi], results[oi], sig, what, extra)
        for k, v in g['tags'].items():
            kk = '%s=%s' % (k, v)
            stats['tags'][kk] = stats['tags'].get(kk, 0) + 1
        npl = sum(m['config']['poi'] == POILESS for w in (g['env'].get('l'), g['env'].get('r')) if w for m in w['measurements'])
        if npl:
            stats['tags']['poiless-measurements'] = stats['tags'].get('poiless-measurements', 0) + npl
        all_results.append(results)
    ctx.log('implementation: %d operations on %d groups' % (stats['ops'], len(groups)))
    if not ctx.quick:
        per = 70
        for bi, be in enumerate(['jax', 'pytorch', 'tensorflow']):
            sub = [g for gi, g in enumerate(groups) if gi >= ncorpus and (gi - ncorpus) % 3 == bi][:per]
            try:
                with concurrent.futures.ProcessPoolExecutor(max_workers=4, mp_context=multiprocessing.get_context('spawn')) as ex:
                    done = list(ex.map(process_group, [(g, True, be) for g in sub], chunksize=4))
            except Exception as e:
                ctx.notes.append('backend %s pass crashed: %s' % (be, str(e)[:200]))
                continue
            nl = 0
            for g, (results, fails) in zip(sub, done):
                nl += sum(1 for r in results if r.get('lik'))
                for oi, sig, what, extra in fails:
                    found_concrete = True
                    report(ctx, g, g['ops'][oi], results[oi], sig + ':' + be if 'lik' in sig or 'rates' in sig else sig, what + ' [backend %s]' % be, extra)
            stats['lik_evaluated_' + be] = nl
            if nl:
                backends.append(be)
            ctx.log('backend %s: %d likelihood checks on %d groups' % (be, nl, len(sub)))
    ctx.coverage['backends'] = backends
    ctx.coverage['likelihood_checks_by_backend'] = {k[len('lik_evaluated_'):]: v for k, v in stats.items() if k.startswith('lik_evaluated_')}

    # ---- model inside Coq ----
    disagree = []
    model_stats = {}
    if have_facts and model_ok:
        try:
            outs = eval_groups(ctx, groups)
            for gi, (g, rs) in enumerate(zip(groups, all_results)):
                codes = outs[gi]
                if len(codes) != len(g['ops']):
                    raise core.CoqEvalError('group %d: %d codes for %d ops' % (gi, len(codes), len(g['ops'])))
                for oi, (op, res, (mc, h1)) in enumerate(zip(g['ops'], rs, codes)):
                    mo = ERR[mc]
                    model_stats[mo] = model_stats.get(mo, 0) + 1
                    if mo != res['outcome'] or (mo == 'ok' and h1 != fingerprint(res['out'])):
                        disagree.append((gi, oi, mo))
        except (core.CoqEvalError, NotRepresentable) as e:
            tie = (tie + ' | ' if tie else '') + 'model evaluation failed: %s' % str(e)[-800:]
    ctx.log('model: %d disagreements' % len(disagree))
    if tie:
        ctx.notes.append('tie: ' + tie[:600])
        ctx.log('tie broken: ' + ' '.join(tie.split())[:300])
    first = None
    if disagree:
        # print what the model returns for the first few, for the replay
        try:
            shows = core.coq_eval(ctx, 'show', HEADER, [show_expr(groups[gi], groups[gi]['ops'][oi]) for gi, oi, _ in disagree[:8]], shard=1)
        except core.CoqEvalError:
            shows = [None] * len(disagree[:8])
        for (gi, oi, mo), sh in zip(disagree[:8], shows):
            g, op, res = groups[gi], groups[gi]['ops'][oi], all_results[gi][oi]
            try:
                mdoc = ojson_to_py(core.parse_qc(sh)) if sh is not None and mo == 'ok' else mo
            except Exception:
                mdoc = sh
            d = dict(op=op, impl=res['outcome'], model=mo, model_document=mdoc, impl_document=res['out'])
            if first is None:
                first = d
                first_g = (g, op)
        if not found_concrete:
            g, op = first_g
            tie = tie or 'model and implementation disagree on %d operations; first: %s impl=%s model=%s' % (
                len(disagree), json.dumps(op)[:200], first['impl'], first['model'])
            ctx.violation('tie-broken', tie[:300], dict(kind='op', env={k: g['env'][k] for k in g['env']}, op=op, impl=first['impl'],
                                                        impl_document=first['impl_document'], model=first['model'], expected=first['model_document'],
                                                        theorem='correspondence PV.Workspace <-> pyhf.workspace', detail=tie), nofail=True)
    elif tie and not found_concrete:
        if not search(ctx):
            ctx.violation('tie-broken', tie[:300], dict(kind='tie', detail=tie, theorem='props/C16.v'), nofail=True)

    ctx.coverage.update(
        evaluations=stats['ops'], distinct_nontrivial=len(sigs),
        rule='one evaluation = one pyhf operation (combine / prune / rename / sorted) whose outcome (document or exception class) is '
             'compared with the Coq model and checked against the property rules; non-trivial = any combine, a prune / rename naming at least '
             'one item, a sorted() whose input is not already sorted; distinct by (operation, arguments, input documents)',
        groups=len(groups), corpus=ncorpus, op_counts={k: stats[k] for k in ['combine', 'prune', 'rename', 'sorted']},
        impl_outcomes=stats['outcomes'], model_outcomes=model_stats, combine_by_join=stats['by_join'], pair_kinds=stats['tags'],
        likelihood_checks=stats['lik_evaluated'], disagreements=len(disagree),
        samples=[dict(op=groups[ncorpus]['ops'][0], left_channels=[c['name'] for c in groups[ncorpus]['env']['l']['channels']],
                      right_channels=[c['name'] for c in groups[ncorpus]['env']['r']['channels']], impl=all_results[ncorpus][0]['outcome']),
                 dict(op=groups[ncorpus]['ops'][-1], impl=all_results[ncorpus][-1]['outcome'])] if len(groups) > ncorpus else [])


def report(ctx, g, op, res, sig, what, extra):
    used = [op['l'], op['r']] if op['op'] == 'combine' else [op['w']] + ([op['base']] if 'base' in op else [])
    env = {k: g['env'][k] for k in dict.fromkeys(used)}
    # shrink while the same signature is still produced
    def still(trial_env):
        r2 = run_op(op, trial_env)
        return any(s == sig for s, _, _ in check_properties(op, trial_env, r2, True))
    if not any(v[0] == sig for v in ctx.violations):
        try:
            small = shrink(dict(env=env), op, still)
            r2 = run_op(op, small)
            if any(s == sig for s, _, _ in check_properties(op, small, r2, True)):
                env, res = small, r2
        except Exception:
            pass
    ctx.violation(sig, what, dict(kind='op', env=env, op=op, impl=res['outcome'], impl_document=res['out'], impl_message=res.get('msg'),
                                  expected=extra, theorem='C16 property rules (harness check_properties) / props/C16.v'))


def search(ctx):
    """targeted sweep on the implementation alone (used when only the proof/translation tie is broken)"""
    rng = ctx.rng
    found = False
    for _ in range(60):
        g = make_group(rng, True)
        for op in g['ops']:
            res = run_op(op, g['env'])
            for sig, what, extra in check_properties(op, g['env'], res, False):
                report(ctx, g, op, res, sig, what, extra)
                found = True
    return found


def replay(body):
    if body.get('kind') != 'op':
        print(body.get('detail'))
        return 0
    res = run_op(body['op'], body['env'])
    print(json.dumps(dict(outcome=res['outcome'], message=res.get('msg'), document=res['out'], mutated=res['mutated'], valid=res['valid']), indent=1))
    for sig, what, extra in check_properties(body['op'], body['env'], res, True):
        print('property check fails: %s: %s' % (sig, what))
    return 0
