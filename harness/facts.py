"""Fail-closed extraction of small fact tables from the pyhf sources (python ast -> Gallina text).
Each extractor returns Coq text for coq/gen/Facts<Cxx>.v ; anything it does not recognise raises TieBroken."""
import ast
import os

from harness import core


class TieBroken(Exception):
    pass


def parse(rel):
    path = os.path.join(core.SRC, rel)
    try:
        return ast.parse(open(path).read()), path
    except (OSError, SyntaxError) as e:
        raise TieBroken('cannot parse %s: %s' % (rel, e))


def find_class(tree, name):
    for n in tree.body:
        if isinstance(n, ast.ClassDef) and n.name == name:
            return n
    raise TieBroken('class %s not found' % name)


def find_func(node, name):
    for n in node.body:
        if isinstance(n, (ast.FunctionDef,)) and n.name == name:
            return n
    raise TieBroken('function %s not found' % name)


def coq_strlist(xs):
    return '[' + '; '.join(core.cstr(x) for x in xs) + ']%string'


HEADER = 'From Coq Require Import String List ZArith.\nImport ListNotations.\n'


def write_gen(name, text):
    core.write_if_changed(os.path.join(core.COQ, 'gen', name + '.v'), HEADER + text)


def kw(call, name):
    for k in call.keywords:
        if k.arg == name:
            return k.value
    return None
