"""Shared machinery of the checks: Coq build, case evaluation inside Coq, evidence,
replays, known findings.  Everything runs against /repo's current working tree."""
import fcntl
import hashlib
import json
import os
import random
import re
import random
import shutil
import subprocess
import sys
import time
from fractions import Fraction

VERIF = os.path.dirname(os.path.dirname(os.path.abspath(__file__)))
REPO = os.environ.get('VERIF_REPO', '/repo')
SRC = os.path.join(REPO, 'src', 'pyhf')
COQ = os.path.join(VERIF, 'coq')
WORK = os.path.join(VERIF, '.work')
_SUF = os.environ.get('VERIF_WORK_SUFFIX', '')
if _SUF:
    # scratch run against a modified tree (seed tests): private copy of the Coq development, so that the files
    # regenerated from the modified source (coq/gen) and their .vo never mix with the ones built from /repo
    COQ = os.path.join(WORK, 'coq' + _SUF)
    os.makedirs(WORK, exist_ok=True)
    with open(os.path.join(VERIF, '.lock'), 'w') as _lf:      # not while a make of the main copy is writing .vo files
        fcntl.flock(_lf, fcntl.LOCK_EX)
        subprocess.run(['rsync', '-a', '--delete', os.path.join(VERIF, 'coq') + '/', COQ + '/'], check=True)
        fcntl.flock(_lf, fcntl.LOCK_UN)
REPLAYS = os.path.join(VERIF, 'replays')
EVID = os.path.join(VERIF, 'evidence')
NCPU = os.cpu_count() or 4

FORBIDDEN = re.compile(
    r'\b(Admitted|admit|Axiom|Axioms|Parameter|Parameters|Conjecture|Admit Obligations|'
    r'bypass_check|native_compute)\b|Unset\s+Guard|Unset\s+Positivity|Unset\s+Universe|type-in-type'
)

GLOBAL_TRUSTED = [
    'Coq 8.16.1 kernel incl. its VM (vm_compute); no native_compute',
    'harness: generators, exact float->rational conversion, exception->enum map, parsing of Coq output',
]


# ----------------------------------------------------------------------------------------
class Ctx:
    def __init__(self, pid, tier):
        self.pid = pid
        self.tier = tier
        self.seed = int(os.environ.get('VERIF_SEED', '0') or 0)
        self.rng = random.Random(self.seed * 1000003 + int(pid[1:]))
        self.t0 = time.time()
        self.work = os.path.join(WORK, pid + os.environ.get('VERIF_WORK_SUFFIX', ''))
        shutil.rmtree(self.work, ignore_errors=True)
        os.makedirs(self.work, exist_ok=True)
        os.makedirs(REPLAYS, exist_ok=True)
        os.makedirs(EVID, exist_ok=True)
        self.violations = []      # (signature, replay path, nofail)
        self.known_hits = []
        self.coverage = {'samples': []}
        self.assumptions = []
        self.trusted = list(GLOBAL_TRUSTED)
        self.obligations = 0
        self.discharged = 0
        self.checker_cmds = []
        self.notes = []
        self.known = load_known()

    @property
    def quick(self):
        return self.tier == 'quick'

    def n(self, quick, thorough):
        return quick if self.quick else thorough

    def log(self, *a):
        print('[%s %6.1fs]' % (self.pid, time.time() - self.t0), *a, flush=True)

    # ---- violations ---------------------------------------------------------------------
    def violation(self, signature, what, replay, nofail=False):
        """signature: stable short string identifying the *kind and place* of failure, used for
        known-findings matching.  replay: json-able dict with the concrete input/history."""
        for k in self.known:
            if k.get('status') == 'open' and k['property'] == self.pid and k['signature'] == signature:
                if signature not in [s for s, _ in self.known_hits]:
                    self.known_hits.append((signature, k['what']))
                return
        if any(v[0] == signature for v in self.violations):
            return
        body = dict(property=self.pid, signature=signature, what=what, seed=self.seed,
                    tier=self.tier, no_failing_input_found=bool(nofail))
        body.update(replay)
        h = hashlib.sha1(json.dumps(body, sort_keys=True, default=str).encode()).hexdigest()[:12]
        path = os.path.join(REPLAYS, '%s-%s.json' % (self.pid, h))
        with open(path, 'w') as f:
            json.dump(body, f, indent=1, sort_keys=True, default=str)
        self.violations.append((signature, path, nofail, what))

    # ---- finish -------------------------------------------------------------------------
    def finish(self, level='proof'):
        cov = self.coverage
        cov.setdefault('obligations', self.obligations)
        cov.setdefault('discharged', self.discharged)
        cov.setdefault('checker_cmd', ' ; '.join(self.checker_cmds) or 'none')
        cov.setdefault('trusted_base', self.trusted)
        cov.setdefault('evaluations', 0)
        cov.setdefault('distinct_nontrivial', 0)
        cov.setdefault('rule', '')
        if not cov['samples']:
            cov['samples'] = ['(none)']
        cov['samples'] = cov['samples'][:6]
        ev = dict(property_id=self.pid, tier=self.tier, seed=self.seed, level=level, coverage=cov,
                  assumptions=self.assumptions, wall_s=round(time.time() - self.t0, 2),
                  violations=len(self.violations), notes=self.notes,
                  known_findings_hit=[s for s, _ in self.known_hits])
        evpath = os.path.join(EVID, self.pid + '.json')
        if os.environ.get('VERIF_WORK_SUFFIX'):          # scratch run against a modified tree: keep the real evidence
            evpath = os.path.join(self.work, 'evidence.json')
        with open(evpath, 'w') as f:
            json.dump(ev, f, indent=1, default=str)
        for sig, what in self.known_hits:
            print('KNOWN-FINDING: property=%s %s [%s]' % (self.pid, what, sig))
        for sig, path, nofail, what in self.violations:
            print('  violation detail: %s: %s' % (sig, what))
            print('VIOLATION property=%s replay=%s%s' % (self.pid, path, ' no-failing-input-found' if nofail else ''))
        sys.stdout.flush()
        return 1 if self.violations else 0


def load_known():
    p = os.path.join(VERIF, 'known_findings.json')
    if not os.path.exists(p):
        return []
    return json.load(open(p))['findings']


# ----------------------------------------------------------------------------------------
# Coq build
class Lock:
    def __init__(self, name='.lock'):
        self.path = os.path.join(VERIF, name + _SUF)

    def __enter__(self):
        self.f = open(self.path, 'w')
        fcntl.flock(self.f, fcntl.LOCK_EX)

    def __exit__(self, *a):
        fcntl.flock(self.f, fcntl.LOCK_UN)
        self.f.close()


def all_v_files():
    out = []
    for root, _, files in os.walk(COQ):
        for fn in sorted(files):
            if fn.endswith('.v'):
                out.append(os.path.relpath(os.path.join(root, fn), COQ))
    return sorted(out)


def write_if_changed(path, text):
    os.makedirs(os.path.dirname(path), exist_ok=True)
    if os.path.exists(path) and open(path).read() == text:
        return False
    with open(path, 'w') as f:
        f.write(text)
    return True


def scan_forbidden(files=None):
    bad = []
    for rel in (files or all_v_files()):
        txt = open(os.path.join(COQ, rel)).read()
        # strip comments (non-nested is enough for our sources; nested handled by loop)
        prev = None
        while prev != txt:
            prev = txt
            txt = re.sub(r'\(\*(?:(?!\(\*|\*\)).)*\*\)', ' ', txt, flags=re.S)
        for m in FORBIDDEN.finditer(txt):
            bad.append((rel, m.group(0)))
        # Variable / Hypothesis outside a Section
        depth = 0
        for line in txt.split('\n'):
            s = line.strip()
            if re.match(r'(Section|Module)\s+\w+', s) and not re.match(r'Module\s+(Import|Export)', s):
                if s.startswith('Section'):
                    depth += 1
            elif re.match(r'End\s+\w+\s*\.', s) and depth > 0:
                depth -= 1
            elif depth == 0 and re.match(r'(Variables?|Hypothesis|Hypotheses|Context)\b', s):
                bad.append((rel, 'section-less ' + s[:40]))
    return bad


def coq_make(targets, timeout=1500):
    """(Re)generate _CoqProject/Makefile and build the given .vo targets (relative to coq/)."""
    with Lock():
        files = all_v_files()
        proj = '-R . PV\n-arg -w -arg -all\n' + '\n'.join(files) + '\n'
        changed = write_if_changed(os.path.join(COQ, '_CoqProject'), proj)
        if changed or not os.path.exists(os.path.join(COQ, 'Makefile')):
            subprocess.run(['coq_makefile', '-f', '_CoqProject', '-o', 'Makefile'], cwd=COQ,
                           stdout=subprocess.DEVNULL, stderr=subprocess.DEVNULL, check=True)
        t0 = time.time()
        try:
            p = subprocess.run(['timeout', str(timeout), 'make', '-j%d' % NCPU] + list(targets), cwd=COQ,
                               stdout=subprocess.PIPE, stderr=subprocess.STDOUT, text=True)
            out, rc = p.stdout, p.returncode
        except Exception as e:  # pragma: no cover
            out, rc = str(e), 99
        return rc, out, time.time() - t0


def coqc(path, timeout=600, cwd=None):
    """Compile one file against the PV library; returns (rc, stdout+stderr)."""
    p = subprocess.run(['timeout', str(timeout), 'coqc', '-w', '-all', '-R', COQ, 'PV', path],
                       cwd=cwd or os.path.dirname(path), stdout=subprocess.PIPE, stderr=subprocess.STDOUT, text=True)
    return p.returncode, p.stdout


def parse_assumptions(out):
    """Split the stdout of a props file into one block per `Print Assumptions`."""
    blocks = []
    cur = None
    for line in out.split('\n'):
        if line.startswith('Closed under the global context'):
            blocks.append([])
            cur = None
        elif line.startswith('Axioms:'):
            cur = []
            blocks.append(cur)
        elif cur is not None:
            m = re.match(r'^([A-Za-z_][\w\.\']*)\s*(:|$)', line)
            if m:
                cur.append(m.group(1))
            elif line and not line.startswith(' '):
                cur = None
    return blocks


def prove(ctx, extra=(), props=None, timeout=1500):
    """Build props/<pid>.v and its dependencies; record obligations and their assumptions.
    Returns (ok, failure_text)."""
    props = props or 'props/%s.v' % ctx.pid
    bad = scan_forbidden()
    if bad:
        ctx.notes.append('forbidden tokens: %r' % bad[:5])
        return False, 'forbidden tokens in development: %r' % bad[:5]
    src = open(os.path.join(COQ, props)).read()
    thms = re.findall(r'^\s*(?:Theorem|Corollary)\s+([\w\']+)', src, flags=re.M)
    printed = re.findall(r'Print Assumptions\s+([\w\'\.]+)\s*\.', src)
    ctx.obligations += len(thms)
    # dependencies through make (props file itself is always recompiled to capture its output)
    rc, out, dt = coq_make([props[:-2] + '.vo'] + list(extra), timeout=timeout)
    ctx.checker_cmds.append('cd coq && coq_makefile -f _CoqProject -o Makefile && make -j%d %s.vo' % (NCPU, props[:-2]))
    if rc != 0:
        tail = '\n'.join(out.strip().split('\n')[-25:])
        return False, 'make failed (rc=%d):\n%s' % (rc, tail)
    with Lock():
        rc, out = coqc(os.path.join(COQ, props), cwd=COQ)
    ctx.checker_cmds.append('coqc -R coq PV coq/%s  (Print Assumptions output captured)' % props)
    if rc != 0:
        return False, 'coqc %s failed:\n%s' % (props, out[-3000:])
    blocks = parse_assumptions(out)
    if len(blocks) != len(printed):
        return False, 'could not match Print Assumptions output (%d blocks for %d commands)' % (len(blocks), len(printed))
    missing = [t for t in thms if t not in printed]
    if missing:
        return False, 'theorems without Print Assumptions: %r' % missing
    ass = {}
    allowed = ALLOWED_AXIOMS
    for name, bl in zip(printed, blocks):
        ass[name] = bl
        for a in bl:
            if not any(a == x or a.endswith('.' + x) or x.endswith('.' + a) for x in allowed):
                return False, 'theorem %s depends on unexpected axiom %s' % (name, a)
    ctx.discharged += len(thms)
    ctx.coverage['theorems'] = ass
    axs = sorted({a for bl in blocks for a in bl})
    if axs:
        ctx.trusted.append('standard-library axioms used (Print Assumptions): ' + ', '.join(axs))
    else:
        ctx.trusted.append('all property theorems closed under the global context (Print Assumptions)')
    if not ctx.quick and os.environ.get('VERIF_COQCHK', '1') == '1':
        ok, txt = coqchk(ctx, props)
        if not ok:
            return False, txt
    return True, ''


ALLOWED_AXIOMS = [
    'ClassicalDedekindReals.sig_forall_dec', 'ClassicalDedekindReals.sig_not_dec',
    'FunctionalExtensionality.functional_extensionality_dep', 'Classical_Prop.classic',
    'functional_extensionality_dep', 'sig_forall_dec', 'sig_not_dec', 'classic',
    'Eqdep.Eq_rect_eq.eq_rect_eq', 'ProofIrrelevance.proof_irrelevance', 'JMeq.JMeq_eq',
    'ClassicalEpsilon.constructive_indefinite_description', 'Epsilon.epsilon_statement',
    'PropExtensionality.propositional_extensionality', 'ChoiceFacts', 'Raxioms', 'Rdefinitions',
    # primitive ints/floats used by Interval's evaluator (not ours)
    'PrimInt63', 'Uint63', 'PrimFloat', 'FloatAxioms', 'FloatOps', 'Sint63', 'PArray',
]


def pv_closure(props):
    """the PV modules props/<Cxx>.v depends on (transitively), read from coq_makefile's dependency file"""
    deps = {}
    dfile = os.path.join(COQ, '.Makefile.d')
    if os.path.exists(dfile):
        for line in open(dfile):
            if ':' not in line:
                continue
            lhs, rhs = line.split(':', 1)
            tg = [t for t in lhs.split() if t.endswith('.vo')]
            if tg:
                deps[tg[0]] = [d for d in rhs.split() if d.endswith('.vo')]
    seen, todo = [], [props[:-2] + '.vo']
    while todo:
        t = todo.pop()
        if t in seen:
            continue
        seen.append(t)
        todo += deps.get(t, [])
    return ['PV.' + t[:-3].replace('/', '.') for t in seen]


def coqchk(ctx, props):
    """independent re-check (coqchk) of every module of THIS development in the closure of the props file; the installed
    libraries it depends on (Coq stdlib, Coquelicot, Interval, Flocq, ...: Debian packages, part of the trusted base) are loaded
    but not re-checked (-norec) - re-checking them takes the better part of an hour and is not about this development"""
    mods = pv_closure(props)
    cmd = ['timeout', '2400', 'coqchk', '-silent', '-o', '-R', COQ, 'PV']
    for m in mods:
        cmd += ['-norec', m]
    t0 = time.time()
    p = subprocess.run(cmd, cwd=COQ, stdout=subprocess.PIPE, stderr=subprocess.STDOUT, text=True)
    ctx.checker_cmds.append('coqchk -silent -o -R coq PV ' + ' '.join('-norec ' + m for m in mods))
    tail = p.stdout[-2500:]
    ctx.coverage['coqchk'] = dict(rc=p.returncode, wall_s=round(time.time() - t0, 1), modules=len(mods), tail=tail)
    if p.returncode == 124:
        # a time-out is not a failed proof: the kernel (coqc) has accepted every file; say so instead of raising an alarm
        ctx.notes.append('coqchk did not finish within its time limit; the obligations were checked by coqc only')
        return True, ''
    if p.returncode != 0:
        return False, 'coqchk failed: ' + tail
    return True, ''


# ----------------------------------------------------------------------------------------
# evaluating the model inside Coq
def frac(x):
    """exact rational of a python number (float -> dyadic)."""
    if isinstance(x, bool):
        return Fraction(int(x))
    if isinstance(x, int):
        return Fraction(x)
    if isinstance(x, Fraction):
        return x
    x = float(x)
    if x != x or x in (float('inf'), float('-inf')):
        raise ValueError('non-finite value cannot be passed to the exact model: %r' % x)
    return Fraction(*x.as_integer_ratio())


def q(x):
    """Coq Qc literal for an exact rational:  (mkq n d)."""
    f = frac(x)
    return '(mkq (%d) %d)' % (f.numerator, f.denominator)


def qlist(xs):
    return '[' + '; '.join(q(x) for x in xs) + ']'


def cstr(s):
    assert all(32 <= ord(c) < 127 for c in s), 'non-ascii string in generated case'
    return '"' + s.replace('"', '""') + '"'


def clist(xs, f=str):
    return '[' + '; '.join(f(x) for x in xs) + ']'


def cbool(b):
    return 'true' if b else 'false'


def coq_eval(ctx, name, header, exprs, shard=300, timeout=900, scope='', jobs=None):
    """Evaluate each Coq expression (a string) with vm_compute; returns list of result strings
    (one per expr, whitespace-normalised) or raises CoqEvalError.  exprs are sharded into files."""
    exprs = list(exprs)
    if not exprs:
        return []
    d = os.path.join(ctx.work, name)
    os.makedirs(d, exist_ok=True)
    files = []
    for k in range(0, len(exprs), shard):
        fn = os.path.join(d, 'cases_%s_%d.v' % (name, k // shard))
        with open(fn, 'w') as f:
            f.write(header + '\n')
            for i, e in enumerate(exprs[k:k + shard]):
                f.write('Definition case_%d := %s.\n' % (i, e))
                f.write('Eval vm_compute in (MARK%s, case_%d).\n' % ('', i))
        files.append(fn)
    procs = []
    results = []
    jobs = jobs or NCPU
    outs = {}
    pending = list(files)
    running = []
    while pending or running:
        while pending and len(running) < jobs:
            fn = pending.pop(0)
            pr = subprocess.Popen(['timeout', str(timeout), 'coqc', '-w', '-all', '-R', COQ, 'PV', fn], cwd=d,
                                  stdout=subprocess.PIPE, stderr=subprocess.STDOUT, text=True)
            running.append((fn, pr))
        fn, pr = running.pop(0)
        out, _ = pr.communicate()
        outs[fn] = (pr.returncode, out)
    for fn in files:
        rc, out = outs[fn]
        if rc != 0:
            raise CoqEvalError('coqc failed on %s (rc=%d):\n%s' % (fn, rc, out[-3000:]))
        parts = re.split(r'^\s*=\s*\(MARK,', out, flags=re.M)[1:]
        for ptxt in parts:
            # strip trailing "  : type"
            body = ptxt
            m = re.search(r'\)\s*\n?\s*:\s*(?:unit|Marker)\s*\*', body)
            if m:
                body = body[:m.start()]
            else:
                body = body.rsplit(')', 1)[0]
            results.append(' '.join(body.split()))
    if len(results) != len(exprs):
        raise CoqEvalError('expected %d results, parsed %d' % (len(exprs), len(results)))
    return results


class CoqEvalError(Exception):
    pass


def parse_qc(s):
    """parse printed (n, d) pairs produced by `qout` into Fractions: returns nested python lists."""
    s = re.sub(r'%\w+', '', s.strip())
    toks = re.findall(r'-?\d+|[\[\]\(\);,]|[A-Za-z_][\w\.]*|"(?:[^"]|"")*"', s)
    pos = [0]

    def val():
        t = toks[pos[0]]
        if t == '[':
            pos[0] += 1
            out = []
            while toks[pos[0]] != ']':
                out.append(val())
                if toks[pos[0]] == ';':
                    pos[0] += 1
            pos[0] += 1
            return out
        if t == '(':
            pos[0] += 1
            out = []
            while toks[pos[0]] != ')':
                out.append(val())
                if toks[pos[0]] == ',':
                    pos[0] += 1
            pos[0] += 1
            return out[0] if len(out) == 1 else tuple(out)
        pos[0] += 1
        if re.fullmatch(r'-?\d+', t):
            return int(t)
        if t.startswith('"'):
            return t[1:-1].replace('""', '"')
        # constructor application: collect args greedily until delimiter
        args = []
        while pos[0] < len(toks) and toks[pos[0]] not in (']', ')', ';', ','):
            args.append(val())
        return (t, *args) if args else t
    v = val()
    return v


def to_frac(v):
    """(n, d) -> Fraction, recursively over lists."""
    if isinstance(v, list):
        return [to_frac(x) for x in v]
    if isinstance(v, tuple) and len(v) == 2 and all(isinstance(x, int) for x in v):
        return Fraction(v[0], v[1])
    return v


def close(a, b, rtol=1e-9, atol=1e-12):
    """exact-rational a (model) vs float b (implementation)."""
    fb = frac(b)
    return abs(a - fb) <= Fraction(atol) + Fraction(rtol) * max(abs(a), abs(fb))


# ----------------------------------------------------------------------------------------
def exc_enum(e):
    """map an exception to a small stable enum string."""
    import pyhf
    t = type(e)
    if isinstance(e, pyhf.exceptions.InvalidSpecification):
        return 'InvalidSpecification'
    if t.__module__.startswith('pyhf.exceptions') or t.__module__ == 'pyhf.exceptions':
        return t.__name__
    return 'Py' + t.__name__


def is_pyhf_exc(name):
    return not name.startswith('Py')
