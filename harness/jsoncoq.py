"""python JSON value -> Coq term of type PV.Json.json"""
from harness import core


def json_to_coq(j):
    if j is None:
        return 'JNull'
    if isinstance(j, bool):
        return '(JBool %s)' % core.cbool(j)
    if isinstance(j, int):
        return '(JNum false %s)' % core.q(j)
    if isinstance(j, float):
        return '(JNum true %s)' % core.q(j)
    if isinstance(j, str):
        return '(JStr %s)' % core.cstr(j)
    if isinstance(j, (list, tuple)):
        return '(JArr %s)' % core.clist(j, json_to_coq)
    if isinstance(j, dict):
        return '(JObj %s)' % core.clist(j.items(), lambda kv: '(%s, %s)' % (core.cstr(kv[0]), json_to_coq(kv[1])))
    raise TypeError(type(j))
