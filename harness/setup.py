"""warm build: regenerate the generated files from /repo and build every .v that currently builds."""
import importlib
import os
import sys

from harness import core


def main():
    # regenerate generated sources (best effort; a failure here is reported by the individual checks)
    for pid in ['c%02d' % i for i in range(1, 21)]:
        try:
            mod = importlib.import_module('harness.props.' + pid)
        except Exception:
            continue
        if hasattr(mod, 'extract'):
            try:
                mod.extract(core.Ctx(pid.upper(), 'quick'))
            except Exception as e:
                print('setup: extraction for %s failed: %s' % (pid, e))
    files = [f for f in core.all_v_files()]
    rc, out, dt = core.coq_make(['-k'] + [f[:-2] + '.vo' for f in files], timeout=3000)
    print(out[-1500:])
    print('setup: warm build rc=%d in %.0fs (failures are reported by the individual checks)' % (rc, dt))
    return 0


if __name__ == '__main__':
    sys.exit(main())
