#!/usr/bin/env python3
"""print a python file without docstrings/blank lines: tools/nodoc.py file [start_line]"""
import ast, sys
src = open(sys.argv[1]).read()
tree = ast.parse(src)
skip = set()
for n in ast.walk(tree):
    if isinstance(n, (ast.FunctionDef, ast.ClassDef, ast.Module, ast.AsyncFunctionDef)) and n.body:
        b = n.body[0]
        if isinstance(b, ast.Expr) and isinstance(b.value, ast.Constant) and isinstance(b.value.value, str):
            skip.update(range(b.lineno, b.end_lineno + 1))
start = int(sys.argv[2]) if len(sys.argv) > 2 else 1
for i, l in enumerate(src.split('\n'), 1):
    if i >= start and i not in skip and l.strip():
        print('%4d %s' % (i, l))
