#!/usr/bin/env python3
"""tools/keep_seed.py <Cxx> <slug> <patch> <demo.py> "<needs>" [test files...]
Confirm a seeded change in a fresh scratch worktree (demo passes without / fails with the change; the given test files
give the same failures with and without it; the check reports a VIOLATION with it) and store it under seeded/<slug>/."""
import json, os, shutil, subprocess, sys, tempfile
pid, slug, patch, demo, needs = sys.argv[1:6]
tests = sys.argv[6:]
wt = tempfile.mkdtemp(prefix='wt-keep-', dir='/tmp'); os.rmdir(wt)
run = lambda cmd, **kw: subprocess.run(cmd, shell=True, capture_output=True, text=True, **kw)
assert run('git -C /repo worktree add -q --detach %s HEAD' % wt).returncode == 0
shutil.copy('/repo/src/pyhf/_version.py', wt + '/src/pyhf/_version.py')
env = 'cd %s && PYTHONPATH=%s/src PYTHONHASHSEED=0 TF_CPP_MIN_LOG_LEVEL=3' % (wt, wt)
shutil.copy(demo, wt + '/demo_seed.py')
res = {}
try:
    d0 = run('%s timeout 900 /venv/bin/python demo_seed.py' % env)
    t0 = run('%s timeout 3000 /venv/bin/python -m pytest -q -p no:cacheprovider --continue-on-collection-errors -W ignore:CUDA:UserWarning -n 6 %s 2>&1 | grep -E "^(FAILED|ERROR)" | sort' % (env, ' '.join(tests))) if tests else None
    a = run('git -C %s apply %s' % (wt, os.path.abspath(patch)))
    assert a.returncode == 0, 'patch does not apply: ' + a.stderr
    d1 = run('%s timeout 900 /venv/bin/python demo_seed.py' % env)
    t1 = run('%s timeout 3000 /venv/bin/python -m pytest -q -p no:cacheprovider --continue-on-collection-errors -W ignore:CUDA:UserWarning -n 6 %s 2>&1 | grep -E "^(FAILED|ERROR)" | sort' % (env, ' '.join(tests))) if tests else None
    res['demo_without'] = (d0.returncode, d0.stdout.strip()[-300:])
    res['demo_with'] = (d1.returncode, d1.stdout.strip()[-600:])
    res['tests_same_failures'] = (t0.stdout == t1.stdout) if tests else None
    res['new_test_failures'] = sorted(set(t1.stdout.split('\n')) - set(t0.stdout.split('\n')))[:10] if tests else []
finally:
    run('git -C /repo worktree remove --force %s' % wt)
chk = run('cd /verif && tools/seedtest.sh %s %s' % (os.path.abspath(patch), pid))
viol = [l for l in chk.stdout.split('\n') if 'VIOLATION' in l or 'violation detail' in l]
res['check'] = viol[:4] + [l for l in chk.stdout.split('\n') if l.startswith('exit=')]
ok = res['demo_without'][0] == 0 and res['demo_with'][0] != 0 and res['tests_same_failures'] in (True, None)
print(json.dumps(res, indent=1))
if ok:
    os.makedirs('/verif/seeded/' + slug, exist_ok=True)
    shutil.copy(patch, '/verif/seeded/%s/patch.diff' % slug)
    shutil.copy(demo, '/verif/seeded/%s/demo.py' % slug)
    json.dump(dict(property=pid, origin='independent sub-agent (property text + scratch worktree only)', needs=needs,
                   ran=dict(demo_without_change=res['demo_without'], demo_with_change=res['demo_with'], tests=tests,
                            tests_same_failures_with_and_without=res['tests_same_failures']),
                   check_result=res['check'], caught=any('VIOLATION' in l for l in viol)),
              open('/verif/seeded/%s/meta.json' % slug, 'w'), indent=1)
    print('KEPT', slug, 'caught=%s' % any('VIOLATION' in l for l in viol))
else:
    print('NOT KEPT')
