#!/usr/bin/env python3
"""tools/seed_prompt.py <Cxx> <tag> : create scratch worktree /tmp/wt-<Cxx>-<tag> of /repo HEAD and print the sub-agent prompt."""
import json, subprocess, sys, shutil
pid, tag = sys.argv[1], sys.argv[2]
wt = '/tmp/wt-%s-%s' % (pid, tag)
subprocess.run('git -C /repo worktree add -q --detach %s HEAD' % wt, shell=True, check=True)
shutil.copy('/repo/src/pyhf/_version.py', wt + '/src/pyhf/_version.py')
p = [json.loads(l) for l in open('/verif/properties.jsonl') if json.loads(l)['id'] == pid][0]
txt = open('/verif/tools/prompts/seed.md').read()
extra = sys.argv[3] if len(sys.argv) > 3 else ''
print(txt)
print('\nYour worktree: %s   (already created; `git -C %s status` works)\n' % (wt, wt))
print('THE PROPERTY (%s): %s\n\nStatement: %s\n\nQuantified over: %s\n\nWhy tests cannot settle it: %s\n\nAnchored in: %s\n' % (
    pid, p['title'], p['statement'], p['quantifier']['text'], p['why_tests_cant'], json.dumps(p['anchors'])))
if extra:
    print(extra)
