#!/venv/bin/python
"""tools/baseline_compare.py <junit.xml> : every test in BASELINE.json stable_pass must pass."""
import json, sys, xml.etree.ElementTree as ET
stable = set(json.load(open('/root/.vp/BASELINE.json'))['stable_pass'])
res = {}
for tc in ET.parse(sys.argv[1]).iter('testcase'):
    st = 'pass'
    for ch in tc:
        if ch.tag in ('failure', 'error'):
            st = 'fail'
        if ch.tag == 'skipped':
            st = 'skip'
    res[tc.get('classname') + '::' + tc.get('name')] = st
bad = sorted(n for n in stable if res.get(n) != 'pass')
print('stable=%d not-passing=%d' % (len(stable), len(bad)))
for n in bad[:40]:
    print(' ', n, res.get(n))
sys.exit(1 if bad else 0)
