#!/usr/bin/env python3
"""regenerate MANIFEST.json from the entries below; properties without a harness module are listed not_applicable (work in progress)."""
import json, os
V = os.path.dirname(os.path.dirname(os.path.abspath(__file__)))
E = json.load(open(os.path.join(V, 'tools', 'manifest_entries.json')))
ids = [json.loads(l)['id'] for l in open(os.path.join(V, 'properties.jsonl'))]
checks = []
for i in ids:
    if i in E and os.path.exists(os.path.join(V, 'harness', 'props', i.lower() + '.py')) and os.path.exists(os.path.join(V, 'coq', 'props', i + '.v')):
        e = E[i]
        checks.append({
            'property_id': i, 'quick_cmd': './check %s quick' % i, 'thorough_cmd': './check %s thorough' % i,
            'evidence_file': 'evidence/%s.json' % i, 'replay_cmd_template': './check replay {path}', 'engine': 'coq-pv',
            'level_claimed': {'category': 'proof', 'text': e['text'], 'design_ref': 'DESIGN.md section 5, ' + i},
            'level_note': e['note'], 'technique': e.get('technique', 'machine-checked proof in Coq + correspondence (model executed by vm_compute) against the implementation')})
claimed = [c['property_id'] for c in checks]
m = {
 'version': 1, 'setup_cmd': './setup.sh',
 'hooks': {'guard': 'PYHF_VERIF', 'enable': 'no source hooks are needed: every observation point is public API or harness-side monkeypatching; ./check exports PYHF_VERIF=1 for uniformity',
           'baseline_off_cmd': 'cd /repo && env -u PYHF_VERIF /venv/bin/python -m pytest -ra -q -p no:cacheprovider --timeout=900 --continue-on-collection-errors',
           'source_commits': [], 'add_only': True},
 'engines': [
  {'name': 'coq-pv', 'path': 'coq/', 'serves_properties': claimed, 'kind_free_text': 'Coq 8.16.1 development (library PV): hand-written executable models + theorems; generated fact/translation files under coq/gen are rebuilt from /repo on every run'},
  {'name': 'harness', 'path': 'harness/', 'serves_properties': claimed, 'kind_free_text': 'python: extraction/translation from source, generators, implementation drivers, Coq evaluation of the model (vm_compute / interval), diff, search, evidence'}],
 'checks': checks,
 'not_applicable': [{'property_id': i, 'reason': 'check not built yet (work in progress; the technique applies, see DESIGN.md)'} for i in ids if i not in claimed],
 'notes': 'fix: commits in /repo and open findings are recorded in known_findings.json; seeded changes under seeded/.'}
json.dump(m, open(os.path.join(V, 'MANIFEST.json'), 'w'), indent=1)
print('claimed:', claimed)
