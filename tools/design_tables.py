#!/usr/bin/env python3
"""tools/design_tables.py : regenerate the generated tables of DESIGN.md (between the SEEDS and FINDINGS markers)
from seeded/*/meta.json and known_findings.json."""
import json, os, re, glob
V = os.path.dirname(os.path.dirname(os.path.abspath(__file__)))
rows = []
for d in sorted(glob.glob(os.path.join(V, 'seeded', '*'))):
    mp = os.path.join(d, 'meta.json')
    if not os.path.exists(mp):
        continue
    m = json.load(open(mp))
    res = m.get('check_result') or []
    sig = ''
    for l in res:
        mm = re.search(r'violation detail: ([^ ]+?): ', l)
        if mm:
            sig = mm.group(1); break
    nofail = any('no-failing-input-found' in l for l in res)
    caught = m.get('caught')
    origin = 'sub-agent' if 'sub-agent' in m.get('origin', '') else 'reverse of fix'
    by = m.get('caught_by') or m['property']
    rows.append('| %s | %s | %s | %s | %s | %s |' % (
        os.path.basename(d), m['property'], origin, (m.get('needs') or '').replace('|', '/')[:150],
        ('yes' if caught else 'NO') + (' (no-failing-input-found)' if nofail else ''),
        (('`./check %s quick`: `%s`' % (by, sig)) if caught else (m.get('why_missed') or '')) + (' — ' + m['note'] if m.get('note') else '')))
seeds = ('| seeded change | breaks | origin | needs, to manifest | caught | by check / violation signature |\n|---|---|---|---|---|---|\n'
         + '\n'.join(rows) + '\n')
k = json.load(open(os.path.join(V, 'known_findings.json')))['findings']
frows = []
for f in k:
    frows.append('| %s | %s | %s | `%s` | %s |' % (f['property'], f['status'], f.get('commit', ''), f['signature'], f['what'].replace('|', '/')[:260]))
finds = '| property | status | fix commit | signature | what failed on the pinned tree |\n|---|---|---|---|---|\n' + '\n'.join(frows) + '\n'
p = os.path.join(V, 'DESIGN.md')
s = open(p).read()
for tag, txt in (('SEEDS', seeds), ('FINDINGS', finds)):
    s = re.sub(r'(<!-- %s:BEGIN -->\n).*?(<!-- %s:END -->)' % (tag, tag), lambda m: m.group(1) + txt + m.group(2), s, flags=re.S)
open(p, 'w').write(s)
print('seeds: %d  (caught %d)   findings: %d' % (len(rows), sum('| yes' in r for r in rows), len(frows)))
