#!/usr/bin/env python3
"""tools/seed_regress.py [-j N] [slug-prefix ...] : run the registered quick check of every kept seed against a scratch
worktree with the seed applied (tools/seedtest.sh), record the outcome in seeded/<slug>/meta.json (check_result, caught,
checked_at = /verif commit) and regenerate the DESIGN.md tables."""
import json, os, subprocess, sys, glob, concurrent.futures as cf
V = os.path.dirname(os.path.dirname(os.path.abspath(__file__)))
args = sys.argv[1:]
j = 3
if args[:1] == ['-j']:
    j = int(args[1]); args = args[2:]
head = subprocess.run('git -C %s rev-parse --short HEAD' % V, shell=True, capture_output=True, text=True).stdout.strip()
dirs = [d for d in sorted(glob.glob(os.path.join(V, 'seeded', '*'))) if os.path.exists(d + '/meta.json')
        and (not args or any(os.path.basename(d).startswith(a) for a in args))]
def one(d):
    m = json.load(open(d + '/meta.json'))
    pid = m.get('caught_by') or m['property']
    r = subprocess.run([V + '/tools/seedtest.sh', d + '/patch.diff', pid], capture_output=True, text=True)
    lines = [l for l in r.stdout.split('\n') if l.strip()]
    viol = [l for l in lines if 'VIOLATION' in l or 'violation detail' in l][:4]
    m['check_result'] = viol + [l for l in lines if l.startswith('exit=')]
    m['caught'] = any('VIOLATION' in l for l in viol)
    m['checked_at'] = head
    json.dump(m, open(d + '/meta.json', 'w'), indent=1)
    return os.path.basename(d), m['caught'], (viol[:1] or lines[-1:])
with cf.ThreadPoolExecutor(j) as ex:
    for slug, caught, info in ex.map(one, dirs):
        print('%-45s %s  %s' % (slug, 'CAUGHT' if caught else 'MISSED', info[0][:160] if info else ''), flush=True)
subprocess.run([sys.executable, V + '/tools/design_tables.py'])
