#!/bin/bash
# tools/seedtest.sh <patch.diff> <Cxx> [tier]
# Apply a seeded change to a scratch worktree of /repo (never to /repo itself), run the check against it
# (VERIF_REPO), remove the worktree.  Prints the VIOLATION / KNOWN-FINDING lines and the exit code.
p=$(readlink -f "$1"); id=$2; tier=${3:-quick}
wt=$(mktemp -d /tmp/wt-seed-XXXXXX); rmdir "$wt"
git -C /repo worktree add -q --detach "$wt" HEAD || exit 2
cp /repo/src/pyhf/_version.py "$wt/src/pyhf/_version.py" 2>/dev/null
if ! git -C "$wt" apply "$p"; then echo "patch does not apply"; git -C /repo worktree remove --force "$wt"; exit 2; fi
log=$(mktemp /tmp/seedtest-XXXXXX.log)
cd /verif && VERIF_REPO="$wt" VERIF_WORK_SUFFIX="-seed$$" ./check "$id" "$tier" > "$log" 2>&1; rc=$?
rm -rf "/verif/.work/coq-seed$$" "/verif/.work/$id-seed$$" "/verif/.lock-seed$$"
git -C /repo worktree remove --force "$wt"
grep -E "VIOLATION|KNOWN-FINDING|violation detail|Traceback|Error" "$log" | head -12
echo "exit=$rc   (full log: $log)"
