(* C15, specification level, part 7: splitting a channel WITH bin-wise parameters.  The channel c0 is cut after its first k
   bins into c1 (bins 0..k-1) and c2 (bins k..); samples, bin-wise data, histosys variations are cut along; every modifier with
   one parameter per bin (shapefactor, shapesys, staterror) on c0 becomes TWO parameters: in c1 it is renamed by r1, in c2 by
   r2, and carries the corresponding half of the data.  Correspondence of the parameter function theta' of the split
   specification with theta of the original (likewise aux' / aux), stated on the components the template reads
   (comp: shapefactor/shapesys component = local bin; staterror component = stat_offset + local bin, computed in the
   respective specification, so a staterror shared with other channels is covered):
     - scalar parameters (normfactor, lumi, normsys, histosys): component 0 unchanged;
     - bin-wise parameters of the OTHER channels: the component read for bin b in sp' = the component read for bin b in sp;
     - bin-wise parameter n of c0: component read by c1 for bin b < k under the name r1 n = component read by c0 for bin b;
                                   component read by c2 for bin b under the name r2 n = component read by c0 for bin k + b.
   Result: main Poisson terms AND constraint terms are a Permutation. *)
From Coq Require Import Bool Arith Lia Permutation Ring Field String List.
Require Import PV.Num PV.Sort PV.Spec PV.Impl PV.Ref PV.RefineMonoid PV.Invariance PV.InvarianceSpec PV.InvarianceRewrite
               PV.InvarianceRename PV.InvarianceSplit PV.InvarianceMore PV.InvarianceMoreImpl.
Import ListNotations.
Local Open Scope list_scope.

(* ------------------------------------------------------------------ permutation toolkit *)
Lemma flat_map_app_perm {A B} (f g : A -> list B) l : Permutation (flat_map (fun x => f x ++ g x) l) (flat_map f l ++ flat_map g l).
Proof. induction l as [|a l IH]; simpl; auto. rewrite IH. rewrite <- !app_assoc. apply Permutation_app_head. rewrite !app_assoc.
  apply Permutation_app_tail. apply Permutation_app_comm. Qed.
Lemma flat_map_perm_pointwise {A B} (f g : A -> list B) l : (forall x, In x l -> Permutation (f x) (g x)) -> Permutation (flat_map f l) (flat_map g l).
Proof. induction l as [|a l IH]; intros H; simpl; auto. apply Permutation_app; [apply H; now left|]. apply IH. intros; apply H; now right. Qed.
Lemma flat_map_swap {A B C} (f : A -> B -> list C) la lb :
  Permutation (flat_map (fun a => flat_map (f a) lb) la) (flat_map (fun b => flat_map (fun a => f a b) la) lb).
Proof. induction la as [|a la IH]; simpl.
  - induction lb; simpl; auto.
  - rewrite IH. symmetry. apply flat_map_app_perm. Qed.
Lemma filter_split_perm {A} (p : A -> bool) l : Permutation l (filter p l ++ filter (fun x => negb (p x)) l).
Proof. induction l as [|a l IH]; simpl; auto. destruct (p a); simpl; [now constructor|]. now apply Permutation_cons_app. Qed.
Lemma flat_map_restrict {C} (f : string -> list C) M Mc : NoDup M -> NoDup Mc -> incl Mc M ->
  (forall n, In n M -> ~ In n Mc -> f n = []) -> Permutation (flat_map f M) (flat_map f Mc).
Proof. intros HM HMc Hi H0. set (p := fun n => if in_dec string_dec n Mc then true else false).
  rewrite (Permutation_flat_map f (filter_split_perm p M)), flat_map_app.
  rewrite (flat_map_nil_in f (filter (fun x => negb (p x)) M)), app_nil_r.
  - apply Permutation_flat_map. apply NoDup_Permutation; auto; [now apply NoDup_filter|]. intros n. rewrite filter_In. unfold p.
    destruct (in_dec string_dec n Mc); split; try tauto; intros; try split; auto; destruct H; discriminate.
  - intros n Hn. apply filter_In in Hn. destruct Hn as [Hn Hp]. apply H0; auto. unfold p in Hp. destruct (in_dec string_dec n Mc); auto. discriminate. Qed.

Section Sd2Map.
  Variable N : Num.
  Lemma sd2_map n n' b b' (F : sample N -> sample N) l :
    (forall s, In s l -> nth b (s_data (F s)) (n0 N) = nth b' (s_data s) (n0 N) /\ stat_unc N (F s) n' b = stat_unc N s n b') ->
    sd2 N n' b (map F l) = sd2 N n b' l.
  Proof. intros H. unfold sd2. rewrite !map_map.
    assert (Et : map (fun x => nth b (s_data (F x)) (n0 N)) l = map (fun s => nth b' (s_data s) (n0 N)) l) by (apply map_ext_in; intros s Hs; now apply H).
    cbv zeta. rewrite Et.
    assert (Ev : forall T, map (fun x => if rpos N T then nmul N (ndiv N (stat_unc N (F x) n' b) T) (ndiv N (stat_unc N (F x) n' b) T) else n0 N) l =
                           map (fun s => if rpos N T then nmul N (ndiv N (stat_unc N s n b') T) (ndiv N (stat_unc N s n b') T) else n0 N) l).
    { intros T. apply map_ext_in. intros s Hs. now rewrite (proj2 (H s Hs)). }
    rewrite Ev. reflexivity. Qed.
  Lemma inj_eqb (r : string -> string) a b : (forall x y, r x = r y -> x = y) -> String.eqb (r a) (r b) = String.eqb a b.
  Proof. intros Hi. destruct (String.eqb a b) eqn:E.
    - apply String.eqb_eq in E. subst. apply String.eqb_refl.
    - apply String.eqb_neq. intros H. apply Hi in H. apply String.eqb_neq in E. contradiction. Qed.
End Sd2Map.

Section SplitBin.
  Variable N : Num.
  Notation V := (V N).
  Notation "0" := (n0 N). Notation "1" := (n1 N).
  Infix "+" := (nadd N). Infix "*" := (nmul N).
  Variable interp_add interp_mul : string -> V -> V -> V -> V -> V.
  Variables ncode hcode : string.
  Variables clip_s clip_b : option V.
  Notation spec := (spec N). Notation channel := (channel N). Notation sample := (sample N). Notation modifier := (modifier N).
  Notation mfac := (mod_factor N interp_mul ncode).
  Notation mdel := (mod_delta N interp_add hcode).
  Notation srate := (sample_rate N interp_add interp_mul ncode hcode clip_s).
  Notation rrate := (ref_rate N interp_add interp_mul ncode hcode clip_s clip_b).
  Notation rmain := (ref_main_terms N interp_add interp_mul ncode hcode clip_s clip_b).
  Notation rterms := (ref_terms N interp_add interp_mul ncode hcode clip_s clip_b).

  Variable k : nat.
  Variables r1 r2 : string -> string.
  Definition binwise (m : modifier) : bool := negb (scalar_type (m_type m)).
  Definition cutren (cut : list V -> list V) (r : string -> string) (m : modifier) : modifier :=
    {| m_name := if binwise m then r (m_name m) else m_name m; m_type := m_type m;
       m_data := match m_data m with MDHisto lo hi => MDHisto (cut lo) (cut hi) | MDList l => MDList (cut l) | d => d end |}.
  Definition cutren_sample (cut : list V -> list V) (r : string -> string) (s : sample) : sample :=
    {| s_name := s_name s; s_data := cut (s_data s); s_mods := map (cutren cut r) (s_mods s) |}.
  Definition cutren_channel (cut : list V -> list V) (r : string -> string) (name : string) (c : channel) : channel :=
    {| c_name := name; c_samples := map (cutren_sample cut r) (c_samples c) |}.

  (* a modifier's factor as a function of the one component it reads *)
  Definition fac_of_val (m : modifier) (v : V) : V :=
    match m_type m with
    | Normsys => match m_data m with MDNorm lo hi => interp_mul ncode lo 1 hi v | _ => 1 end
    | Histosys => 1
    | _ => v end.
  Lemma mfac_val (sp0 : spec) theta c s m b : mfac sp0 theta c s m b = fac_of_val m (theta (m_name m) (comp N sp0 c m b)).
  Proof. unfold mod_factor, fac_of_val, comp. destruct (m_type m); reflexivity. Qed.
  Lemma fac_cutren cut r m v : fac_of_val (cutren cut r m) v = fac_of_val m v.
  Proof. unfold fac_of_val. cbn [cutren m_type m_data]. destruct (m_type m); auto. destruct (m_data m); auto. Qed.

  Variable sp : spec.
  Variables pre post : list channel.
  Variable c0 : channel.
  Variables n1 n2 : string.
  Hypothesis Hch : channels sp = pre ++ c0 :: post.
  Hypothesis Hk : k <= chan_nbins N c0.
  Let c1 := cutren_channel (firstn k) r1 n1 c0.
  Let c2 := cutren_channel (skipn k) r2 n2 c0.
  Let sp' := with_channels sp (pre ++ c1 :: c2 :: post).

  Lemma bnbins_left : chan_nbins N c1 = k.
  Proof. unfold chan_nbins, c1, cutren_channel. cbn [c_samples]. unfold chan_nbins in Hk. destruct (c_samples c0) as [|s t] eqn:E; cbn [map].
    - lia. - cbn [cutren_sample s_data]. rewrite firstn_length. lia. Qed.
  Lemma bnbins_right : chan_nbins N c2 = chan_nbins N c0 - k.
  Proof. unfold chan_nbins, c2, cutren_channel. cbn [c_samples]. destruct (c_samples c0) as [|s t] eqn:E; cbn [map]; auto.
    cbn [cutren_sample s_data]. now rewrite skipn_length. Qed.

  (* the correspondence between two name-indexed functions (used for theta'/theta and for aux'/aux) *)
  Definition split_corr (f' f : string -> nat -> V) : Prop :=
    (forall c s m, In c (channels sp) -> In s (c_samples c) -> In m (s_mods s) -> binwise m = false -> f' (m_name m) O = f (m_name m) O) /\
    (forall c s m b, In c (pre ++ post) -> In s (c_samples c) -> In m (s_mods s) -> binwise m = true -> b < chan_nbins N c ->
       f' (m_name m) (comp N sp' c m b) = f (m_name m) (comp N sp c m b)) /\
    (forall s m b, In s (c_samples c0) -> In m (s_mods s) -> binwise m = true -> b < k ->
       f' (r1 (m_name m)) (comp N sp' c1 (cutren (firstn k) r1 m) b) = f (m_name m) (comp N sp c0 m b)) /\
    (forall s m b, In s (c_samples c0) -> In m (s_mods s) -> binwise m = true -> b < chan_nbins N c0 - k ->
       f' (r2 (m_name m)) (comp N sp' c2 (cutren (skipn k) r2 m) b) = f (m_name m) (comp N sp c0 m (k + b)%nat)).

  Lemma c0_in : In c0 (channels sp). Proof. rewrite Hch. apply in_or_app. right. now left. Qed.
  Lemma other_in c : In c (pre ++ post) -> In c (channels sp).
  Proof. rewrite Hch. intros H. apply in_app_or in H. apply in_or_app. destruct H; auto. right. now right. Qed.
  Lemma comp_scalar (sp0 : spec) c m b : binwise m = false -> comp N sp0 c m b = O.
  Proof. unfold binwise, comp. destruct (m_type m); auto; discriminate. Qed.
  Lemma comp_cutren_scalar (sp0 : spec) c cut r m b : binwise m = false -> comp N sp0 c (cutren cut r m) b = O.
  Proof. unfold binwise, comp. cbn [cutren m_type]. destruct (m_type m); auto; discriminate. Qed.

  Variables theta theta' : string -> nat -> V.
  Hypothesis HT : split_corr theta' theta.

  (* what a part reads = what the original channel reads for the corresponding bin *)
  Lemma part_read (f' f : string -> nat -> V) cut r name b b' : split_corr f' f ->
    ((cut = firstn k /\ r = r1 /\ name = n1 /\ b' = b /\ b < k) \/ (cut = skipn k /\ r = r2 /\ name = n2 /\ b' = (k + b)%nat /\ b < chan_nbins N c0 - k)) ->
    forall s m, In s (c_samples c0) -> In m (s_mods s) ->
    f' (m_name (cutren cut r m)) (comp N sp' (cutren_channel cut r name c0) (cutren cut r m) b) = f (m_name m) (comp N sp c0 m b').
  Proof. intros [H0 [_ [H2 H3]]] Hcase s m Hs Hm. cbn [cutren m_name]. destruct (binwise m) eqn:Eb.
    - destruct Hcase as [[-> [-> [-> [-> Hb]]]]|[-> [-> [-> [-> Hb]]]]]; [now apply (H2 s)|now apply (H3 s)].
    - rewrite comp_cutren_scalar, comp_scalar by auto. apply (H0 c0 s m); auto. apply c0_in. Qed.

  Lemma cutren_rate cut r name b b' :
    (forall l : list V, nth b (cut l) 0 = nth b' l 0) ->
    (forall s m, In s (c_samples c0) -> In m (s_mods s) ->
       theta' (m_name (cutren cut r m)) (comp N sp' (cutren_channel cut r name c0) (cutren cut r m) b) = theta (m_name m) (comp N sp c0 m b')) ->
    rrate sp' theta' (cutren_channel cut r name c0) b = rrate sp theta c0 b'.
  Proof. intros Hcut H. unfold ref_rate. f_equal. f_equal. cbn [cutren_channel c_samples]. rewrite map_map. apply map_ext_in. intros s Hs.
    unfold sample_rate. f_equal. cbn [cutren_sample s_mods]. rewrite !map_map. f_equal; [f_equal|f_equal; [apply Hcut|f_equal]].
    - apply map_ext_in. intros m Hm. rewrite !mfac_val, fac_cutren. f_equal. now apply (H s).
    - apply map_ext_in. intros m Hm. specialize (H s m Hs Hm). unfold mod_delta. cbn [cutren m_type m_data]. destruct (m_type m) eqn:E; auto.
      destruct (m_data m); auto. change (s_data (cutren_sample cut r s)) with (cut (s_data s)). rewrite !Hcut. f_equal.
      unfold comp in H. cbn [cutren m_type m_name] in H. unfold binwise in H. rewrite E in H. cbn in H. cbn [cutren m_name]. unfold binwise. rewrite E. cbn. exact H. Qed.
  Lemma other_rate c b : In c (pre ++ post) -> b < chan_nbins N c -> rrate sp' theta' c b = rrate sp theta c b.
  Proof. intros Hc Hb. destruct HT as [H0 [H1 _]]. unfold ref_rate. f_equal. f_equal. apply map_ext_in. intros s Hs. unfold sample_rate. f_equal. f_equal.
    - f_equal. apply map_ext_in. intros m Hm. rewrite !mfac_val. f_equal. destruct (binwise m) eqn:Eb; [now apply (H1 c s)|].
      rewrite !comp_scalar by auto. apply (H0 c s m); auto. now apply other_in.
    - f_equal. f_equal. apply map_ext_in. intros m Hm. unfold mod_delta. destruct (m_type m) eqn:E; auto. destruct (m_data m); auto. f_equal.
      apply (H0 c s m); auto; [now apply other_in|]. unfold binwise. now rewrite E. Qed.

  Variables obs obs' : string -> nat -> V.
  Hypothesis Hobs1 : forall b, obs' n1 b = obs (c_name c0) b.
  Hypothesis Hobs2 : forall b, obs' n2 b = obs (c_name c0) (k + b)%nat.
  Hypothesis Hobs : forall c b, In c (pre ++ post) -> obs' (c_name c) b = obs (c_name c) b.

  Notation blk sp0 th ob := (fun c => map (fun b => TPois (ob (c_name c) b) (rrate sp0 th c b)) (seq 0 (chan_nbins N c))).
  Lemma bother_block c : In c (pre ++ post) -> blk sp' theta' obs' c = blk sp theta obs c.
  Proof. intros Hc. apply map_ext_in. intros b Hb. apply in_seq in Hb. rewrite Hobs by auto. f_equal. apply other_rate; auto. lia. Qed.
  Lemma bsplit_block : blk sp' theta' obs' c1 ++ blk sp' theta' obs' c2 = blk sp theta obs c0.
  Proof. cbv beta. rewrite bnbins_left, bnbins_right.
    assert (E : seq 0 (chan_nbins N c0) = seq 0 k ++ seq (0 + k) (chan_nbins N c0 - k)) by (rewrite <- seq_app; f_equal; lia).
    rewrite E, map_app. f_equal.
    - apply map_ext_in. intros b Hb. apply in_seq in Hb. cbn [c1 cutren_channel c_name]. rewrite Hobs1. f_equal.
      apply cutren_rate; [intros l; apply nth_firstn2; lia|]. apply (part_read theta' theta (firstn k) r1 n1 b b HT). left. repeat split; auto. lia.
    - rewrite (seq_shift2 (0 + k)), map_map. apply map_ext_in. intros b Hb. apply in_seq in Hb. cbn [c2 cutren_channel c_name]. rewrite Hobs2. simpl Nat.add. f_equal.
      apply cutren_rate; [intros l; apply nth_skipn2|]. apply (part_read theta' theta (skipn k) r2 n2 b (k + b)%nat HT). right. repeat split; auto. lia. Qed.

  Theorem split_binwise_main_terms : Permutation (rmain sp' theta' obs') (rmain sp theta obs).
  Proof. unfold ref_main_terms, sorted_channels, ssort.
    rewrite (Permutation_flat_map _ (isort_perm string String.leb _ c_name (channels sp'))).
    rewrite (Permutation_flat_map _ (isort_perm string String.leb _ c_name (channels sp))).
    assert (Epre : flat_map (blk sp' theta' obs') pre = flat_map (blk sp theta obs) pre).
    { apply flat_map_ext_in2. intros c Hc. apply bother_block. apply in_or_app; auto. }
    assert (Epost : flat_map (blk sp' theta' obs') post = flat_map (blk sp theta obs) post).
    { apply flat_map_ext_in2. intros c Hc. apply bother_block. apply in_or_app; auto. }
    assert (E' : channels sp' = pre ++ c1 :: c2 :: post) by reflexivity. rewrite E', Hch. rewrite !flat_map_app. cbn [flat_map].
    rewrite Epre, Epost, <- bsplit_block, <- !app_assoc. reflexivity. Qed.
  (* ---------------------------------------------------------------- constraint terms *)
  Variables aux aux' : string -> nat -> V.
  Hypothesis HA : split_corr aux' aux.
  Hypothesis Hr1 : forall a b, r1 a = r1 b -> a = b.
  Hypothesis Hr2 : forall a b, r2 a = r2 b -> a = b.
  (* the measurement does not override the widths / factors of the bin-wise parameters (nor of the new names) *)
  Hypothesis Hnocfg : forall c s m, In c (channels sp) -> In s (c_samples c) -> In m (s_mods s) -> binwise m = true ->
    user_cfg N sp (m_name m) = None /\ user_cfg N sp (r1 (m_name m)) = None /\ user_cfg N sp (r2 (m_name m)) = None.

  Lemma usig_none n j : user_cfg N sp n = None -> user_sigmas2 N sp' n j = None /\ user_sigmas2 N sp n j = None.
  Proof. intros H. unfold user_sigmas2. change (user_cfg N sp' n) with (user_cfg N sp n). now rewrite H. Qed.
  Lemma ufac_none n j : user_cfg N sp n = None -> user_factor N sp' n j = None /\ user_factor N sp n j = None.
  Proof. intros H. unfold user_factor. change (user_cfg N sp' n) with (user_cfg N sp n). now rewrite H. Qed.

  Lemma names_listed (sp0 : spec) t n : In n (names_with N sp0 t) ->
    exists c s m, In c (channels sp0) /\ In s (c_samples c) /\ In m (s_mods s) /\ m_type m = t /\ m_name m = n.
  Proof. intros H. apply names_with_in in H. destruct H as [c [Hc H]]. destruct (tnames_listed N t c n H) as [s [m H']]. exists c, s, m. tauto. Qed.
  Lemma corr0 (f' f : string -> nat -> V) t n : split_corr f' f -> scalar_type t = true -> In n (names_with N sp t) -> f' n O = f n O.
  Proof. intros [H0 _] Ht Hin. destruct (names_listed sp t n Hin) as (c & s & m & Hc & Hs & Hm & E1 & E2). rewrite <- E2. apply (H0 c s m); auto.
    unfold binwise. now rewrite E1, Ht. Qed.

  (* scalar names are untouched by the cut *)
  Lemma scalar_tnames t cut r name : scalar_type t = true -> chan_tnames N t (cutren_channel cut r name c0) = chan_tnames N t c0.
  Proof. intros Ht. unfold chan_tnames. cbn [cutren_channel c_samples]. rewrite flat_map_map2. apply flat_map_ext. intros s. cbn [cutren_sample s_mods].
    rewrite flat_map_map2. apply flat_map_ext. intros m. cbn [cutren m_type m_name]. destruct (mtype_eqb (m_type m) t) eqn:E; auto.
    apply mtype_eqb_eq in E. unfold binwise. rewrite E, Ht. reflexivity. Qed.
  Lemma scalar_names_iff t n : scalar_type t = true -> In n (names_with N sp' t) <-> In n (names_with N sp t).
  Proof. intros Ht. rewrite !names_with_in. change (channels sp') with (pre ++ c1 :: c2 :: post). rewrite Hch. split; intros [c [Hc Hin]].
    - apply in_app_or in Hc. destruct Hc as [Hc|[<-|[<-|Hc]]].
      + exists c. split; auto. apply in_or_app; auto.
      + exists c0. split; [apply in_or_app; right; now left|]. unfold c1 in Hin. now rewrite scalar_tnames in Hin.
      + exists c0. split; [apply in_or_app; right; now left|]. unfold c2 in Hin. now rewrite scalar_tnames in Hin.
      + exists c. split; auto. apply in_or_app. right. now right.
    - apply in_app_or in Hc. destruct Hc as [Hc|[<-|Hc]].
      + exists c. split; auto. apply in_or_app; auto.
      + exists c1. split; [apply in_or_app; right; now left|]. unfold c1. now rewrite scalar_tnames.
      + exists c. split; auto. apply in_or_app. right. right. now right. Qed.
  Lemma split_alpha : Permutation (ct_alpha N sp' theta' aux') (ct_alpha N sp theta aux).
  Proof. unfold ct_alpha.
    assert (Hiff : forall n, In n (alpha_names N sp') <-> In n (alpha_names N sp)).
    { intros n. unfold alpha_names. rewrite !nodup_In, !in_app_iff, !scalar_names_iff by reflexivity. reflexivity. }
    rewrite (map_ext_in _ (fun n => TNorm (aux n O) (theta n O) 1) (alpha_names N sp')).
    - apply Permutation_map. apply NoDup_Permutation; auto; apply NoDup_nodup.
    - intros n Hn. apply Hiff in Hn. unfold alpha_names in Hn. rewrite nodup_In, in_app_iff in Hn.
      destruct Hn as [Hn|Hn]; [rewrite (corr0 theta' theta Normsys n HT eq_refl Hn), (corr0 aux' aux Normsys n HA eq_refl Hn)|
                               rewrite (corr0 theta' theta Histosys n HT eq_refl Hn), (corr0 aux' aux Histosys n HA eq_refl Hn)]; reflexivity. Qed.
  Lemma split_lumi : Permutation (ct_lumi N sp' theta' aux') (ct_lumi N sp theta aux).
  Proof. unfold ct_lumi.
    rewrite (map_ext_in _ (fun n => TNorm (aux n O) (theta n O) (match user_sigmas2 N sp n O with Some v => v | None => 1 end)) (names_with N sp' Lumi)).
    - apply Permutation_map. apply NoDup_Permutation; try apply NoDup_nodup. intros n. now apply scalar_names_iff.
    - intros n Hn. apply scalar_names_iff in Hn; auto. rewrite (corr0 theta' theta Lumi n HT eq_refl Hn), (corr0 aux' aux Lumi n HA eq_refl Hn). reflexivity. Qed.

  (* the staterror terms, channel by channel *)
  Definition SB (sp0 : spec) (th ax : string -> nat -> V) (c : channel) : list (term N) :=
    flat_map (fun n => stat_block N sp0 th ax n c) (nodup string_dec (chan_tnames N Staterror c)).
  Lemma ct_stat_nf (sp0 : spec) th ax : Permutation (ct_stat N sp0 th ax) (flat_map (SB sp0 th ax) (channels sp0)).
  Proof. unfold ct_stat. etransitivity; [apply (flat_map_swap (fun n c => stat_block N sp0 th ax n c))|].
    unfold sorted_channels, ssort. rewrite (Permutation_flat_map _ (isort_perm string String.leb _ c_name (channels sp0))).
    apply flat_map_perm_pointwise. intros c Hc. unfold SB. apply flat_map_restrict; try apply NoDup_nodup.
    - intros n Hn. apply nodup_In in Hn. apply names_with_in. eauto.
    - intros n _ Hn. unfold stat_block. destruct (chan_has N c n Staterror) eqn:E; auto. exfalso. apply Hn. apply nodup_In.
      destruct (chan_has_listed N c n Staterror E) as (s & m & Hs & Hm & E1 & E2). unfold chan_tnames. apply in_flat_map. exists s. split; auto.
      apply in_flat_map. exists m. split; auto. rewrite E1. cbn. now left. Qed.

  Lemma SB_other c : In c (pre ++ post) -> SB sp' theta' aux' c = SB sp theta aux c.
  Proof. intros Hc. unfold SB. apply flat_map_ext_in2. intros n Hn. unfold stat_block. destruct (chan_has N c n Staterror) eqn:E; auto.
    apply map_ext_in. intros b Hb. apply in_seq in Hb. cbv zeta.
    destruct (chan_has_listed N c n Staterror E) as (s & m & Hs & Hm & E1 & E2).
    assert (Hbw : binwise m = true) by (unfold binwise; now rewrite E1).
    destruct HT as [_ [HT1 _]]. destruct HA as [_ [HA1 _]].
    assert (Ht := HT1 c s m b Hc Hs Hm Hbw ltac:(lia)). assert (Ha := HA1 c s m b Hc Hs Hm Hbw ltac:(lia)). unfold comp in Ht, Ha. rewrite E1, E2 in Ht, Ha.
    rewrite Ht, Ha. destruct (Hnocfg c s m (other_in c Hc) Hs Hm Hbw) as [Hu _]. rewrite E2 in Hu.
    destruct (usig_none n (stat_offset N sp' n c + b) Hu) as [U1 _]. destruct (usig_none n (stat_offset N sp n c + b) Hu) as [_ U2]. now rewrite U1, U2. Qed.

  Lemma key_eq cut r m n : (forall a b, r a = r b -> a = b) ->
    String.eqb (m_name (cutren cut r m)) (r n) && mtype_eqb (m_type (cutren cut r m)) Staterror = String.eqb (m_name m) n && mtype_eqb (m_type m) Staterror.
  Proof. intros Hr. cbn [cutren m_name m_type]. destruct (mtype_eqb (m_type m) Staterror) eqn:E; [|now rewrite !andb_false_r].
    apply mtype_eqb_eq in E. unfold binwise. rewrite E. cbn [scalar_type negb]. now rewrite inj_eqb. Qed.
  Lemma part_has cut r n s : (forall a b, r a = r b -> a = b) -> has_mod N (cutren_sample cut r s) (r n) Staterror = has_mod N s n Staterror.
  Proof. intros Hr. unfold has_mod. cbn [cutren_sample s_mods]. rewrite existsb_map. apply existsb_ext2. intros m. now apply key_eq. Qed.
  Lemma part_chan_has cut r name n : (forall a b, r a = r b -> a = b) -> chan_has N (cutren_channel cut r name c0) (r n) Staterror = chan_has N c0 n Staterror.
  Proof. intros Hr. unfold chan_has. cbn [cutren_channel c_samples]. rewrite existsb_map. apply existsb_ext2. intros s. now apply part_has. Qed.
  Lemma part_stat_unc cut r n s b b' : (forall a b, r a = r b -> a = b) -> (forall l : list V, nth b (cut l) 0 = nth b' l 0) ->
    stat_unc N (cutren_sample cut r s) (r n) b = stat_unc N s n b'.
  Proof. intros Hr Hcut. unfold stat_unc. cbn [cutren_sample s_mods]. rewrite find_map.
    rewrite (find_ext2 _ (fun m => String.eqb (m_name m) n && mtype_eqb (m_type m) Staterror)) by (intros m; now apply key_eq).
    destruct (find _ (s_mods s)) as [m|]; cbn [option_map]; auto. cbn [cutren m_data]. destruct (m_data m); auto. Qed.
  Lemma part_delta2 cut r name n b b' : (forall a b, r a = r b -> a = b) -> (forall l : list V, nth b (cut l) 0 = nth b' l 0) ->
    stat_delta2 N (r n) (cutren_channel cut r name c0) b = stat_delta2 N n c0 b'.
  Proof. intros Hr Hcut. rewrite !stat_delta2_sd2. cbn [cutren_channel c_samples]. rewrite filter_map_comm.
    rewrite (filter_ext2 _ (fun s => has_mod N s n Staterror)) by (intros s; now apply part_has).
    apply sd2_map. intros s _. split; [cbn [cutren_sample s_data]; apply Hcut|now apply part_stat_unc]. Qed.
  Lemma stat_tnames cut r name : chan_tnames N Staterror (cutren_channel cut r name c0) = map r (chan_tnames N Staterror c0).
  Proof. unfold chan_tnames. cbn [cutren_channel c_samples]. rewrite flat_map_map2, map_flat_map2. apply flat_map_ext. intros s. cbn [cutren_sample s_mods].
    rewrite flat_map_map2, map_flat_map2. apply flat_map_ext. intros m. cbn [cutren m_type m_name]. destruct (mtype_eqb (m_type m) Staterror) eqn:E; auto.
    apply mtype_eqb_eq in E. unfold binwise. rewrite E. reflexivity. Qed.
  Lemma SB_part cut r name th ax : (forall a b, r a = r b -> a = b) ->
    SB sp' th ax (cutren_channel cut r name c0) = flat_map (fun n => stat_block N sp' th ax (r n) (cutren_channel cut r name c0)) (nodup string_dec (chan_tnames N Staterror c0)).
  Proof. intros Hr. unfold SB. rewrite stat_tnames, nodup_map_inj by auto. now rewrite flat_map_map2. Qed.

  Lemma SB_parts : Permutation (SB sp' theta' aux' c1 ++ SB sp' theta' aux' c2) (SB sp theta aux c0).
  Proof. unfold c1, c2. rewrite !SB_part by auto. fold c1. fold c2. symmetry. etransitivity; [|apply flat_map_app_perm].
    cut (SB sp theta aux c0 = flat_map (fun n => stat_block N sp' theta' aux' (r1 n) c1 ++ stat_block N sp' theta' aux' (r2 n) c2) (nodup string_dec (chan_tnames N Staterror c0)));
      [intros ->; reflexivity|].
    unfold SB. apply flat_map_ext_in2. intros n Hn. apply nodup_In in Hn. destruct (tnames_listed N Staterror c0 n Hn) as (s & m & Hs & Hm & E1 & E2).
    assert (Hbw : binwise m = true) by (unfold binwise; now rewrite E1).
    assert (Hh : chan_has N c0 n Staterror = true).
    { unfold chan_has. apply existsb_exists. exists s. split; auto. unfold has_mod. apply existsb_exists. exists m. split; auto. rewrite E1, E2, String.eqb_refl. reflexivity. }
    unfold stat_block. unfold c1 at 1, c2 at 1. rewrite !part_chan_has by auto. fold c1. fold c2. rewrite Hh, bnbins_left, bnbins_right.
    assert (E : seq 0 (chan_nbins N c0) = seq 0 k ++ seq (0 + k) (chan_nbins N c0 - k)) by (rewrite <- seq_app; f_equal; lia).
    rewrite E, map_app. destruct (Hnocfg c0 s m c0_in Hs Hm Hbw) as [U0 [U1 U2]]. rewrite E2 in U0, U1, U2.
    assert (D1 : forall b, b < k -> stat_delta2 N (r1 n) c1 b = stat_delta2 N n c0 b).
    { intros b Hb. unfold c1. apply part_delta2; auto. intros l. apply nth_firstn2. lia. }
    assert (D2 : forall b, stat_delta2 N (r2 n) c2 b = stat_delta2 N n c0 (k + b)%nat).
    { intros b. unfold c2. apply part_delta2; auto. intros l. apply nth_skipn2. }
    destruct HT as [_ [_ [HT2 HT3]]]. destruct HA as [_ [_ [HA2 HA3]]]. f_equal.
    - apply map_ext_in. intros b Hb. apply in_seq in Hb. cbv zeta.
      assert (Ht := HT2 s m b Hs Hm Hbw ltac:(lia)). assert (Ha := HA2 s m b Hs Hm Hbw ltac:(lia)).
      unfold comp in Ht, Ha. cbn [cutren m_type m_name] in Ht, Ha. rewrite Hbw, E1, E2 in Ht, Ha. rewrite Ht, Ha.
      destruct (usig_none n (stat_offset N sp n c0 + b) U0) as [_ S0]. destruct (usig_none (r1 n) (stat_offset N sp' (r1 n) c1 + b) U1) as [S1 _]. rewrite S0, S1.
      now rewrite D1 by lia.
    - rewrite (seq_shift2 (0 + k)), map_map. apply map_ext_in. intros b Hb. apply in_seq in Hb. cbv zeta. simpl Nat.add.
      assert (Ht := HT3 s m b Hs Hm Hbw ltac:(lia)). assert (Ha := HA3 s m b Hs Hm Hbw ltac:(lia)).
      unfold comp in Ht, Ha. cbn [cutren m_type m_name] in Ht, Ha. rewrite Hbw, E1, E2 in Ht, Ha. rewrite Ht, Ha.
      destruct (usig_none n (stat_offset N sp n c0 + (k + b)) U0) as [_ S0]. destruct (usig_none (r2 n) (stat_offset N sp' (r2 n) c2 + b) U2) as [S2 _]. rewrite S0, S2.
      now rewrite D2. Qed.

  (* the shapesys terms *)
  Lemma shape_other c : In c (pre ++ post) -> chan_shape_terms N sp' theta' aux' c = chan_shape_terms N sp theta aux c.
  Proof. intros Hc. rewrite !(chan_shape_terms_is N). apply flat_map_ext_in2. intros s Hs. apply flat_map_ext_in2. intros m Hm. unfold mod_shape_terms.
    destruct (m_type m) eqn:E; auto. destruct (m_data m); auto. apply map_ext_in. intros b Hb. apply in_seq in Hb.
    assert (Hbw : binwise m = true) by (unfold binwise; now rewrite E).
    destruct HT as [_ [HT1 _]]. destruct HA as [_ [HA1 _]].
    assert (Ht := HT1 c s m b Hc Hs Hm Hbw ltac:(lia)). assert (Ha := HA1 c s m b Hc Hs Hm Hbw ltac:(lia)). unfold comp in Ht, Ha. rewrite E in Ht, Ha.
    rewrite Ht, Ha. reflexivity. Qed.
  Lemma shape_parts : Permutation (chan_shape_terms N sp' theta' aux' c1 ++ chan_shape_terms N sp' theta' aux' c2) (chan_shape_terms N sp theta aux c0).
  Proof. rewrite !(chan_shape_terms_is N).
    change (c_samples c1) with (map (cutren_sample (firstn k) r1) (c_samples c0)). change (c_samples c2) with (map (cutren_sample (skipn k) r2) (c_samples c0)).
    rewrite !flat_map_map2. symmetry. etransitivity; [|apply flat_map_app_perm]. apply flat_map_perm_pointwise. intros s Hs. cbn [cutren_sample s_mods].
    rewrite !flat_map_map2. etransitivity; [|apply flat_map_app_perm].
    cut (flat_map (mod_shape_terms N sp theta aux c0 s) (s_mods s) =
         flat_map (fun m => mod_shape_terms N sp' theta' aux' c1 (cutren_sample (firstn k) r1 s) (cutren (firstn k) r1 m) ++
                            mod_shape_terms N sp' theta' aux' c2 (cutren_sample (skipn k) r2 s) (cutren (skipn k) r2 m)) (s_mods s)); [intros ->; reflexivity|].
    apply flat_map_ext_in2. intros m Hm. unfold mod_shape_terms. cbn [cutren m_type m_data m_name]. destruct (m_type m) eqn:E; try reflexivity.
    destruct (m_data m); try reflexivity.
    assert (Hbw : binwise m = true) by (unfold binwise; now rewrite E). rewrite Hbw, bnbins_left, bnbins_right.
    assert (Es : seq 0 (chan_nbins N c0) = seq 0 k ++ seq (0 + k) (chan_nbins N c0 - k)) by (rewrite <- seq_app; f_equal; lia).
    rewrite Es, map_app. destruct (Hnocfg c0 s m c0_in Hs Hm Hbw) as [U0 [U1 U2]].
    destruct HT as [_ [_ [HT2 HT3]]]. destruct HA as [_ [_ [HA2 HA3]]]. f_equal.
    - apply map_ext_in. intros b Hb. apply in_seq in Hb.
      assert (Ht := HT2 s m b Hs Hm Hbw ltac:(lia)). assert (Ha := HA2 s m b Hs Hm Hbw ltac:(lia)).
      unfold comp in Ht, Ha. cbn [cutren m_type] in Ht, Ha. rewrite E in Ht, Ha. rewrite Ht, Ha.
      destruct (ufac_none (m_name m) b U0) as [_ F0]. destruct (ufac_none (r1 (m_name m)) b U1) as [F1 _]. rewrite F0, F1.
      unfold shapesys_tau. cbn [cutren_sample s_data]. rewrite !nth_firstn2 by lia. reflexivity.
    - rewrite (seq_shift2 (0 + k)), map_map. apply map_ext_in. intros b Hb. apply in_seq in Hb. simpl Nat.add.
      assert (Ht := HT3 s m b Hs Hm Hbw ltac:(lia)). assert (Ha := HA3 s m b Hs Hm Hbw ltac:(lia)).
      unfold comp in Ht, Ha. cbn [cutren m_type] in Ht, Ha. rewrite E in Ht, Ha. rewrite Ht, Ha.
      destruct (ufac_none (m_name m) (k + b) U0) as [_ F0]. destruct (ufac_none (r2 (m_name m)) b U2) as [F2 _]. rewrite F0, F2.
      unfold shapesys_tau. cbn [cutren_sample s_data]. rewrite !nth_skipn2. reflexivity. Qed.

  Lemma split_blocks (F' F : channel -> list (term N)) :
    (forall c, In c (pre ++ post) -> F' c = F c) -> Permutation (F' c1 ++ F' c2) (F c0) ->
    Permutation (flat_map F' (channels sp')) (flat_map F (channels sp)).
  Proof. intros Ho Hp. change (channels sp') with (pre ++ c1 :: c2 :: post). rewrite Hch, !flat_map_app. cbn [flat_map].
    rewrite (flat_map_ext_in2 F' F pre) by (intros c Hc; apply Ho; apply in_or_app; auto).
    rewrite (flat_map_ext_in2 F' F post) by (intros c Hc; apply Ho; apply in_or_app; auto).
    apply Permutation_app_head. rewrite app_assoc. now apply Permutation_app_tail. Qed.

  Theorem split_binwise_cterms : Permutation (ref_cterms N sp' theta' aux') (ref_cterms N sp theta aux).
  Proof. rewrite !ref_cterms_is. apply Permutation_app; [apply split_alpha|]. apply Permutation_app; [apply split_lumi|]. apply Permutation_app.
    - rewrite !ct_stat_nf. apply split_blocks; [apply SB_other|apply SB_parts].
    - unfold ct_shape. apply split_blocks; [apply shape_other|apply shape_parts]. Qed.
  Theorem split_binwise_terms : Permutation (rterms sp' theta' obs' aux') (rterms sp theta obs aux).
  Proof. unfold ref_terms. apply Permutation_app; [apply split_binwise_main_terms|apply split_binwise_cterms]. Qed.
End SplitBin.
