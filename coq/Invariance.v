(* C15: invariances of the HistFactory template (Ref level): sums and products are order independent, an empty
   sample contributes nothing, a rescaled signal with a rescaled strength gives the same rates. *)
From Coq Require Import Bool Arith Lia Permutation Ring Field String List.
Require Import PV.Num PV.Sort PV.Spec PV.Impl PV.Ref PV.RefineMonoid.
Import ListNotations.
Local Open Scope list_scope.

Section Inv.
  Variable N : Num.
  Notation V := (V N).
  Hypothesis Hring : ring_theory (n0 N) (n1 N) (nadd N) (nmul N) (nsub N) (nopp N) eq.
  Add Ring NR2 : Hring.
  Notation "0" := (n0 N). Notation "1" := (n1 N).
  Infix "+" := (nadd N). Infix "*" := (nmul N).
  Variable interp_add interp_mul : string -> V -> V -> V -> V -> V.
  Variables ncode hcode : string.
  Variables clip_s clip_b : option V.
  Variable sp : spec N.
  Variable theta : string -> nat -> V.

  Lemma add_comm2 a b : a + b = b + a. Proof. ring. Qed.
  Lemma add_assoc2 a b c : a + (b + c) = (a + b) + c. Proof. ring. Qed.
  Lemma add_02 a : 0 + a = a. Proof. ring. Qed.
  Lemma mul_comm2 a b : a * b = b * a. Proof. ring. Qed.
  Lemma mul_assoc2 a b c : a * (b * c) = (a * b) * c. Proof. ring. Qed.
  Lemma mul_12 a : 1 * a = a. Proof. ring. Qed.

  Notation srate := (sample_rate N interp_add interp_mul ncode hcode clip_s sp theta).
  Notation rrate := (ref_rate N interp_add interp_mul ncode hcode clip_s clip_b sp theta).

  (* listing order of a sample's modifiers is irrelevant *)
  Theorem sample_rate_perm_modifiers c s s' b :
    s_name s = s_name s' -> s_data s = s_data s' -> Permutation (s_mods s) (s_mods s') -> srate c s b = srate c s' b.
  Proof.
    intros Hn Hd Hp. unfold sample_rate. rewrite Hd. f_equal. f_equal.
    - change (rprod N ?l) with (foldm V (nmul N) 1 l).
      apply (foldm_perm V (nmul N) 1 mul_comm2 mul_assoc2).
      assert (E : forall m, mod_factor N interp_mul ncode sp theta c s m b = mod_factor N interp_mul ncode sp theta c s' m b) by reflexivity.
      rewrite (map_ext _ _ E). now apply Permutation_map.
    - f_equal. change (rsum N ?l) with (foldm V (nadd N) 0 l).
      assert (E : forall m, mod_delta N interp_add hcode theta s m b = mod_delta N interp_add hcode theta s' m b).
      { intros m. unfold mod_delta. now rewrite Hd. }
      rewrite (map_ext _ _ E). apply (foldm_perm V (nadd N) 0 add_comm2 add_assoc2). now apply Permutation_map.
  Qed.

  (* listing order of a channel's samples is irrelevant *)
  Theorem ref_rate_perm_samples c c' b :
    c_name c = c_name c' -> Permutation (c_samples c) (c_samples c') ->
    (forall s, In s (c_samples c) -> length (s_data s) = chan_nbins N c) ->
    chan_nbins N c = chan_nbins N c' ->
    rrate c b = rrate c' b.
  Proof.
    intros Hn Hp _ _. unfold ref_rate. f_equal. change (rsum N ?l) with (foldm V (nadd N) 0 l).
    assert (E : forall s, srate c s b = srate c' s b).
    { intros s. unfold sample_rate. f_equal. f_equal. f_equal. apply map_ext. intros m. unfold mod_factor.
      destruct (m_type m); auto. unfold stat_offset. now rewrite Hn. }
    rewrite (map_ext _ _ E). apply (foldm_perm V (nadd N) 0 add_comm2 add_assoc2). now apply Permutation_map.
  Qed.

  (* a sample with zero yields and no modifiers contributes nothing (per-sample clip absent or not positive) *)
  Theorem zero_sample_contributes_nothing c s0 b :
    s_mods s0 = [] -> nth b (s_data s0) 0 = 0 ->
    match clip_s with None => True | Some cv => nltb N 0 cv = false end ->
    srate c s0 b = 0.
  Proof.
    intros Hm Hd Hc. unfold sample_rate. rewrite Hm, Hd. simpl.
    replace (1 * (0 + 0)) with 0 by ring. unfold rclip, rmax. destruct clip_s as [cv|]; auto. now rewrite Hc.
  Qed.
  Theorem zero_sample_invariant c s0 b rest :
    c_samples c = s0 :: rest -> s_mods s0 = [] -> nth b (s_data s0) 0 = 0 ->
    match clip_s with None => True | Some cv => nltb N 0 cv = false end ->
    rrate c b = rclip N clip_b (rsum N (map (fun s => srate c s b) rest)).
  Proof.
    intros Hs Hm Hd Hc. unfold ref_rate. rewrite Hs. simpl. rewrite (zero_sample_contributes_nothing c s0 b Hm Hd Hc).
    f_equal. ring.
  Qed.

  (* a modifier whose factor is 1 and whose shift is 0 at every parameter value can be dropped *)
  Theorem neutral_modifier_invariant c s m b rest :
    s_mods s = m :: rest ->
    mod_factor N interp_mul ncode sp theta c s m b = 1 -> mod_delta N interp_add hcode theta s m b = 0 ->
    srate c s b = rclip N clip_s (rprod N (map (fun m => mod_factor N interp_mul ncode sp theta c s m b) rest) *
                                  (nth b (s_data s) 0 + rsum N (map (fun m => mod_delta N interp_add hcode theta s m b) rest))).
  Proof.
    intros Hm Hf Hd. unfold sample_rate. rewrite Hm. simpl. rewrite Hf, Hd. f_equal. ring.
  Qed.
End Inv.

(* signal rescaling: yields times k, strength divided by k (field) *)
Section Rescale.
  Variable N : Num.
  Notation V := (V N).
  Hypothesis Hfield : field_theory (n0 N) (n1 N) (nadd N) (nmul N) (nsub N) (nopp N) (ndiv N) (ninv N) eq.
  Add Field NF : Hfield.
  Theorem signal_rescale_cell (theta_mu nom k other : V) : k <> n0 N ->
    nmul N (nmul N (ndiv N theta_mu k) other) (nmul N k nom) = nmul N (nmul N theta_mu other) nom.
  Proof. intros Hk. field. exact Hk. Qed.
End Rescale.
