(* C15, part 6: statistics defined through infima of the (negative log-)likelihood.  If a map phi carries the feasible set
   of one likelihood onto the feasible set of another and L' (phi x) = L x + c there, the infima differ by exactly c,
   minimisers are carried to minimisers, and every statistic 2 (inf over a constrained set - inf over the full set) is
   the same for both.  (phi need not be injective for this; the rewrites of C15 give bijections.) *)
From Coq Require Import Reals Lra.
Local Open Scope R_scope.

(* m is the greatest lower bound of F over the set P *)
Definition is_inf {T} (P : T -> Prop) (F : T -> R) (m : R) : Prop :=
  (forall x, P x -> m <= F x) /\ (forall m', (forall x, P x -> m' <= F x) -> m' <= m).
Definition is_argmin {T} (P : T -> Prop) (F : T -> R) (x : T) : Prop := P x /\ forall y, P y -> F x <= F y.

Lemma is_inf_unique {T} (P : T -> Prop) F m1 m2 : is_inf P F m1 -> is_inf P F m2 -> m1 = m2.
Proof. intros [H1 H2] [H3 H4]. apply Rle_antisym; auto. Qed.
Lemma argmin_is_inf {T} (P : T -> Prop) F x : is_argmin P F x -> is_inf P F (F x).
Proof. intros [Hx Hm]. split; auto. Qed.

Section Profile.
  Variables X Y : Type.
  Variable L : X -> R.
  Variable L' : Y -> R.
  Variable phi : X -> Y.
  Variable c : R.

  Section OneSet.
    Variable S : X -> Prop.
    Variable S' : Y -> Prop.
    Hypothesis phi_maps : forall x, S x -> S' (phi x).
    Hypothesis phi_onto : forall y, S' y -> exists x, S x /\ phi x = y.
    Hypothesis HL : forall x, S x -> L' (phi x) = L x + c.

    Theorem inf_transfer m : is_inf S L m -> is_inf S' L' (m + c).
    Proof. intros [Hlb Hglb]. split.
      - intros y Hy. destruct (phi_onto y Hy) as [x [Hx <-]]. rewrite HL by auto. specialize (Hlb x Hx). lra.
      - intros m' Hm'. assert (m' - c <= m); [|lra]. apply Hglb. intros x Hx. specialize (Hm' (phi x) (phi_maps x Hx)). rewrite HL in Hm' by auto. lra.
    Qed.
    Theorem inf_transfer_back m' : is_inf S' L' m' -> is_inf S L (m' - c).
    Proof. intros [Hlb Hglb]. split.
      - intros x Hx. specialize (Hlb (phi x) (phi_maps x Hx)). rewrite HL in Hlb by auto. lra.
      - intros m Hm. assert (m + c <= m'); [|lra]. apply Hglb. intros y Hy. destruct (phi_onto y Hy) as [x [Hx <-]]. rewrite HL by auto.
        specialize (Hm x Hx). lra.
    Qed.
    Theorem argmin_transfer x : is_argmin S L x -> is_argmin S' L' (phi x).
    Proof. intros [Hx Hm]. split; auto. intros y Hy. destruct (phi_onto y Hy) as [x' [Hx' <-]]. rewrite !HL by auto. specialize (Hm x' Hx'). lra. Qed.
  End OneSet.

  (* full feasible sets S, S' and constrained subsets A, A' (e.g. the parameter of interest fixed), both carried by phi *)
  Variables S A : X -> Prop.
  Variables S' A' : Y -> Prop.
  Hypothesis S_maps : forall x, S x -> S' (phi x).
  Hypothesis S_onto : forall y, S' y -> exists x, S x /\ phi x = y.
  Hypothesis A_sub : forall x, A x -> S x.
  Hypothesis A_maps : forall x, A x -> A' (phi x).
  Hypothesis A_onto : forall y, A' y -> exists x, A x /\ phi x = y.
  Hypothesis HL : forall x, S x -> L' (phi x) = L x + c.

  Theorem profile_invariant a m a' m' :
    is_inf A L a -> is_inf S L m -> is_inf A' L' a' -> is_inf S' L' m' ->
    m' = m + c /\ a' = a + c /\ 2 * (a' - m') = 2 * (a - m).
  Proof. intros Ha Hm Ha' Hm'.
    assert (E1 : m' = m + c) by (apply (is_inf_unique S' L'); auto; now apply (inf_transfer S S')).
    assert (E2 : a' = a + c) by (apply (is_inf_unique A' L'); auto; apply (inf_transfer A A'); auto).
    repeat split; auto. subst. lra. Qed.
  (* the same with explicit minimisers (what a converged fit returns) *)
  Theorem profile_invariant_argmin xa xs : is_argmin A L xa -> is_argmin S L xs ->
    is_argmin A' L' (phi xa) /\ is_argmin S' L' (phi xs) /\ 2 * (L' (phi xa) - L' (phi xs)) = 2 * (L xa - L xs).
  Proof. intros Ha Hs. split; [apply (argmin_transfer A A'); auto|]. split; [now apply (argmin_transfer S S')|].
    rewrite !HL; [lra|apply Hs|apply A_sub, Ha]. Qed.
End Profile.

(* non-vacuity: L x = (x-1)^2 on x >= 0, constrained to x >= 2; phi x = 2 x, L' y = (y/2-1)^2 + 3 *)
Example profile_invariant_nonvacuous :
  let L := fun x : R => (x - 1) * (x - 1) in let L' := fun y : R => (y / 2 - 1) * (y / 2 - 1) + 3 in
  is_inf (fun x => 0 <= x) L 0 /\ is_inf (fun x => 2 <= x) L 1 /\
  is_inf (fun y => 0 <= y) L' 3 /\ is_inf (fun y => 4 <= y) L' 4 /\ 2 * (4 - 3) = 2 * (1 - 0).
Proof.
  assert (H1 : is_inf (fun x => 0 <= x) (fun x : R => (x - 1) * (x - 1)) 0).
  { split; [intros x _; cbv beta; apply Rle_0_sqr|]. intros m' H. specialize (H 1). cbv beta in H. lra. }
  assert (H2 : is_inf (fun x => 2 <= x) (fun x : R => (x - 1) * (x - 1)) 1).
  { split; [intros x Hx; assert (0 <= x * (x - 2)) by (apply Rmult_le_pos; lra); cbv beta; lra|]. intros m' H. specialize (H 2). cbv beta in H. lra. }
  assert (T1 := inf_transfer R R (fun x => (x - 1) * (x - 1)) (fun y => (y / 2 - 1) * (y / 2 - 1) + 3) (fun x => 2 * x) 3
                  (fun x => 0 <= x) (fun y => 0 <= y)).
  assert (T2 := inf_transfer R R (fun x => (x - 1) * (x - 1)) (fun y => (y / 2 - 1) * (y / 2 - 1) + 3) (fun x => 2 * x) 3
                  (fun x => 2 <= x) (fun y => 4 <= y)).
  cbv beta in T1, T2.
  assert (E1 : is_inf (fun y => 0 <= y) (fun y => (y / 2 - 1) * (y / 2 - 1) + 3) (0 + 3)).
  { apply T1; auto; [intros x Hx; lra|intros y Hy; exists (y / 2); split; lra|intros x _; field]. }
  assert (E2 : is_inf (fun y => 4 <= y) (fun y => (y / 2 - 1) * (y / 2 - 1) + 3) (1 + 3)).
  { apply T2; auto; [intros x Hx; lra|intros y Hy; exists (y / 2); split; lra|intros x _; field]. }
  replace (0 + 3) with 3 in E1 by lra. replace (1 + 3) with 4 in E2 by lra.
  cbv zeta. split; auto. split; auto. split; auto. split; auto. lra.
Qed.
