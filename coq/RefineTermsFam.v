(* C02, the constraint families: what build = Ok implies about the variance / factor data of the constrained parameter
   sets, family by family (alpha = normsys/histosys, lumi, shapesys, staterror), in the block form of RefineTermsBlocks.v. *)
From Coq Require Import Bool Arith Lia Permutation Ring String List.
Require Import PV.Num PV.Sort PV.Spec PV.Impl PV.Ref PV.Wf PV.Config PV.RefineLookup PV.RefineMonoid PV.RefineRates PV.RefineParams
               PV.RefineTerms PV.RefineTermsBlocks PV.RefineTermsTop.
Import ListNotations.
Local Open Scope list_scope.

Lemma rt_agree_all {A} (eqb : A -> A -> bool) x0 l : agree eqb (x0 :: l) = true -> forall x, In x (x0 :: l) -> x = x0 \/ eqb x0 x = true.
Proof. simpl. intros H x [->|Hx]; auto. rewrite forallb_forall in H. auto. Qed.

Section ReduceVF.
  Variable N : Num.
  Notation V := (V N).
  Variable sp : spec N.
  Hypothesis Heqb : forall a b : V, neqb N a b = true -> a = b.

  Lemma rt_optv_list_eq (a b : optv (list V)) : optv_eqb (list_eqb (veqb N)) a b = true -> a = b.
  Proof.
    destruct a, b; simpl; intros H; try discriminate; auto. f_equal. apply (list_eqb_eq (veqb N)); auto.
  Qed.

  Ltac agree_step H E :=
    match type of H with
    | context [if negb ?b then _ else _] => destruct b eqn:E; simpl negb in H; cbv iota in H; [|discriminate H]
    end.

  Definition user_of (name : string) {A} (f : parcfg N -> option A) : option A :=
    match find_user N sp name with Some u => f u | None => None end.

  (* the variance / factor / auxiliary data of a reduced parameter set: the user's value when configured, otherwise the
     default of EVERY requirement contributed under its name *)
  Theorem reduce_one_vf name rs start p : reduce_one N sp name rs start = Ok p ->
    forall r, In r rs ->
      user_merge (r_n N r) (r_var N r) (option_map (map (fun s => nmul N s s)) (user_of name pc_sigmas)) = Ok (p_var N p) /\
      user_merge (r_n N r) (r_factors N r) (user_of name pc_factors) = Ok (p_factors N p) /\
      user_merge (r_n N r) (r_aux N r) (user_of name pc_auxdata) = Ok (p_aux N p).
  Proof.
    unfold reduce_one, user_of. intros H. destruct rs as [|r0 rs']; [discriminate|]. unfold bind, usr in H.
    agree_step H Et. agree_step H En. agree_step H Es. agree_step H Ei.
    destruct (user_merge (r_n N r0) (r_inits N r0) _) as [xi|]; [|discriminate]. agree_step H Eb.
    destruct (user_merge (r_n N r0) (r_bounds N r0) _) as [xb|]; [|discriminate]. agree_step H Ea.
    destruct (user_merge (r_n N r0) (r_aux N r0) _) as [xa|] eqn:Exa; [|discriminate]. agree_step H Ef.
    destruct (user_merge (r_n N r0) (r_factors N r0) _) as [xf|] eqn:Exf; [|discriminate]. agree_step H Ev.
    destruct (user_merge (r_n N r0) (r_var N r0) _) as [xv|] eqn:Exv; [|discriminate]. agree_step H Ex.
    inversion H; subst; simpl. intros r Hr.
    change (map (r_n N) (r0 :: rs')) with (r_n N r0 :: map (r_n N) rs') in En.
    change (map (r_aux N) (r0 :: rs')) with (r_aux N r0 :: map (r_aux N) rs') in Ea.
    change (map (r_factors N) (r0 :: rs')) with (r_factors N r0 :: map (r_factors N) rs') in Ef.
    change (map (r_var N) (r0 :: rs')) with (r_var N r0 :: map (r_var N) rs') in Ev.
    assert (Hn : r_n N r = r_n N r0).
    { destruct (rt_agree_all _ _ _ En (r_n N r)) as [E|E]; [change (In (r_n N r) (map (r_n N) (r0 :: rs'))); now apply in_map|auto|].
      apply Nat.eqb_eq in E. auto. }
    assert (Hv : r_var N r = r_var N r0).
    { destruct (rt_agree_all _ _ _ Ev (r_var N r)) as [E|E]; [change (In (r_var N r) (map (r_var N) (r0 :: rs'))); now apply in_map|auto|].
      apply rt_optv_list_eq in E. auto. }
    assert (Hf : r_factors N r = r_factors N r0).
    { destruct (rt_agree_all _ _ _ Ef (r_factors N r)) as [E|E]; [change (In (r_factors N r) (map (r_factors N) (r0 :: rs'))); now apply in_map|auto|].
      apply rt_optv_list_eq in E. auto. }
    assert (Ha : r_aux N r = r_aux N r0).
    { destruct (rt_agree_all _ _ _ Ea (r_aux N r)) as [E|E]; [change (In (r_aux N r) (map (r_aux N) (r0 :: rs'))); now apply in_map|auto|].
      apply rt_optv_list_eq in E. auto. }
    rewrite Hn, Hv, Hf, Ha. destruct (find_user N sp name); auto.
  Qed.
End ReduceVF.

Section Fam.
  Variable N : Num.
  Notation V := (V N).
  Notation "0" := (n0 N). Notation "1" := (n1 N).
  Infix "+" := (nadd N). Infix "*" := (nmul N). Infix "/" := (ndiv N).
  Hypothesis Hring : ring_theory 0 1 (nadd N) (nmul N) (nsub N) (nopp N) eq.
  Add Ring NRf : Hring.
  Hypothesis Heqb : forall a b : V, neqb N a b = true -> a = b.
  Variable sp : spec N.
  Variable md : model N.
  Hypothesis Hb : build N sp = Ok md.
  Notation chs := (cfg_channels N sp).
  Notation smps := (cfg_samples N sp).
  Notation mods := (cfg_modifiers N sp).
  Notation reqall := (required_all N sp chs smps mods).
  Notation requ := (required N sp chs smps mods).
  Notation walk := (walk_decls N sp chs smps mods).
  Notation firsts := (first_decls N sp chs smps mods).
  Notation ps := (md_psets N md).
  Notation listed := (listed N sp).

  Let Hchan := accepted_distinct_channels N sp md Hb.
  Let Hsamp := fun c => accepted_distinct_samples N sp md c Hb.
  Let Hmods := fun c s => accepted_distinct_modifiers N sp md c s Hb.

  (* the parameter set of a requirement, together with the reduction that produced it *)
  Lemma accepted_req_pset t name rs0 r : In (name, rs0) (requ t) -> In r rs0 ->
    exists p rs st, In p ps /\ find_pset N ps name = Some p /\ p_name N p = name /\
                    reduce_one N sp name rs st = Ok p /\ In r rs.
  Proof.
    intros Hin Hr.
    assert (Hq : req_in reqall name r) by (apply required_all_in; eauto).
    destruct Hq as (rs' & Hin' & Hr').
    destruct (reduce_all_find N sp _ _ _ (required_all_nodup N sp) (accepted_reduce N sp md Hb) name rs' Hin')
      as (p & i & st & Hf & Hn & _ & Hone).
    destruct (reduce_one_fields N sp _ _ _ _ Hone) as (Hname & _).
    exists p, rs', st. repeat split; auto. eapply nth_error_In; eauto.
  Qed.

  Lemma names_with_listed t n : In n (names_with N sp t) <-> exists c s m, listed c s m /\ m_name m = n /\ m_type m = t.
  Proof.
    unfold names_with. rewrite nodup_In, in_flat_map. split.
    - intros [c [Hc H]]. apply in_flat_map in H. destruct H as [s [Hs H]]. apply in_flat_map in H. destruct H as [m [Hm H]].
      destruct (mtype_eqb (m_type m) t) eqn:E; [|destruct H]. destruct H as [<-|[]]. apply mtype_eqb_eq in E.
      exists c, s, m. unfold RefineParams.listed. auto.
    - intros (c & s & m & (Hc & Hs & Hm) & Hn & Ht). exists c. split; auto. apply in_flat_map. exists s. split; auto.
      apply in_flat_map. exists m. split; auto. subst t. assert (E : mtype_eqb (m_type m) (m_type m) = true) by now apply mtype_eqb_eq.
      rewrite E. now left.
  Qed.

  (* requirement contributed by a listed modifier of a scalar constrained type *)
  Lemma listed_first c s m : listed c s m -> exists cn sn m', In (m_name m, (cn, sn, m')) (firsts (m_type m)).
  Proof.
    intros Hl. pose proof (listed_walk N sp md Hb c s m Hl) as Hw.
    apply first_decl_exists. apply in_map_iff. eexists; split; [|exact Hw]. reflexivity.
  Qed.
  Lemma listed_req_alpha c s m : listed c s m -> (m_type m = Histosys \/ m_type m = Normsys) ->
    In (m_name m, [req_alpha N]) (requ (m_type m)).
  Proof.
    intros Hl Ht. destruct (listed_first c s m Hl) as (cn & sn & m' & Hd).
    destruct Ht as [Ht|Ht]; rewrite Ht in *; unfold required; apply in_map_iff; exists (m_name m, (cn, sn, m')); split; auto.
  Qed.
  Lemma listed_req_lumi c s m : listed c s m -> m_type m = Lumi -> In (m_name m, [req_lumi N]) (requ Lumi).
  Proof.
    intros Hl Ht. destruct (listed_first c s m Hl) as (cn & sn & m' & Hd).
    rewrite Ht in *; unfold required; apply in_map_iff; exists (m_name m, (cn, sn, m')); split; auto.
  Qed.

  Lemma user_merge_undef {A} n (u : option (list A)) r : user_merge n Undef u = Ok r -> r = Undef.
  Proof. destruct u; simpl; [discriminate|]. intros H; now inversion H. Qed.
  Lemma tab_1 {A} (f : nat -> A) : tab 1 f = [f O].
  Proof. reflexivity. Qed.

  (* ---------------- alpha parameters (normsys / histosys): one unit Gaussian each ---------------- *)
  Theorem alpha_family : fam_ok N ps (ref_alpha_blocks N sp).
  Proof.
    intros rb Hrb. unfold ref_alpha_blocks in Hrb. apply in_map_iff in Hrb. destruct Hrb as [n [<- Hn]].
    unfold alpha_names in Hn. apply nodup_In in Hn.
    assert (Hex : exists c s m, listed c s m /\ m_name m = n /\ (m_type m = Histosys \/ m_type m = Normsys)).
    { apply in_app_or in Hn. destruct Hn as [Hn|Hn]; apply names_with_listed in Hn; destruct Hn as (c & s & m & Hl & Hnm & Ht);
        exists c, s, m; auto. }
    destruct Hex as (c & s & m & Hl & Hnm & Ht).
    pose proof (listed_req_alpha c s m Hl Ht) as Hreq.
    destruct (accepted_req_pset _ _ _ (req_alpha N) Hreq (or_introl eq_refl)) as (p & rs & st & Hp & Hf & Hname & Hone & Hr).
    destruct (reduce_one_fields N sp _ _ _ _ Hone) as (_ & _ & Hall). destruct (Hall _ Hr) as (Hpn & Hpt & _).
    destruct (reduce_one_vf N sp Heqb _ _ _ _ Hone _ Hr) as (Hv & _ & _). simpl in Hpn, Hpt, Hv.
    apply user_merge_undef in Hv.
    exists p. cbn [fst]. repeat split; auto; try congruence.
    - unfold constrained. now rewrite Hpt.
    - unfold impl_block. rewrite Hpt, Hpn, tab_1. unfold var_of. rewrite Hv. congruence.
  Qed.

  (* ---------------- luminosity: Gaussian with the configured width ---------------- *)
  Theorem lumi_family : fam_ok N ps (ref_lumi_blocks N sp).
  Proof.
    intros rb Hrb. unfold ref_lumi_blocks in Hrb. apply in_map_iff in Hrb. destruct Hrb as [n [<- Hn]].
    apply names_with_listed in Hn. destruct Hn as (c & s & m & Hl & Hnm & Ht).
    pose proof (listed_req_lumi c s m Hl Ht) as Hreq.
    destruct (accepted_req_pset _ _ _ (req_lumi N) Hreq (or_introl eq_refl)) as (p & rs & st & Hp & Hf & Hname & Hone & Hr).
    destruct (reduce_one_fields N sp _ _ _ _ Hone) as (_ & _ & Hall). destruct (Hall _ Hr) as (Hpn & Hpt & _).
    destruct (reduce_one_vf N sp Heqb _ _ _ _ Hone _ Hr) as (Hv & _ & _). simpl in Hpn, Hpt, Hv.
    exists p. cbn [fst]. repeat split; auto; try congruence.
    - unfold constrained. now rewrite Hpt.
    - unfold impl_block. rewrite Hpt, Hpn, tab_1. rewrite Hname, Hnm. f_equal. f_equal. f_equal. f_equal.
      unfold var_of, sig2_or, user_sigmas2, user_cfg. unfold user_of, find_user in Hv. rewrite Hnm in Hv.
      destruct (find (fun p0 => String.eqb (pc_name p0) n) (parameters sp)) as [u|]; [|discriminate Hv].
      destruct (pc_sigmas u) as [l|]; [|discriminate Hv]. simpl in Hv. rewrite map_length in Hv.
      destruct (Nat.eqb_spec (length l) 1) as [El|]; [|discriminate Hv]. inversion Hv as [Hpv].
      destruct l as [|x [|y l]]; try discriminate El. reflexivity.
  Qed.

  (* ---------------- shapesys: Poisson constraints with tau = (nominal / uncertainty)^2 ---------------- *)
  Lemma listed_req_shapesys c s m : listed c s m -> m_type m = Shapesys ->
    In (m_name m, [req_shapesys N (s_data s) (mdlist N m)]) (requ Shapesys).
  Proof.
    intros Hl Et. destruct (listed_first c s m Hl) as (cn' & sn' & m' & Hd). rewrite Et in Hd.
    pose proof (first_decls_in N sp _ _ Hd) as Hd'. apply walk_decls_in in Hd'. destruct Hd' as (_ & _ & _ & Hcm).
    apply cellmod_listed in Hcm. destruct Hcm as (c2 & s2 & Hl2 & Ec2 & Es2 & Ek2).
    assert (Hn2 : m_name m = m_name m') by (apply (f_equal fst) in Ek2; simpl in Ek2; auto).
    assert (Ht2 : m_type m' = Shapesys) by (apply (f_equal snd) in Ek2; simpl in Ek2; now apply tyname_inj).
    destruct (shapesys_cell_unique N sp md Hb c s m c2 s2 m' Hl Hl2 Et Ht2 Hn2) as (-> & -> & <-). subst cn' sn'.
    unfold required. apply in_map_iff. exists (m_name m, (c_name c2, s_name s2, m)). split; auto.
    now rewrite (listed_cell N sp md Hb c2 s2 m Hl).
  Qed.
  Lemma nth_map_zip3 {B} (g : V * V -> B) (d : B) : forall (a b : list V) i, (i < length a)%nat -> (i < length b)%nat ->
    nth i (map g (zip3 N a b)) d = g (nth i a 0, nth i b 0).
  Proof.
    induction a as [|x a IH]; intros [|y b] i Ha Hb'; simpl in *; try lia.
    destruct i; [reflexivity|]. apply IH; lia.
  Qed.
  Lemma map_seq_tab {A} (f : nat -> A) n : map f (seq O n) = tab n f.
  Proof. reflexivity. Qed.

  Theorem shapesys_family : fam_ok N ps (ref_shapesys_blocks N sp).
  Proof.
    intros rb Hrb. unfold ref_shapesys_blocks in Hrb.
    apply in_flat_map in Hrb. destruct Hrb as [c [Hc Hrb]]. apply in_flat_map in Hrb. destruct Hrb as [s [Hs Hrb]].
    apply in_flat_map in Hrb. destruct Hrb as [m [Hm Hrb]]. unfold ref_shapesys_block in Hrb.
    destruct (m_type m) eqn:Et; try (destruct Hrb; fail). destruct (m_data m) as [| | |unc] eqn:Ed; try (destruct Hrb; fail).
    destruct Hrb as [<-|[]].
    assert (Hl : listed c s m) by (unfold RefineParams.listed; auto).
    pose proof (listed_req_shapesys c s m Hl Et) as Hreq.
    destruct (accepted_req_pset _ _ _ _ Hreq (or_introl eq_refl)) as (p & rs & st & Hp & Hf & Hname & Hone & Hr).
    destruct (reduce_one_fields N sp _ _ _ _ Hone) as (_ & _ & Hall). destruct (Hall _ Hr) as (Hpn & Hpt & _).
    destruct (reduce_one_vf N sp Heqb _ _ _ _ Hone _ Hr) as (_ & Hfa & _). simpl in Hpn, Hpt, Hfa.
    destruct (listed_names N sp c s m Hl) as (Hcn & Hsn & Hk & Hkt). destruct (listed_nbins N sp md Hb c s m Hl) as (Hnb & Hlen).
    destruct (accepted_modifier_lengths N sp md _ _ _ _ Hb Hcn Hsn (listed_cellmod N sp md Hb c s m Hl)) as (_ & Hy & _).
    rewrite Et in Hkt. specialize (Hy Hkt).
    assert (Hunc : mdlist N m = unc) by (unfold mdlist; now rewrite Ed). rewrite Hunc in *.
    assert (Hn : p_n N p = chan_nbins N c) by (rewrite Hpn, zip3_length, Hlen, Hy, Hnb; apply Nat.min_id).
    exists p. cbn [fst]. repeat split; auto.
    - unfold constrained. now rewrite Hpt.
    - unfold impl_block. rewrite Hpt, Hn, Hname, map_seq_tab. f_equal. f_equal. apply tab_ext. intros i Hi. f_equal.
      unfold fac_of, fac_or, user_factor, user_cfg. unfold user_of, find_user in Hfa.
      destruct (find (fun p0 => String.eqb (pc_name p0) (m_name m)) (parameters sp)) as [u|].
      + destruct (pc_factors u) as [l|].
        * apply user_merge_some in Hfa. now rewrite Hfa.
        * apply user_merge_none in Hfa. rewrite Hfa.
          rewrite nth_map_zip3 by lia. reflexivity.
      + apply user_merge_none in Hfa. rewrite Hfa. rewrite nth_map_zip3 by lia. reflexivity.
  Qed.
End Fam.
