(* pyhf.workspace: _join_items, the five _join_*, Workspace.combine / _prune_and_rename / prune / rename / sorted,
   transcribed on a typed workspace AST (schema: additionalProperties=false everywhere, so the AST is exact
   for schema-valid documents).  Numbers are exact rationals (Python == identifies 1 and 1.0). *)
From Coq Require Import Bool Arith Lia Permutation Sorting.Sorted String Ascii QArith Qcanon List.
Require Import PV.Sort PV.Json.
Import ListNotations.
Local Open Scope string_scope.
Local Open Scope nat_scope.
Local Open Scope list_scope.

(* ---------- AST ---------- *)
Inductive mdata :=
| MNull
| MNormsys (lo hi : Qc)
| MHistosys (lo_data hi_data : list Qc)
| MList (l : list Qc).                      (* shapesys / staterror *)
Record modifier := { m_name : string; m_type : string; m_data : mdata }.
Record sample := { s_name : string; s_data : list Qc; s_mods : list modifier }.
Record channel := { c_name : string; c_samples : list sample }.
Record observation := { o_name : string; o_data : list Qc }.
Record pconfig := { p_name : string; p_inits : option (list Qc); p_bounds : option (list (list Qc));
                    p_auxdata : option (list Qc); p_factors : option (list Qc); p_sigmas : option (list Qc);
                    p_fixed : option bool }.
Record measurement := { me_name : string; me_poi : string; me_params : list pconfig }.
Record workspace := { w_channels : list channel; w_observations : list observation;
                      w_measurements : list measurement; w_version : string }.

(* ---------- python == on these dicts : decidable Leibniz equality ---------- *)
Definition option_dec {A} (d : forall a b : A, {a = b} + {a <> b}) : forall a b : option A, {a = b} + {a <> b}.
Proof. decide equality. Defined.
Definition qs_dec : forall a b : list Qc, {a = b} + {a <> b} := list_eq_dec Qc_eq_dec.
Definition mdata_dec : forall a b : mdata, {a = b} + {a <> b}.
Proof. decide equality; auto using qs_dec, Qc_eq_dec. Defined.
Definition modifier_dec : forall a b : modifier, {a = b} + {a <> b}.
Proof. decide equality; auto using mdata_dec, string_dec. Defined.
Definition sample_dec : forall a b : sample, {a = b} + {a <> b}.
Proof. decide equality; auto using (list_eq_dec modifier_dec), qs_dec, string_dec. Defined.
Definition channel_dec : forall a b : channel, {a = b} + {a <> b}.
Proof. decide equality; auto using (list_eq_dec sample_dec), string_dec. Defined.
Definition observation_dec : forall a b : observation, {a = b} + {a <> b}.
Proof. decide equality; auto using qs_dec, string_dec. Defined.
Definition pconfig_dec : forall a b : pconfig, {a = b} + {a <> b}.
Proof. decide equality; auto using (option_dec bool_dec), (option_dec qs_dec), (option_dec (list_eq_dec qs_dec)), string_dec. Defined.
Definition measurement_dec : forall a b : measurement, {a = b} + {a <> b}.
Proof. decide equality; auto using (list_eq_dec pconfig_dec), string_dec. Defined.
Definition workspace_dec : forall a b : workspace, {a = b} + {a <> b}.
Proof. decide equality; auto using (list_eq_dec channel_dec), (list_eq_dec observation_dec), (list_eq_dec measurement_dec), string_dec. Defined.

Definition eqb_of {A} (d : forall a b : A, {a = b} + {a <> b}) (a b : A) : bool := if d a b then true else false.
Lemma eqb_of_iff {A} d (a b : A) : eqb_of d a b = true <-> a = b.
Proof. unfold eqb_of. destruct (d a b); split; congruence. Qed.
Lemma eqb_of_refl {A} d (a : A) : eqb_of d a a = true.
Proof. now apply eqb_of_iff. Qed.

(* x in list *)
Definition mem_str (s : string) (l : list string) : bool := existsb (String.eqb s) l.
Lemma mem_str_iff s l : mem_str s l = true <-> In s l.
Proof. unfold mem_str. rewrite existsb_exists. split.
  - intros [x [H1 H2]]. apply String.eqb_eq in H2. now subst.
  - intros H. exists s. split; auto. apply String.eqb_refl. Qed.
Lemma mem_str_false s l : mem_str s l = false <-> ~ In s l.
Proof. rewrite <- mem_str_iff. destruct (mem_str s l); split; congruence. Qed.
Definition mem_of {A} (d : forall a b : A, {a = b} + {a <> b}) (x : A) (l : list A) : bool := existsb (eqb_of d x) l.
Lemma mem_of_iff {A} d (x : A) l : mem_of d x l = true <-> In x l.
Proof. unfold mem_of. rewrite existsb_exists. split.
  - intros [y [H1 H2]]. apply eqb_of_iff in H2. now subst.
  - intros H. exists x. split; auto. apply eqb_of_refl. Qed.

(* ---------- exceptions ---------- *)
Inductive err := InvalidWorkspaceOperation | InvalidSpecification | SchemaNotFound
               | PyValueError | PyTypeError | PyIndexError.
Inductive result (A : Type) := Ok (a : A) | Err (e : err).
Arguments Ok {A} a. Arguments Err {A} e.
Definition bind {A B} (x : result A) (f : A -> result B) : result B :=
  match x with Ok a => f a | Err e => Err e end.
Definition refuses {A} (x : result A) : Prop := exists e, x = Err e.

(* ---------- _join_items ---------- *)
Inductive join := JNone | JOuter | JLeft | JRight.
Definition join_of_string (s : string) : option join :=      (* Workspace.valid_joins *)
  if String.eqb s "none" then Some JNone else if String.eqb s "outer" then Some JOuter
  else if String.eqb s "left outer" then Some JLeft else if String.eqb s "right outer" then Some JRight else None.

Fixpoint index_of (k : string) (keys : list string) : nat :=   (* keys.index(k), k known to be present *)
  match keys with [] => 0 | x :: t => if String.eqb k x then 0 else S (index_of k t) end.
Fixpoint update_at {A} (n : nat) (f : A -> A) (l : list A) : list A :=
  match l, n with
  | [], _ => []
  | x :: t, 0 => f x :: t
  | x :: t, S n' => x :: update_at n' f t
  end.

Section JoinItems.
  Variable A : Type.
  Variable key : A -> string.
  Variable eqA : A -> A -> bool.                 (* python == *)
  Variable deep : option (A -> A -> A).          (* deep_merge_key: (joined item, secondary item) -> joined item with its sub-list merged *)

  Definition join_step (j : join) (primary : list A) (keys : list string) (joined : list A) (s : A) : list A :=
    match (if mem_str (key s) keys then deep else None) with
    | Some mg => update_at (index_of (key s) keys) (fun x => mg x s) joined
    | None =>
        if match j with
           | JNone => true
           | JOuter => negb (existsb (eqA s) primary)
           | JLeft | JRight => negb (mem_str (key s) keys)
           end
        then joined ++ [s] else joined
    end.

  Definition join_items (j : join) (left_items right_items : list A) : list A :=
    let primary := match j with JRight => right_items | _ => left_items end in
    let secondary := match j with JRight => left_items | _ => right_items end in
    let keys := map key primary in                (* computed once, never extended *)
    fold_left (join_step j primary keys) secondary primary.
End JoinItems.

(* collections.Counter(names) -> names with count > 1, in first-occurrence order *)
Fixpoint dedup (l : list string) : list string :=
  match l with [] => [] | x :: t => x :: filter (fun y => negb (String.eqb x y)) (dedup t) end.
Definition count_str (n : string) (l : list string) : nat := length (filter (String.eqb n) l).
Definition dups (names : list string) : list string := filter (fun n => Nat.ltb 1 (count_str n names)) (dedup names).
(* {names of l} & {names of r} *)
Definition common (l r : list string) : list string := filter (fun n => mem_str n r) (dedup l).
Definition nonempty {A} (l : list A) : bool := match l with [] => false | _ => true end.

Definition join_versions (j : join) (lv rv : string) : result string :=
  if negb (String.eqb lv rv) then Err InvalidWorkspaceOperation else Ok lv.

Definition sample_eqb := eqb_of sample_dec.
Definition channel_eqb := eqb_of channel_dec.
Definition observation_eqb := eqb_of observation_dec.
Definition pconfig_eqb := eqb_of pconfig_dec.
Definition measurement_eqb := eqb_of measurement_dec.

(* the recursive call made for deep_merge_key='samples': _join_items('left outer', joined['samples'], secondary['samples']) *)
Definition merge_samples (jc sc : channel) : channel :=
  {| c_name := c_name jc; c_samples := join_items sample s_name sample_eqb None JLeft (c_samples jc) (c_samples sc) |}.

Definition join_channels (j : join) (l r : list channel) (merge : bool) : result (list channel) :=
  let joined := join_items channel c_name channel_eqb (if merge then Some merge_samples else None) j l r in
  match j with
  | JNone => if nonempty (common (map c_name l) (map c_name r)) then Err InvalidWorkspaceOperation else Ok joined
  | JOuter => if nonempty (dups (map c_name joined)) then Err InvalidWorkspaceOperation else Ok joined
  | _ => Ok joined
  end.

Definition join_observations (j : join) (l r : list observation) : result (list observation) :=
  let joined := join_items observation o_name observation_eqb None j l r in
  match j with
  | JNone => if nonempty (common (map o_name l) (map o_name r)) then Err InvalidWorkspaceOperation else Ok joined
  | JOuter => if nonempty (dups (map o_name joined)) then Err InvalidWorkspaceOperation else Ok joined
  | _ => Ok joined
  end.

Definition join_parameter_configs (l r : list pconfig) : result (list pconfig) :=
  let joined := join_items pconfig p_name pconfig_eqb None JOuter l r in
  if nonempty (dups (map p_name joined)) then Err InvalidWorkspaceOperation else Ok joined.

(* _measurement_mapping.setdefault(name, []).append(measurement) *)
Definition setdefault_append (mp : list (string * list measurement)) (m : measurement) :=
  if mem_str (me_name m) (map fst mp)
  then map (fun kv => if String.eqb (fst kv) (me_name m) then (fst kv, snd kv ++ [m]) else kv) mp
  else mp ++ [(me_name m, [m])].
Definition meas_mapping (joined : list measurement) := fold_left setdefault_append joined [].

Definition merge_group (kv : string * list measurement) : result measurement :=
  match snd kv with
  | [m] => Ok m
  | [] => Err PyIndexError
  | m0 :: _ =>
      match map me_params (snd kv) with        (* _join_parameter_configs(name, *param_lists) takes exactly two *)
      | [pl; pr] => bind (join_parameter_configs pl pr)
                         (fun ps => Ok {| me_name := fst kv; me_poi := me_poi m0; me_params := ps |})
      | _ => Err PyTypeError
      end
  end.
Fixpoint mapM {A B} (f : A -> result B) (l : list A) : result (list B) :=
  match l with
  | [] => Ok []
  | x :: t => bind (f x) (fun y => bind (mapM f t) (fun ys => Ok (y :: ys)))
  end.

Definition join_measurements (j : join) (l r : list measurement) : result (list measurement) :=
  let joined := join_items measurement me_name measurement_eqb None j l r in
  match j with
  | JNone => if nonempty (common (map me_name l) (map me_name r)) then Err InvalidWorkspaceOperation else Ok joined
  | JOuter =>
      let mp := meas_mapping joined in
      if nonempty (filter (fun kv => Nat.ltb 1 (length (dedup (map me_poi (snd kv))))) mp)
      then Err InvalidWorkspaceOperation
      else mapM merge_group mp
  | _ => Ok joined
  end.

(* ---------- Workspace.__init__ : schema validation as a structural predicate ---------- *)
Definition known_versions : list string := ["1.0.0"].
Definition qs_ok (l : list Qc) : bool := nonempty l.
Definition modifier_ok (m : modifier) : bool :=
  let t := m_type m in
  if String.eqb t "histosys" then match m_data m with MHistosys lo hi => qs_ok lo && qs_ok hi | _ => false end
  else if String.eqb t "lumi" then String.eqb (m_name m) "lumi" && match m_data m with MNull => true | _ => false end
  else if String.eqb t "normfactor" then match m_data m with MNull => true | _ => false end
  else if String.eqb t "normsys" then match m_data m with MNormsys _ _ => true | _ => false end
  else if String.eqb t "shapefactor" then match m_data m with MNull => true | _ => false end
  else if String.eqb t "shapesys" then match m_data m with MList l => qs_ok l | _ => false end
  else if String.eqb t "staterror" then match m_data m with MList l => qs_ok l | _ => false end
  else false.
Definition sample_ok (s : sample) : bool := qs_ok (s_data s) && forallb modifier_ok (s_mods s).
Definition channel_ok (c : channel) : bool := nonempty (c_samples c) && forallb sample_ok (c_samples c).
Definition observation_ok (o : observation) : bool := qs_ok (o_data o).
Definition opt_ok {A} (o : option (list A)) : bool := match o with Some l => nonempty l | None => true end.
Definition pconfig_ok (p : pconfig) : bool :=
  opt_ok (p_inits p) && opt_ok (p_bounds p) && opt_ok (p_auxdata p) && opt_ok (p_factors p) && opt_ok (p_sigmas p).
Definition measurement_ok (m : measurement) : bool := forallb pconfig_ok (me_params m).
Definition schema_ok (w : workspace) : bool :=
  nonempty (w_channels w) && forallb channel_ok (w_channels w) &&
  (nonempty (w_measurements w) && forallb measurement_ok (w_measurements w)) &&
  (nonempty (w_observations w) && forallb observation_ok (w_observations w)) &&
  String.eqb (w_version w) "1.0.0".

Definition construct (validate : bool) (w : workspace) : result workspace :=
  if validate && negb (mem_str (w_version w) known_versions) then Err SchemaNotFound
  else if validate && negb (schema_ok w) then Err InvalidSpecification
  else if existsb (fun c => negb (nonempty (c_samples c))) (w_channels w) then Err PyIndexError   (* channel['samples'][0] in the mixin *)
  else Ok w.

(* ---------- Workspace.combine ---------- *)
Definition combine (l r : workspace) (js : string) (merge validate : bool) : result workspace :=
  match join_of_string js with
  | None => Err PyValueError
  | Some j =>
      if merge && match j with JNone => true | _ => false end then Err PyValueError else
      bind (join_versions j (w_version l) (w_version r)) (fun v =>
      bind (join_channels j (w_channels l) (w_channels r) merge) (fun cs =>
      bind (join_observations j (w_observations l) (w_observations r)) (fun os =>
      bind (join_measurements j (w_measurements l) (w_measurements r)) (fun ms =>
      construct validate {| w_channels := cs; w_observations := os; w_measurements := ms; w_version := v |}))))
  end.

(* ---------- the mixin's summaries (_ChannelSummaryMixin) ---------- *)
Definition pair_dec : forall a b : string * string, {a = b} + {a <> b}.
Proof. decide equality; apply string_dec. Defined.
Definition psort_uniq (l : list (string * string)) : list (string * string) := psort (fun x => x) (nodup pair_dec l).   (* sorted(set(pairs)) *)
Definition mod_key (m : modifier) : string * string := (m_name m, m_type m).
Definition all_samples (w : workspace) : list sample := flat_map c_samples (w_channels w).
Definition all_mods (w : workspace) : list modifier := flat_map s_mods (all_samples w).
Definition ws_channels (w : workspace) : list string := sort_uniq (map c_name (w_channels w)).
Definition ws_samples (w : workspace) : list string := sort_uniq (map s_name (all_samples w)).
Definition ws_modifiers (w : workspace) : list (string * string) := psort_uniq (map mod_key (all_mods w)).
Definition ws_measurement_names (w : workspace) : list string := map me_name (w_measurements w).

(* dict(pairs): a later pair overwrites the value, the key keeps its first position *)
Fixpoint dict_set {B} (k : string) (v : B) (d : list (string * B)) : list (string * B) :=
  match d with
  | [] => [(k, v)]
  | kv :: t => if String.eqb k (fst kv) then (fst kv, v) :: t else kv :: dict_set k v t
  end.
Definition dict_of_pairs {B} (l : list (string * B)) : list (string * B) :=
  fold_left (fun d kv => dict_set (fst kv) (snd kv) d) l [].

(* ---------- Workspace._prune_and_rename ---------- *)
Definition rget (m : list (string * string)) (x : string) : string :=       (* m.get(x, x) *)
  match assoc x m with Some y => y | None => x end.
Definition keep (pruned : list string) (x : string) : bool := negb (mem_str x pruned).   (* x not in pruned *)

Definition pr_modifier rm (m : modifier) : modifier :=
  {| m_name := rget rm (m_name m); m_type := m_type m; m_data := m_data m |}.
Definition pr_sample pm pt rm rs (s : sample) : sample :=
  {| s_name := rget rs (s_name s); s_data := s_data s;
     s_mods := map (pr_modifier rm) (filter (fun m => keep pm (m_name m) && keep pt (m_type m)) (s_mods s)) |}.
Definition pr_channel pm pt ps rm rs rc (c : channel) : channel :=
  {| c_name := rget rc (c_name c);
     c_samples := map (pr_sample pm pt rm rs) (filter (fun s => keep ps (s_name s)) (c_samples c)) |}.
Definition pr_pconfig rm (p : pconfig) : pconfig :=
  {| p_name := rget rm (p_name p); p_inits := p_inits p; p_bounds := p_bounds p; p_auxdata := p_auxdata p;
     p_factors := p_factors p; p_sigmas := p_sigmas p; p_fixed := p_fixed p |}.
Definition pr_measurement pm rm rme (m : measurement) : measurement :=
  {| me_name := rget rme (me_name m); me_poi := rget rm (me_poi m);
     me_params := map (pr_pconfig rm) (filter (fun p => keep pm (p_name p)) (me_params m)) |}.
Definition pr_observation rc (o : observation) : observation := {| o_name := rget rc (o_name o); o_data := o_data o |}.

Definition pr_spec (w : workspace) (pm pt ps pc pme : list string) (rm rs rc rme : list (string * string)) : workspace :=
  {| w_channels := map (pr_channel pm pt ps rm rs rc) (filter (fun c => keep pc (c_name c)) (w_channels w));
     w_measurements := map (pr_measurement pm rm rme) (filter (fun m => keep pme (me_name m)) (w_measurements w));
     w_observations := map (pr_observation rc) (filter (fun o => keep pc (o_name o)) (w_observations w));
     w_version := w_version w |}.

Definition all_known (names known : list string) : bool := forallb (fun n => mem_str n known) names.

(* the modifier types prune_modifier_types is checked against.  via_dict = true is `dict(self.modifiers).values()`
   (a dict built from (name, type) pairs keeps one type per name); false is the set of types of all pairs.
   Which of the two the source uses is extracted on every run (gen/FactsC16.v). *)
Definition known_types (via_dict : bool) (w : workspace) : list string :=
  if via_dict then map snd (dict_of_pairs (ws_modifiers w)) else map snd (ws_modifiers w).

Definition prune_and_rename (via_dict : bool) (w : workspace) (pm pt ps pc pme : list string) (rm rs rc rme : list (string * string))
  : result workspace :=
  if negb (all_known pt (known_types via_dict w)) then Err InvalidWorkspaceOperation
  else if negb (all_known (pm ++ map fst rm) (map fst (dict_of_pairs (ws_modifiers w)))) then Err InvalidWorkspaceOperation   (* name not in dict(self.modifiers) *)
  else if negb (all_known (ps ++ map fst rs) (ws_samples w)) then Err InvalidWorkspaceOperation
  else if negb (all_known (pc ++ map fst rc) (ws_channels w)) then Err InvalidWorkspaceOperation
  else if negb (all_known (pme ++ map fst rme) (ws_measurement_names w)) then Err InvalidWorkspaceOperation
  else construct true (pr_spec w pm pt ps pc pme rm rs rc rme).

Definition prune (via_dict : bool) (w : workspace) (mods types samples chans meas : list string) : result workspace :=
  prune_and_rename via_dict w mods types samples chans meas [] [] [] [].
Definition rename (w : workspace) (mods samples chans meas : list (string * string)) : result workspace :=
  prune_and_rename false w [] [] [] [] [] mods samples chans meas.

(* ---------- Workspace.sorted ---------- *)
Definition sort_sample (s : sample) : sample :=
  {| s_name := s_name s; s_data := s_data s; s_mods := psort mod_key (s_mods s) |}.
Definition sort_channel (c : channel) : channel :=
  {| c_name := c_name c; c_samples := map sort_sample (ssort s_name (c_samples c)) |}.
Definition sort_measurement (m : measurement) : measurement :=
  {| me_name := me_name m; me_poi := me_poi m; me_params := ssort p_name (me_params m) |}.
Definition sorted_spec (w : workspace) : workspace :=
  {| w_channels := map sort_channel (ssort c_name (w_channels w));
     w_measurements := map sort_measurement (ssort me_name (w_measurements w));
     w_observations := ssort o_name (w_observations w);
     w_version := w_version w |}.
Definition sorted (w : workspace) : result workspace := construct true (sorted_spec w).

(* ---------- the JSON document of a workspace (every number rendered as a float) ---------- *)
Definition jq (x : Qc) : json := JNum true x.
Definition jqs (l : list Qc) : json := JArr (map jq l).
Definition json_of_mdata (d : mdata) : json :=
  match d with
  | MNull => JNull
  | MNormsys lo hi => JObj [("hi", jq hi); ("lo", jq lo)]
  | MHistosys lo hi => JObj [("hi_data", jqs hi); ("lo_data", jqs lo)]
  | MList l => jqs l
  end.
Definition json_of_modifier (m : modifier) : json :=
  JObj [("data", json_of_mdata (m_data m)); ("name", JStr (m_name m)); ("type", JStr (m_type m))].
Definition json_of_sample (s : sample) : json :=
  JObj [("data", jqs (s_data s)); ("modifiers", JArr (map json_of_modifier (s_mods s))); ("name", JStr (s_name s))].
Definition json_of_channel (c : channel) : json :=
  JObj [("name", JStr (c_name c)); ("samples", JArr (map json_of_sample (c_samples c)))].
Definition json_of_observation (o : observation) : json := JObj [("data", jqs (o_data o)); ("name", JStr (o_name o))].
Definition optfield {A} (k : string) (f : A -> json) (o : option A) : list (string * json) :=
  match o with Some a => [(k, f a)] | None => [] end.
Definition json_of_pconfig (p : pconfig) : json :=
  JObj (optfield "auxdata" jqs (p_auxdata p) ++ optfield "bounds" (fun l => JArr (map jqs l)) (p_bounds p) ++
        optfield "factors" jqs (p_factors p) ++ optfield "fixed" JBool (p_fixed p) ++ optfield "inits" jqs (p_inits p) ++
        [("name", JStr (p_name p))] ++ optfield "sigmas" jqs (p_sigmas p)).
Definition json_of_measurement (m : measurement) : json :=
  JObj [("config", JObj [("parameters", JArr (map json_of_pconfig (me_params m))); ("poi", JStr (me_poi m))]);
        ("name", JStr (me_name m))].
Definition json_of_ws (w : workspace) : json :=
  JObj [("channels", JArr (map json_of_channel (w_channels w)));
        ("measurements", JArr (map json_of_measurement (w_measurements w)));
        ("observations", JArr (map json_of_observation (w_observations w)));
        ("version", JStr (w_version w))].
