(* JSON trees as Python sees them (dicts = association lists with distinct keys),
   json.dumps(sort_keys=True) canonicalisation, structural sameness. *)
From Coq Require Import Bool Arith Lia Permutation String QArith Qcanon List.
Require Import PV.Sort.
Import ListNotations.
Local Open Scope list_scope.

Inductive json :=
| JNull
| JBool (b : bool)
| JNum (isfloat : bool) (v : Qc)     (* 1 and 1.0 are different documents *)
| JStr (s : string)
| JArr (l : list json)
| JObj (m : list (string * json)).

Section Ind.
  Variable P : json -> Prop.
  Hypothesis Hnull : P JNull.
  Hypothesis Hbool : forall b, P (JBool b).
  Hypothesis Hnum : forall f v, P (JNum f v).
  Hypothesis Hstr : forall s, P (JStr s).
  Hypothesis Harr : forall l, Forall P l -> P (JArr l).
  Hypothesis Hobj : forall m, Forall (fun kv => P (snd kv)) m -> P (JObj m).
  Fixpoint json_ind' (j : json) : P j :=
    match j with
    | JNull => Hnull | JBool b => Hbool b | JNum f v => Hnum f v | JStr s => Hstr s
    | JArr l => Harr l ((fix go (l : list json) : Forall P l :=
                           match l with [] => Forall_nil _ | x :: t => Forall_cons _ (json_ind' x) (go t) end) l)
    | JObj m => Hobj m ((fix go (m : list (string * json)) : Forall (fun kv => P (snd kv)) m :=
                           match m with [] => Forall_nil _
                                   | kv :: t => Forall_cons _ (json_ind' (snd kv)) (go t) end) m)
    end.
End Ind.

Fixpoint assoc {A} (k : string) (m : list (string * A)) : option A :=
  match m with [] => None | (k', v) :: t => if String.eqb k k' then Some v else assoc k t end.

Lemma assoc_in {A} k (m : list (string * A)) v : assoc k m = Some v -> In (k, v) m.
Proof. induction m as [|[k' v'] t IH]; simpl; [discriminate|].
  destruct (String.eqb_spec k k'); intros H; [inversion H; subst; now left|right; auto]. Qed.
Lemma in_assoc {A} k (m : list (string * A)) v : NoDup (map fst m) -> In (k, v) m -> assoc k m = Some v.
Proof. induction m as [|[k' v'] t IH]; simpl; [tauto|]. intros Hnd [H|H].
  - inversion H; subst. now rewrite String.eqb_refl.
  - inversion Hnd; subst. destruct (String.eqb_spec k k'); [subst; exfalso; apply H2; apply (in_map fst) in H; exact H|auto]. Qed.

(* python dicts never hold one key twice *)
Fixpoint wfj (j : json) : Prop :=
  match j with
  | JArr l => (fix go l := match l with [] => True | x :: t => wfj x /\ go t end) l
  | JObj m => NoDup (map fst m) /\ (fix go (m : list (string * json)) := match m with [] => True | kv :: t => wfj (snd kv) /\ go t end) m
  | _ => True
  end.
Lemma wfj_arr l : wfj (JArr l) <-> Forall wfj l.
Proof. simpl. induction l; simpl; split; intros H; auto; [destruct H; constructor; tauto| inversion H; tauto]. Qed.
Lemma wfj_obj m : wfj (JObj m) <-> NoDup (map fst m) /\ Forall (fun kv => wfj (snd kv)) m.
Proof. simpl. assert (E : forall m : list (string*json),
    (fix go (m : list (string * json)) := match m with [] => True | kv :: t => wfj (snd kv) /\ go t end) m
    <-> Forall (fun kv => wfj (snd kv)) m).
  { induction m0; simpl; split; intros H; auto; [destruct H; constructor; tauto|inversion H; tauto]. }
  rewrite E. tauto. Qed.

(* json.dumps(sort_keys=True): members of every object in key order, recursively *)
Fixpoint canon (j : json) : json :=
  match j with
  | JArr l => JArr (map canon l)
  | JObj m => JObj (ssort fst (map (fun kv => (fst kv, canon (snd kv))) m))
  | _ => j
  end.

(* sameness as documents: identical atoms (int/float tag included), arrays pointwise,
   objects with the same keys bound to the same values, in any listing order *)
Definition qeqb (a b : Qc) : bool := Qc_eq_bool a b.
Fixpoint jsame (a b : json) : bool :=
  match a, b with
  | JNull, JNull => true
  | JBool x, JBool y => Bool.eqb x y
  | JNum f x, JNum g y => Bool.eqb f g && qeqb x y
  | JStr s, JStr t => String.eqb s t
  | JArr l, JArr l' =>
      (fix go (l l' : list json) : bool :=
         match l, l' with
         | [], [] => true
         | x :: t, y :: t' => jsame x y && go t t'
         | _, _ => false end) l l'
  | JObj m, JObj m' =>
      Nat.eqb (length m) (length m') &&
      (fix go (m : list (string * json)) : bool :=
         match m with
         | [] => true
         | kv :: t => match assoc (fst kv) m' with Some v' => jsame (snd kv) v' | None => false end && go t
         end) m
  | _, _ => false
  end.

Lemma jsame_arr l l' : jsame (JArr l) (JArr l') = true <-> Forall2 (fun x y => jsame x y = true) l l'.
Proof. simpl. revert l'. induction l as [|x t IH]; intros [|y t']; split; intros H; try discriminate; try (now constructor); try (now inversion H).
  - apply andb_true_iff in H. destruct H as [H1 H2]. constructor; auto. now apply IH.
  - inversion H; subst. apply andb_true_iff. split; auto. now apply IH. Qed.
Lemma jsame_obj m m' : jsame (JObj m) (JObj m') = true <->
  length m = length m' /\ Forall (fun kv => exists v', assoc (fst kv) m' = Some v' /\ jsame (snd kv) v' = true) m.
Proof. simpl. rewrite andb_true_iff, Nat.eqb_eq.
  assert (E : forall m0 : list (string * json),
    (fix go (m : list (string * json)) : bool :=
         match m with [] => true
         | kv :: t => match assoc (fst kv) m' with Some v' => jsame (snd kv) v' | None => false end && go t end) m0 = true
    <-> Forall (fun kv => exists v', assoc (fst kv) m' = Some v' /\ jsame (snd kv) v' = true) m0).
  { induction m0 as [|kv t IH]; split; intros H; auto.
    - apply andb_true_iff in H. destruct H as [H1 H2]. constructor; [|now apply IH].
      destruct (assoc (fst kv) m'); [eauto|discriminate].
    - inversion H as [|? ? [v' [H1 H2]] H3]; subst. apply andb_true_iff. split; [now rewrite H1|now apply IH]. }
  rewrite E. tauto. Qed.

Definition cmap (m : list (string * json)) := map (fun kv => (fst kv, canon (snd kv))) m.
Lemma cmap_keys m : map fst (cmap m) = map fst m.
Proof. unfold cmap. rewrite map_map. reflexivity. Qed.

Lemma NoDup_keys_perm {A} (m m' : list (string * A)) :
  NoDup (map fst m) -> NoDup (map fst m') -> length m = length m' -> incl m m' -> Permutation m m'.
Proof. intros H1 H2 Hl Hi. apply NoDup_Permutation_bis; auto.
  - eapply NoDup_map_inv; eauto.
  - lia. Qed.

(* key order never matters *)
Theorem canon_same : forall a b, wfj a -> wfj b -> jsame a b = true -> canon a = canon b.
Proof.
  induction a using json_ind'; intros [] Ha Hb Hs; try discriminate Hs; simpl in Hs.
  - reflexivity.
  - apply Bool.eqb_prop in Hs. now subst.
  - apply andb_true_iff in Hs. destruct Hs as [H1 H2]. apply Bool.eqb_prop in H1. apply Qc_eq_bool_correct in H2. now subst.
  - apply String.eqb_eq in Hs. now subst.
  - change (jsame (JArr l) (JArr l0) = true) in Hs. apply jsame_arr in Hs. apply wfj_arr in Ha, Hb.
    simpl. f_equal. revert H Ha Hb. induction Hs as [|x y t t' Hxy Htt IH]; intros Hall Ha Hb; simpl; auto.
    inversion Hall; inversion Ha; inversion Hb; subst. f_equal; auto.
  - change (jsame (JObj m) (JObj m0) = true) in Hs. apply jsame_obj in Hs. destruct Hs as [Hl Hall].
    apply wfj_obj in Ha, Hb. destruct Ha as [Hnd Hwa]. destruct Hb as [Hnd0 Hwb].
    simpl. f_equal. fold (cmap m) (cmap m0). apply ssort_perm_eq; [now rewrite cmap_keys|].
    apply NoDup_keys_perm; try now rewrite cmap_keys. { unfold cmap. now rewrite !map_length. }
    intros [k cv] Hin. unfold cmap in Hin. apply in_map_iff in Hin. destruct Hin as [[k' v] [E Hin]]. simpl in E. inversion E; subst.
    rewrite Forall_forall in H, Hall, Hwa, Hwb.
    destruct (Hall _ Hin) as [v' [Hv' Hsame]]. simpl in *.
    apply assoc_in in Hv'. unfold cmap. apply in_map_iff. exists (k, v'). split; auto. simpl. f_equal.
    symmetry. apply (H _ Hin v'); [apply (Hwa _ Hin)|apply (Hwb _ Hv')|exact Hsame].
Qed.

(* every value matters *)
Theorem canon_inj : forall a b, wfj a -> wfj b -> canon a = canon b -> jsame a b = true.
Proof.
  induction a using json_ind'; intros [] Ha Hb Hc; simpl in Hc; try discriminate Hc.
  - reflexivity.
  - inversion Hc. simpl. apply Bool.eqb_reflx.
  - inversion Hc. simpl. rewrite Bool.eqb_reflx. simpl. unfold qeqb, Qc_eq_bool. destruct (Qc_eq_dec v0 v0); auto.
  - inversion Hc. simpl. apply String.eqb_refl.
  - inversion Hc as [Hm]. clear Hc. apply jsame_arr. apply wfj_arr in Ha, Hb.
    revert l0 Hm Hb. induction l as [|x t IH]; intros [|y t'] Hm Hb; simpl in Hm; try discriminate; constructor.
    + inversion H; inversion Ha; inversion Hb; inversion Hm; subst. auto.
    + inversion H; inversion Ha; inversion Hb; inversion Hm; subst. apply IH; auto.
  - inversion Hc as [Hm]. clear Hc. fold (cmap m) (cmap m0) in Hm. apply jsame_obj.
    apply wfj_obj in Ha, Hb. destruct Ha as [Hnd Hwa]. destruct Hb as [Hnd0 Hwb].
    assert (Hp : Permutation (cmap m) (cmap m0)).
    { rewrite <- (isort_perm _ String.leb _ fst (cmap m)). fold (ssort fst (cmap m)). rewrite Hm. apply isort_perm. }
    split. { apply Permutation_length in Hp. unfold cmap in Hp. now rewrite !map_length in Hp. }
    rewrite Forall_forall in *. intros [k v] Hin. simpl.
    assert (Hin' : In (k, canon v) (cmap m0)).
    { eapply Permutation_in; [exact Hp|]. unfold cmap. apply in_map_iff. exists (k, v). auto. }
    unfold cmap in Hin'. apply in_map_iff in Hin'. destruct Hin' as [[k' v'] [E Hin']]. simpl in E. inversion E; subst.
    exists v'. split; [now apply in_assoc|]. apply (H _ Hin v'); [apply (Hwa _ Hin)|apply (Hwb _ Hin')|simpl; congruence].
Qed.

Lemma canon_idem : forall a, wfj a -> canon (canon a) = canon a.
Proof.
  induction a using json_ind'; intros Ha; simpl; auto.
  - f_equal. apply wfj_arr in Ha. rewrite map_map. apply map_ext_in. intros x Hx. rewrite Forall_forall in *. auto.
  - f_equal. apply wfj_obj in Ha. destruct Ha as [Hnd Hw]. fold (cmap m).
    transitivity (ssort fst (ssort fst (cmap m))).
    + apply ssort_perm_eq.
      * unfold ssort. rewrite map_map. simpl.
        eapply Permutation_NoDup; [apply Permutation_map; symmetry; apply isort_perm|]. now rewrite cmap_keys.
      * set (S := ssort fst (cmap m)).
        assert (E : map (fun kv : string * json => (fst kv, canon (snd kv))) S = S).
        { rewrite <- (map_id S) at 2. apply map_ext_in. intros [k v] Hin. simpl. f_equal.
          unfold S, ssort in Hin. apply isort_in in Hin. unfold cmap in Hin. apply in_map_iff in Hin.
          destruct Hin as [[k' v'] [E Hin]]. simpl in E. inversion E; subst. rewrite Forall_forall in *. apply (H _ Hin). apply (Hw _ Hin). }
        rewrite E. reflexivity.
    + unfold ssort. apply isort_idem; [exact String.leb_total|exact str_leb_trans|exact String.leb_antisym|]. now rewrite cmap_keys.
Qed.
