(* C05 - the certificate values computed at Qc are the certificate values of the theorems over R:
   Qc2R is a field and order homomorphism, and the generic-Num text of FitCert commutes with it
   (division only under the guards the check itself evaluates: every Poisson rate positive). *)
From Coq Require Import ZArith QArith Qcanon Qreals Reals Lra Lia Bool List.
Require Import PV.Num PV.FitCert.
Import ListNotations.
Local Open Scope list_scope.

Lemma Qc2R_Q2R (a : Qc) : Qc2R a = Q2R (this a).
Proof. reflexivity. Qed.
Lemma Q2R_Q2Qc (q : Q) : Q2R (this (Q2Qc q)) = Q2R q.
Proof. apply Qeq_eqR. simpl. apply Qred_correct. Qed.

Lemma h_add a b : Qc2R (a + b)%Qc = (Qc2R a + Qc2R b)%R.
Proof. rewrite !Qc2R_Q2R. unfold Qcplus. rewrite Q2R_Q2Qc. apply Q2R_plus. Qed.
Lemma h_mul a b : Qc2R (a * b)%Qc = (Qc2R a * Qc2R b)%R.
Proof. rewrite !Qc2R_Q2R. unfold Qcmult. rewrite Q2R_Q2Qc. apply Q2R_mult. Qed.
Lemma h_opp a : Qc2R (- a)%Qc = (- Qc2R a)%R.
Proof. rewrite !Qc2R_Q2R. unfold Qcopp. rewrite Q2R_Q2Qc. apply Q2R_opp. Qed.
Lemma h_sub a b : Qc2R (a - b)%Qc = (Qc2R a - Qc2R b)%R.
Proof. unfold Qcminus. rewrite h_add, h_opp. reflexivity. Qed.
Lemma h_0 : Qc2R 0%Qc = 0%R.
Proof. rewrite Qc2R_Q2R. simpl. unfold Q2R. simpl. lra. Qed.
Lemma h_1 : Qc2R 1%Qc = 1%R.
Proof. rewrite Qc2R_Q2R. simpl. unfold Q2R. simpl. lra. Qed.
Lemma h_eq0 a : Qc2R a = 0%R <-> a = 0%Qc.
Proof. split; intros H; [|subst; apply h_0]. apply Qc_is_canon. rewrite Qc2R_Q2R in H.
  apply eqR_Qeq. rewrite H. unfold Q2R. simpl. lra. Qed.
Lemma h_inv a : a <> 0%Qc -> Qc2R (/ a)%Qc = (/ Qc2R a)%R.
Proof. intros H. rewrite !Qc2R_Q2R. unfold Qcinv. rewrite Q2R_Q2Qc. apply Q2R_inv.
  intros E. apply H. apply Qc_is_canon. exact E. Qed.
Lemma h_div a b : b <> 0%Qc -> Qc2R (a / b)%Qc = (Qc2R a / Qc2R b)%R.
Proof. intros H. unfold Qcdiv. rewrite h_mul, h_inv by exact H. reflexivity. Qed.
Lemma h_lt a b : qltb a b = rltb (Qc2R a) (Qc2R b).
Proof. unfold rltb. destruct (Rlt_dec (Qc2R a) (Qc2R b)) as [H|H].
  - apply qltb_lt. rewrite !Qc2R_Q2R in H. apply Rlt_Qlt in H. exact H.
  - destruct (qltb a b) eqn:E; auto. apply qltb_lt in E. exfalso. apply H. rewrite !Qc2R_Q2R. apply Qlt_Rlt. exact E. Qed.
Lemma h_eqb0 a : Qc_eq_bool a 0%Qc = reqb (Qc2R a) 0%R.
Proof. unfold reqb, Qc_eq_bool. destruct (Req_EM_T (Qc2R a) 0%R) as [E|E]; destruct (Qc_eq_dec a 0%Qc) as [Z|N]; auto.
  - exfalso. apply N. now apply h_eq0.
  - exfalso. apply E. rewrite Z. apply h_0. Qed.

Definition hv (l : list Qc) : list R := map Qc2R l.
Definition hterm (t : term QcNum) : term RNum :=
  match t with TPois n c a => @TPois RNum (Qc2R n) (Qc2R c) (hv a) | TGauss w aux c a => @TGauss RNum (Qc2R w) (Qc2R aux) (Qc2R c) (hv a) end.
Definition hbox (b : list (Qc * Qc)) : list (R * R) := map (fun p => (Qc2R (fst p), Qc2R (snd p))) b.

Lemma h_sadd a b : Qc2R (sadd QcNum a b) = sadd RNum (Qc2R a) (Qc2R b).
Proof. unfold sadd. simpl. rewrite <- !h_eqb0. destruct (Qc_eq_bool a 0%Qc); auto. destruct (Qc_eq_bool b 0%Qc); auto. apply h_add. Qed.
Lemma h_smul a b : Qc2R (smul QcNum a b) = smul RNum (Qc2R a) (Qc2R b).
Proof. unfold smul. simpl. rewrite <- !h_eqb0. destruct (Qc_eq_bool a 0%Qc); [apply h_0|]. destruct (Qc_eq_bool b 0%Qc); [apply h_0|]. apply h_mul. Qed.

Lemma h_dot a x : Qc2R (dot QcNum a x) = dot RNum (hv a) (hv x).
Proof. revert x. induction a as [|u a IH]; intros [|v x]; simpl; try apply h_0. rewrite h_sadd, h_smul, IH. reflexivity. Qed.
Lemma h_vsub a b : hv (vsub QcNum a b) = vsub RNum (hv a) (hv b).
Proof. revert b. induction a as [|u a IH]; intros [|v b]; simpl; auto. rewrite IH. f_equal. apply h_sub. Qed.
Lemma h_vadd a b : hv (vadd QcNum a b) = vadd RNum (hv a) (hv b).
Proof. revert b. induction a as [|u a IH]; intros [|v b]; simpl; auto. rewrite IH. f_equal. apply h_sadd. Qed.
Lemma h_scale k a : hv (scale QcNum k a) = scale RNum (Qc2R k) (hv a).
Proof. unfold scale, hv. rewrite !map_map. apply map_ext. intros u. apply h_smul. Qed.
Lemma h_arg t x : Qc2R (arg QcNum t x) = arg RNum (hterm t) (hv x).
Proof. destruct t; simpl; change (Qc2R (c + dot QcNum a x)%Qc = (Qc2R c + dot RNum (hv a) (hv x))%R); now rewrite h_add, h_dot. Qed.
Lemma h_coefs t : hv (coefs QcNum t) = coefs RNum (hterm t).
Proof. destruct t; reflexivity. Qed.

(* the guard the check evaluates: Poisson arguments are non-zero (they are checked positive) *)
Definition guard (t : term QcNum) (x : list Qc) : Prop :=
  match t with TPois _ _ _ => arg QcNum t x <> 0%Qc | TGauss _ _ _ _ => True end.
Lemma h_dphi t x : guard t x -> Qc2R (dphi QcNum t (arg QcNum t x)) = dphi RNum (hterm t) (arg RNum (hterm t) (hv x)).
Proof. intros G. rewrite <- h_arg. destruct t as [n c a|w aux c a]; simpl in *.
  - change (Qc2R (1 - n / (c + dot QcNum a x))%Qc = (1 - Qc2R n / Qc2R (c + dot QcNum a x)%Qc)%R).
    rewrite h_sub, h_1, h_div by exact G. reflexivity.
  - change (Qc2R (w * ((c + dot QcNum a x) - aux))%Qc = (Qc2R w * (Qc2R (c + dot QcNum a x)%Qc - Qc2R aux))%R).
    now rewrite h_mul, h_sub. Qed.

Lemma rates_pos_guard terms x : rates_posb QcNum terms x = true -> Forall (fun t => guard t x) terms.
Proof. unfold rates_posb. rewrite forallb_forall. intros H. apply Forall_forall. intros t Ht. specialize (H t Ht).
  destruct t as [n c a|]; simpl; auto. apply andb_true_iff in H. destruct H as [H _]. simpl in H.
  apply qltb_lt in H. intros E. change (arg QcNum (TPois n c a) x) with (c + dot QcNum a x)%Qc in E. rewrite E in H.
  apply Qclt_not_eq in H. apply H. reflexivity. Qed.

Theorem gapbound_transfer terms star w : Forall (fun t => guard t star) terms ->
  Qc2R (gapbound QcNum terms star w) = gapbound RNum (map hterm terms) (hv star) (hv w).
Proof. induction 1 as [|t r G Gr IH]; simpl; [apply h_0|].
  rewrite h_sadd, h_smul, IH. rewrite (h_dphi t star G). f_equal. f_equal.
  change (Qc2R (arg QcNum t star - arg QcNum t w)%Qc = (arg RNum (hterm t) (hv star) - arg RNum (hterm t) (hv w))%R).
  now rewrite h_sub, !h_arg. Qed.

Lemma h_repeat0 m : hv (repeat 0%Qc m) = repeat 0%R m.
Proof. induction m; simpl; auto. rewrite IHm. f_equal. apply h_0. Qed.
Lemma h_grad m terms x : Forall (fun t => guard t x) terms ->
  hv (grad QcNum m terms x) = grad RNum m (map hterm terms) (hv x).
Proof. induction 1 as [|t r G Gr IH]; simpl; [apply h_repeat0|].
  rewrite h_vadd, h_scale, IH, h_coefs. rewrite (h_dphi t x G). reflexivity. Qed.
Lemma h_eps1 g x lo hi : Qc2R (eps1 QcNum g x lo hi) = eps1 RNum (Qc2R g) (Qc2R x) (Qc2R lo) (Qc2R hi).
Proof. assert (L1 : qltb 0%Qc g = rltb 0%R (Qc2R g)) by (rewrite h_lt, h_0; reflexivity).
  assert (L2 : qltb g 0%Qc = rltb (Qc2R g) 0%R) by (rewrite h_lt, h_0; reflexivity).
  unfold eps1. simpl. rewrite <- L1, <- L2.
  destruct (qltb 0%Qc g). { change (Qc2R (g * (x - lo))%Qc = (Qc2R g * (Qc2R x - Qc2R lo))%R). now rewrite h_mul, h_sub. }
  destruct (qltb g 0%Qc); [|apply h_0].
  change (Qc2R ((0 - g) * (hi - x))%Qc = ((0 - Qc2R g) * (Qc2R hi - Qc2R x))%R). now rewrite h_mul, !h_sub, h_0. Qed.
Lemma h_eps_sum g x box : Qc2R (eps_sum QcNum g x box) = eps_sum RNum (hv g) (hv x) (hbox box).
Proof. revert x box. induction g as [|gi g IH]; intros [|xi x] [|[lo hi] box]; simpl; try apply h_0.
  rewrite h_sadd, h_eps1, IH. reflexivity. Qed.

Theorem eps_transfer terms x box : rates_posb QcNum terms x = true ->
  Qc2R (eps QcNum terms x box) = eps RNum (map hterm terms) (hv x) (hbox box).
Proof. intros H. unfold eps. rewrite h_eps_sum. rewrite h_grad by (apply rates_pos_guard; exact H).
  unfold hv at 3. rewrite map_length. reflexivity. Qed.

Theorem certificate_transfer terms star w box :
  rates_posb QcNum terms star = true -> rates_posb QcNum terms w = true ->
  Qc2R (gapbound QcNum terms star w + eps QcNum terms w box)%Qc
  = (gapbound RNum (map hterm terms) (hv star) (hv w) + eps RNum (map hterm terms) (hv w) (hbox box))%R.
Proof. intros H1 H2. rewrite h_add, gapbound_transfer by (apply rates_pos_guard; exact H1). now rewrite eps_transfer. Qed.

(* ---- the executable side conditions imply the premises of the theorems over R ---- *)
Lemma h_le a b : qleb a b = true -> (Qc2R a <= Qc2R b)%R.
Proof. intros H. apply qleb_le in H. rewrite !Qc2R_Q2R. apply Qle_Rle. exact H. Qed.
Lemma h_lt_true a b : qltb a b = true -> (Qc2R a < Qc2R b)%R.
Proof. intros H. apply qltb_lt in H. rewrite !Qc2R_Q2R. apply Qlt_Rlt. exact H. Qed.

Lemma rates_pos_ok terms x : rates_posb QcNum terms x = true -> Forall (fun t => term_ok t (hv x)) (map hterm terms).
Proof. unfold rates_posb. rewrite forallb_forall. intros H. apply Forall_forall. intros t' Ht'.
  apply in_map_iff in Ht'. destruct Ht' as [t [<- Ht]]. specialize (H t Ht). destruct t as [n c a|w aux c a]; simpl in *.
  - apply andb_true_iff in H. destruct H as [H1 H2]. split.
    + rewrite <- h_0. apply h_le. exact H2.
    + change (0 < arg RNum (hterm (@TPois QcNum n c a)) (hv x))%R. rewrite <- h_arg, <- h_0. apply h_lt_true. exact H1.
  - rewrite <- h_0. apply h_le. exact H. Qed.

Lemma in_boxb_ok x box : in_boxb QcNum x box = true -> in_box (hv x) (hbox box).
Proof. revert box. induction x as [|xi x IH]; intros [|[lo hi] box] H; simpl in *; try discriminate; try constructor.
  - apply andb_true_iff in H. destruct H as [H _]. apply andb_true_iff in H. destruct H as [H1 H2]. simpl. split; apply h_le; assumption.
  - apply IH. apply andb_true_iff in H. tauto. Qed.

Lemma shapes_ok m terms : shapes_okb QcNum m terms = true -> Forall (fun t => length (coefs RNum t) = m) (map hterm terms).
Proof. unfold shapes_okb. rewrite forallb_forall. intros H. apply Forall_forall. intros t' Ht'.
  apply in_map_iff in Ht'. destruct Ht' as [t [<- Ht]]. specialize (H t Ht). apply Nat.eqb_eq in H.
  rewrite <- h_coefs. unfold hv. now rewrite map_length. Qed.

(* what the check computes in Qc is an upper bound, over R, of the excess of f at the returned point over every feasible point *)
Theorem checked_certificate terms star w box :
  shapes_okb QcNum (length w) terms = true ->
  rates_posb QcNum terms star = true -> rates_posb QcNum terms w = true -> in_boxb QcNum w box = true ->
  forall theta, in_box theta (hbox box) -> Forall (fun t => term_ok t theta) (map hterm terms) ->
  (fR (map hterm terms) (hv star) - fR (map hterm terms) theta <= Qc2R (gapbound QcNum terms star w + eps QcNum terms w box)%Qc)%R.
Proof. intros Hs Hp Hw Hb theta Bt Ot. rewrite (certificate_transfer terms star w box Hp Hw).
  apply kkt_certificate_gap; auto.
  - unfold hv. rewrite map_length. apply shapes_ok. exact Hs.
  - apply rates_pos_ok. exact Hp.
  - apply in_boxb_ok. exact Hb.
  - apply rates_pos_ok. exact Hw. Qed.
