(* C02, the staterror family: the variances computed by staterror_builder.finalize (sums over ALL sorted global samples,
   zeros for the samples that do not carry the modifier, components laid out along the first carrier's mask) are the
   template's quadrature sums over the channel's carrying samples, at the component the template names. *)
From Coq Require Import Bool Arith Lia Permutation Sorting.Sorted Ring String List.
Require Import PV.Num PV.Sort PV.Spec PV.Impl PV.Ref PV.Wf PV.Config PV.RefineLookup PV.RefineMonoid PV.RefineRates PV.RefineParams
               PV.RefineTerms PV.RefineTermsBlocks PV.RefineTermsTop PV.RefineTermsFam.
Import ListNotations.
Local Open Scope list_scope.

(* ---------- blocks ---------- *)
Section BlockLemmas.
  Variable size : string -> nat.
  Lemma map_seq_shift {A} (F : nat -> A) : forall n s, map F (seq s n) = tab n (fun b => F (s + b)%nat).
  Proof.
    unfold tab. induction n as [|n IH]; intros s; [reflexivity|]. simpl. f_equal; [f_equal; lia|].
    rewrite (IH (S s)). rewrite <- seq_shift, map_map. apply map_ext. intros i. f_equal. lia.
  Qed.
  Lemma tab_blocks {A} (F : nat -> A) : forall ks s, NoDup ks ->
    map F (seq s (block_total size ks)) = flat_map (fun k => tab (size k) (fun b => F (s + block_off size ks k + b))) ks.
  Proof.
    induction ks as [|k t IH]; intros s Hnd; [reflexivity|]. inversion Hnd as [|? ? Hni Hnd']; subst.
    unfold block_total in *. simpl. rewrite seq_app, map_app. f_equal.
    - rewrite String.eqb_refl. rewrite map_seq_shift. apply tab_ext. intros i _. f_equal. lia.
    - rewrite IH by assumption. apply flat_map_ext_in. intros k' Hk'.
      destruct (String.eqb_spec k k') as [->|ne]; [contradiction|]. apply tab_ext. intros i _. f_equal. lia.
  Qed.
  Lemma nth_tab {A} (d : A) n (f : nat -> A) b : (b < n)%nat -> nth b (tab n f) d = f b.
  Proof.
    intros Hb. unfold tab. rewrite (nth_indep _ d (f O)) by (rewrite map_length, seq_length; exact Hb).
    rewrite map_nth, seq_nth by exact Hb. reflexivity.
  Qed.
  Lemma nth_blocks {A} (d : A) (g : string -> nat -> A) : forall ks k b, NoDup ks -> In k ks -> (b < size k)%nat ->
    nth (block_off size ks k + b) (flat_map (fun k => tab (size k) (g k)) ks) d = g k b.
  Proof.
    induction ks as [|a t IH]; intros k b Hnd Hin Hb; [destruct Hin|]. inversion Hnd as [|? ? Hni Hnd']; subst. simpl.
    destruct (String.eqb_spec a k) as [->|ne].
    - rewrite app_nth1 by (rewrite tab_length; simpl; exact Hb). simpl. now apply nth_tab.
    - destruct Hin as [e|Hin]; [contradiction|].
      rewrite app_nth2 by (rewrite tab_length; lia). rewrite tab_length.
      replace (size a + block_off size t k + b - size a)%nat with (block_off size t k + b)%nat by lia. now apply IH.
  Qed.
  Lemma block_off_app ks1 k ks2 : ~ In k ks1 -> block_off size (ks1 ++ k :: ks2) k = block_total size ks1.
  Proof.
    induction ks1 as [|a t IH]; intros Hni; simpl.
    - now rewrite String.eqb_refl.
    - destruct (String.eqb_spec a k) as [->|ne]; [exfalso; apply Hni; now left|].
      unfold block_total in *. simpl. f_equal. apply IH. intros H. apply Hni. now right.
  Qed.
  Lemma block_total_length {A} (g : string -> nat -> A) ks : length (flat_map (fun k => tab (size k) (g k)) ks) = block_total size ks.
  Proof. unfold block_total. induction ks as [|k t IH]; simpl; auto. now rewrite app_length, tab_length, IH. Qed.
End BlockLemmas.

(* ---------- sorted lists of names ---------- *)
Lemma ss_split {A} (R : A -> A -> Prop) : forall l1 x l2, StronglySorted R (l1 ++ x :: l2) ->
  Forall (fun y => R y x) l1 /\ Forall (R x) l2.
Proof.
  induction l1 as [|a l1 IH]; intros x l2 H; simpl in H.
  - inversion H; subst. split; [constructor|assumption].
  - inversion H as [|? ? Hs Hf]; subst. destruct (IH _ _ Hs) as [H1 H2]. split; auto. constructor; auto.
    rewrite Forall_forall in Hf. apply Hf. apply in_or_app. right. now left.
Qed.
Lemma leb_neq_ltb a b : String.leb a b = true -> a <> b -> String.ltb a b = true.
Proof.
  unfold String.leb, String.ltb. destruct (String.compare a b) eqn:E; intros H Hne; try discriminate; auto.
  apply String.compare_eq_iff in E. contradiction.
Qed.
Lemma leb_not_ltb a b : String.leb a b = true -> String.ltb b a = false.
Proof.
  unfold String.leb, String.ltb. rewrite (String.compare_antisym b a). destruct (String.compare a b); simpl; intros H; try discriminate; auto.
Qed.
Lemma sum_map_perm {A} (f : A -> nat) l l' : Permutation l l' -> fold_right Nat.add O (map f l) = fold_right Nat.add O (map f l').
Proof.
  intros Hp. apply (foldm_perm nat Nat.add O); [intros; lia|intros; lia|]. now apply Permutation_map.
Qed.
Lemma sum_filter {A} (f : A -> nat) (P : A -> bool) l :
  fold_right Nat.add O (map f (filter P l)) = fold_right Nat.add O (map (fun x => if P x then f x else O) l).
Proof. induction l as [|a l IH]; simpl; auto. destruct (P a); simpl; now rewrite IH. Qed.

Section Stat.
  Variable N : Num.
  Notation V := (V N).
  Notation "0" := (n0 N). Notation "1" := (n1 N).
  Infix "+" := (nadd N). Infix "*" := (nmul N). Infix "/" := (ndiv N).
  Hypothesis Hring : ring_theory 0 1 (nadd N) (nmul N) (nsub N) (nopp N) eq.
  Add Ring NRs : Hring.
  Hypothesis Heqb : forall a b : V, neqb N a b = true -> a = b.
  Hypothesis Hdiv : forall a b : V, a / b = a * ninv N b.
  Variable sp : spec N.
  Variable md : model N.
  Hypothesis Hb : build N sp = Ok md.
  Notation chs := (cfg_channels N sp).
  Notation smps := (cfg_samples N sp).
  Notation mods := (cfg_modifiers N sp).
  Notation requ := (required N sp chs smps mods).
  Notation ps := (md_psets N md).
  Notation listed := (listed N sp).

  Let Hchan := accepted_distinct_channels N sp md Hb.
  Let Hsamp := fun c => accepted_distinct_samples N sp md c Hb.
  Let Hmods := fun c s => accepted_distinct_modifiers N sp md c s Hb.

  Section OneName.
  Variable n : string.
  Notation k := (n, tyname Staterror).
  Hypothesis Hk : In k (mods_of mods Staterror).
  Variable s0 : string.
  Hypothesis Hs0 : first_carrier N sp chs smps k = Some s0.

  Lemma s0_carrier : In s0 smps /\ carries N sp chs k s0 = true.
  Proof. unfold first_carrier in Hs0. apply find_some in Hs0. exact Hs0. Qed.

  Lemma in_gpos cn b : In cn chs -> (b < nbins N sp cn)%nat -> In (cn, b) (gpos N sp chs).
  Proof.
    intros Hc Hlt. unfold gpos. apply in_flat_map. exists cn. split; auto. unfold tab. apply in_map_iff. exists b. split; auto.
    apply in_seq. lia.
  Qed.

  (* all carriers have the mask of the first one (staterror_builder.finalize refuses anything else) *)
  Lemma masks_consistent sn cn b : In sn smps -> carries N sp chs k sn = true -> In cn chs -> (b < nbins N sp cn)%nat ->
    declared N sp cn sn k = declared N sp cn s0 k.
  Proof.
    intros Hsn Hcar Hcn Hlt.
    pose proof (af_stat_masks N sp (build_ok_facts N sp md Hb)) as Hm.
    apply (forallb_in _ _ k) in Hm; [|exact Hk]. unfold stat_masks_consistent in Hm. rewrite Hs0 in Hm.
    apply (forallb_in _ _ sn) in Hm; [|exact Hsn]. cbv beta in Hm. rewrite Hcar in Hm. simpl in Hm.
    apply (list_eqb_eq Bool.eqb Bool.eqb_prop) in Hm. unfold maskrow in Hm.
    exact (ext_in_map Hm (cn, b) (in_gpos cn b Hcn Hlt)).
  Qed.

  Lemma key_of_mod (m : modifier N) : mkey m = k <-> m_name m = n /\ m_type m = Staterror.
  Proof.
    unfold mkey. split.
    - intros H. inversion H. split; auto. now apply tyname_inj.
    - intros [-> ->]. reflexivity.
  Qed.
  Lemma has_mod_iff (s : sample N) : has_mod N s n Staterror = true <-> exists m, In m (s_mods s) /\ mkey m = k.
  Proof.
    unfold has_mod. rewrite existsb_exists. split.
    - intros [m [Hm H]]. apply andb_true_iff in H. destruct H as [H1 H2]. apply String.eqb_eq in H1. apply mtype_eqb_eq in H2.
      exists m. split; auto. apply key_of_mod. auto.
    - intros [m [Hm H]]. apply key_of_mod in H. destruct H as [H1 H2]. exists m. split; auto.
      apply andb_true_iff. split; [now apply String.eqb_eq|now apply mtype_eqb_eq].
  Qed.

  Lemma declared_listed cn sn : declared N sp cn sn k = true ->
    exists c s m, listed c s m /\ c_name c = cn /\ s_name s = sn /\ mkey m = k.
  Proof.
    unfold declared. destruct (cellmod N sp cn sn k) as [m|] eqn:E; [|discriminate]. intros _.
    apply cellmod_listed in E. destruct E as (c & s & Hl & H1 & H2 & H3). exists c, s, m. auto.
  Qed.
  Lemma declared_chan_has c sn : In c (channels sp) -> declared N sp (c_name c) sn k = true -> chan_has N c n Staterror = true.
  Proof.
    intros Hc Hd. apply declared_listed in Hd. destruct Hd as (c' & s & m & (Hc' & Hs & Hm) & Ec & Es & Ek).
    assert (c' = c) by (apply (channel_unique N sp Hchan); auto). subst c'.
    unfold chan_has. apply existsb_exists. exists s. split; auto. apply has_mod_iff. eauto.
  Qed.
  Lemma chan_has_listed c : In c (channels sp) -> chan_has N c n Staterror = true -> exists s m, listed c s m /\ mkey m = k.
  Proof.
    intros Hc H. unfold chan_has in H. apply existsb_exists in H. destruct H as [s [Hs H]]. apply has_mod_iff in H.
    destruct H as [m [Hm Hkm]]. exists s, m. unfold RefineParams.listed. auto.
  Qed.
  Lemma chan_has_declared c : In c (channels sp) -> chan_has N c n Staterror = true -> (0 < chan_nbins N c)%nat ->
    declared N sp (c_name c) s0 k = true.
  Proof.
    intros Hc H Hpos. destruct (chan_has_listed c Hc H) as (s & m & Hl & Hkm).
    pose proof (listed_declared N sp md Hb c s m Hl) as Hd. pose proof (listed_carries N sp md Hb c s m Hl) as Hcar.
    destruct (listed_names N sp c s m Hl) as (Hcn & Hsn & _). destruct (listed_nbins N sp md Hb c s m Hl) as (Hnb & _).
    rewrite Hkm in Hd, Hcar. rewrite <- (masks_consistent (s_name s) (c_name c) O Hsn Hcar Hcn); [exact Hd|lia].
  Qed.
  Lemma nbins_chan c : In c (channels sp) -> nbins N sp (c_name c) = chan_nbins N c.
  Proof. intros Hc. exact (nbins_is N sp Hchan c Hc). Qed.
  Lemma wbins_chan c : In c (channels sp) ->
    wbins N sp k s0 (c_name c) = if chan_has N c n Staterror then chan_nbins N c else O.
  Proof.
    intros Hc. unfold wbins. rewrite (nbins_chan c Hc).
    destruct (declared N sp (c_name c) s0 k) eqn:Ed, (chan_has N c n Staterror) eqn:Eh; auto.
    - rewrite (declared_chan_has c s0 Hc Ed) in Eh. discriminate.
    - destruct (chan_nbins N c) eqn:En; auto. rewrite (chan_has_declared c Hc Eh) in Ed; [discriminate|lia].
  Qed.

  (* the variances computed by finalize, channel by channel *)
  Lemma stat_vars_blocks :
    stat_vars N sp chs smps k = flat_map (fun cn => tab (wbins N sp k s0 cn) (stat_relvar N sp chs smps k cn)) chs.
  Proof.
    unfold stat_vars. rewrite Hs0. unfold gpos. rewrite flat_map_flat_map. apply flat_map_ext_in. intros cn _.
    unfold wbins, tab. rewrite flat_map_map. cbn [fst snd]. destruct (declared N sp cn s0 k).
    - induction (seq O (nbins N sp cn)) as [|a l IH]; cbn [flat_map map app]; [reflexivity|]. rewrite IH. reflexivity.
    - induction (seq O (nbins N sp cn)); simpl; auto.
  Qed.

  Lemma NoDup_map_filter {A B} (f : A -> B) (P : A -> bool) l : NoDup (map f l) -> NoDup (map f (filter P l)).
  Proof.
    induction l as [|a l IH]; simpl; intros H; [constructor|]. inversion H as [|? ? Hni H']; subst.
    destruct (P a); simpl; auto. constructor; auto. intros Hin. apply Hni. apply in_map_iff in Hin.
    destruct Hin as [x [Hx Hin]]. apply filter_In in Hin. apply in_map_iff. exists x. tauto.
  Qed.
  Lemma add_comm' a b : a + b = b + a. Proof. ring. Qed.
  Lemma add_assoc' a b c : a + (b + c) = (a + b) + c. Proof. ring. Qed.
  Lemma add_0' a : 0 + a = a. Proof. ring. Qed.
  Lemma div_0 x : 0 / x = 0. Proof. rewrite Hdiv. ring. Qed.

  Section OneBin.
    Variable c : channel N.
    Hypothesis Hc : In c (channels sp).
    Hypothesis Hh : chan_has N c n Staterror = true.
    Variable b : nat.
    Hypothesis Hlt : (b < chan_nbins N c)%nat.
    Notation cn := (c_name c).
    Definition carriers_c : list (sample N) := filter (fun s => has_mod N s n Staterror) (c_samples c).

    Lemma cn_in : In cn chs.
    Proof. apply sort_uniq_in. now apply in_map. Qed.
    Lemma carriers_nodup : NoDup (map s_name carriers_c).
    Proof. apply NoDup_map_filter. exact (Hsamp c Hc). Qed.
    Lemma carrier_facts s : In s carriers_c ->
      exists m, listed c s m /\ mkey m = k /\ In (s_name s) smps /\ carries N sp chs k (s_name s) = true.
    Proof.
      intros Hs. apply filter_In in Hs. destruct Hs as [Hs Hm]. apply has_mod_iff in Hm. destruct Hm as [m [Hm Hkm]].
      assert (Hl : listed c s m) by (unfold RefineParams.listed; auto).
      exists m. split; auto. split; auto. destruct (listed_names N sp c s m Hl) as (_ & Hsn & _). split; auto.
      rewrite <- Hkm. exact (listed_carries N sp md Hb c s m Hl).
    Qed.
    (* a sample that carries the modifier anywhere carries it in this channel *)
    Lemma global_carrier_local sn : In sn smps -> carries N sp chs k sn = true -> In sn (map s_name carriers_c).
    Proof.
      intros Hsn Hcar.
      assert (Hd : declared N sp cn sn k = true).
      { rewrite (masks_consistent sn cn b Hsn Hcar cn_in) by (rewrite (nbins_chan c Hc); exact Hlt).
        apply (chan_has_declared c Hc Hh). lia. }
      apply declared_listed in Hd. destruct Hd as (c' & s & m & (Hc' & Hs & Hm) & Ec & Es & Ek).
      assert (c' = c) by (apply (channel_unique N sp Hchan); auto). subst c'.
      apply in_map_iff. exists s. split; auto. unfold carriers_c. apply filter_In. split; auto. apply has_mod_iff. eauto.
    Qed.

    Lemma tot_eq : stat_nomsall N sp chs smps k cn b = rsum N (map (fun s => nth b (s_data s) 0) carriers_c).
    Proof.
      unfold stat_nomsall, sumV, rsum.
      pose proof (foldm_superset V (nadd N) 0 add_comm' add_assoc' add_0' (fun sn => nomf N sp cn sn b)
                    (map s_name carriers_c) (filter (carries N sp chs k) smps) carriers_nodup) as P.
      unfold foldm in P. rewrite P.
      - rewrite map_map. f_equal. apply map_ext_in. intros s Hs. apply filter_In in Hs. destruct Hs as [Hs _].
        unfold nomf. now rewrite (cell_present N sp Hchan Hsamp c s Hc Hs).
      - apply NoDup_filter. apply sort_uniq_nodup.
      - intros sn Hsn. apply in_map_iff in Hsn. destruct Hsn as [s [<- Hs]].
        destruct (carrier_facts s Hs) as (m & _ & _ & H1 & H2). apply filter_In. auto.
      - intros sn Hsn Hni. exfalso. apply Hni. apply filter_In in Hsn. destruct Hsn. now apply global_carrier_local.
    Qed.

    Lemma uncf_carrier s : In s carriers_c -> uncf N sp cn (s_name s) k b = stat_unc N s n b.
    Proof.
      intros Hs. destruct (carrier_facts s Hs) as (m & Hl & Hkm & _).
      unfold uncf. rewrite <- Hkm. rewrite (listed_cellmod N sp md Hb c s m Hl).
      unfold stat_unc. destruct Hl as (_ & Hs' & Hm).
      assert (Hfind : find (fun m0 => String.eqb (m_name m0) n && mtype_eqb (m_type m0) Staterror) (s_mods s) = Some m).
      { apply find_unique; auto.
        - apply key_of_mod in Hkm. destruct Hkm as [-> ->]. now rewrite String.eqb_refl.
        - intros y Hy Hp. apply andb_true_iff in Hp. destruct Hp as [H1 H2]. apply String.eqb_eq in H1. apply mtype_eqb_eq in H2.
          apply (NoDup_map_inj_in mkey (s_mods s) y m (Hmods c s Hc Hs')); auto. rewrite Hkm. apply key_of_mod. auto. }
      rewrite Hfind. unfold mdlist. destruct (m_data m); try reflexivity; now destruct b.
    Qed.
    Lemma uncf_noncarrier sn : ~ In sn (map s_name carriers_c) -> uncf N sp cn sn k b = 0.
    Proof.
      intros Hni. unfold uncf. destruct (cellmod N sp cn sn k) as [m|] eqn:E; auto. exfalso. apply Hni.
      apply cellmod_listed in E. destruct E as (c' & s & (Hc' & Hs & Hm) & Ec & Es & Ek).
      assert (c' = c) by (apply (channel_unique N sp Hchan); auto). subst c'.
      apply in_map_iff. exists s. split; auto. unfold carriers_c. apply filter_In. split; auto. apply has_mod_iff. eauto.
    Qed.

    Lemma relvar_eq : stat_relvar N sp chs smps k cn b =
      let tot := rsum N (map (fun s => nth b (s_data s) 0) carriers_c) in
      rsum N (map (fun s => if rpos N tot then (stat_unc N s n b / tot) * (stat_unc N s n b / tot) else 0) carriers_c).
    Proof.
      unfold stat_relvar. cbv zeta. rewrite tot_eq. unfold sumV, rsum.
      set (tot := fold_right (nadd N) 0 (map (fun s => nth b (s_data s) 0) carriers_c)).
      pose proof (foldm_superset V (nadd N) 0 add_comm' add_assoc' add_0'
                    (fun sn => if is_pos N tot then (uncf N sp cn sn k b / tot) * (uncf N sp cn sn k b / tot) else 0)
                    (map s_name carriers_c) smps carriers_nodup) as P.
      unfold foldm in P. rewrite P.
      - rewrite map_map. f_equal. apply map_ext_in. intros s Hs. rewrite (uncf_carrier s Hs). reflexivity.
      - apply sort_uniq_nodup.
      - intros sn Hsn. apply in_map_iff in Hsn. destruct Hsn as [s [<- Hs]].
        destruct (carrier_facts s Hs) as (m & _ & _ & H1 & _). exact H1.
      - intros sn _ Hni. rewrite (uncf_noncarrier sn Hni). destruct (is_pos N tot); auto. rewrite div_0. ring.
    Qed.

    (* zero -> 1, as the code does: the template's staterror width *)
    Lemma fix_relvar :
      (if is_zero N (stat_relvar N sp chs smps k cn b) then 1 else stat_relvar N sp chs smps k cn b) = stat_delta2 N n c b.
    Proof. rewrite relvar_eq. reflexivity. Qed.
  End OneBin.

  (* the template's offset of channel c inside the parameter (bins of the carrying channels that sort before c) is the
     position at which finalize lays out the channel's bins *)
  Lemma sum_app l1 l2 : fold_right Nat.add O (l1 ++ l2) = (fold_right Nat.add O l1 + fold_right Nat.add O l2)%nat.
  Proof. induction l1; simpl; auto. rewrite IHl1. lia. Qed.
  Lemma sum_zero {A} (f : A -> nat) l : (forall x, In x l -> f x = O) -> fold_right Nat.add O (map f l) = O.
  Proof. induction l; simpl; intros H; auto. rewrite H by auto. rewrite IHl; auto. Qed.

  Lemma stat_offset_block c : In c (channels sp) -> stat_offset N sp n c = block_off (wbins N sp k s0) chs (c_name c).
  Proof.
    intros Hc. rewrite (cfg_channels_sorted N sp Hchan).
    pose proof (isort_sorted string String.leb String.leb_total str_leb_trans (channel N) c_name (channels sp)) as Hss.
    pose proof (isort_perm string String.leb (channel N) c_name (channels sp)) as Hperm.
    fold (ssort c_name (channels sp)) in Hss, Hperm.
    assert (Hnd : NoDup (map c_name (ssort c_name (channels sp)))).
    { eapply Permutation_NoDup; [apply Permutation_map; symmetry; exact Hperm|exact Hchan]. }
    assert (Hin : In c (ssort c_name (channels sp))) by (eapply Permutation_in; [symmetry; exact Hperm|exact Hc]).
    assert (Hall : forall c', In c' (ssort c_name (channels sp)) -> In c' (channels sp)).
    { intros c' H. eapply Permutation_in; [exact Hperm|exact H]. }
    unfold stat_offset. rewrite sum_filter. rewrite (sum_map_perm _ _ _ (Permutation_sym Hperm)).
    destruct (in_split _ _ Hin) as [l1 [l2 El]]. rewrite El in *. clear Hin.
    destruct (ss_split _ _ _ _ Hss) as [H1 H2]. rewrite Forall_forall in H1, H2.
    rewrite map_app in Hnd. simpl in Hnd.
    assert (Hn1 : ~ In (c_name c) (map c_name l1)).
    { intros H. apply NoDup_remove_2 in Hnd. apply Hnd. apply in_or_app. now left. }
    assert (Hn2 : ~ In (c_name c) (map c_name l2)).
    { intros H. apply NoDup_remove_2 in Hnd. apply Hnd. apply in_or_app. now right. }
    rewrite !map_app. simpl map. rewrite (block_off_app _ _ _ _ Hn1).
    rewrite sum_app. simpl fold_right.
    assert (Hcc : String.ltb (c_name c) (c_name c) = false) by (apply leb_not_ltb; apply str_leb_refl).
    rewrite Hcc, andb_false_r.
    rewrite (sum_zero _ l2).
    2:{ intros c' Hc'. assert (String.ltb (c_name c') (c_name c) = false) as -> by (apply leb_not_ltb; apply (H2 c' Hc')).
        now rewrite andb_false_r. }
    unfold block_total. rewrite map_map. rewrite !Nat.add_0_r. f_equal. apply map_ext_in. intros c' Hc'.
    assert (Hlt : String.ltb (c_name c') (c_name c) = true).
    { apply leb_neq_ltb; [apply (H1 c' Hc')|]. intros E. apply Hn1. rewrite <- E. now apply in_map. }
    rewrite Hlt, andb_true_r. symmetry. apply wbins_chan. apply Hall. apply in_or_app. now left.
  Qed.
  End OneName.

  Lemma nth_map_sq (ls : list V) : forall i, nth i (map (fun s => s * s) ls) 1 = nth i ls 1 * nth i ls 1.
  Proof. induction ls as [|x ls IH]; intros [|i]; simpl; auto; ring. Qed.

  (* ---------------- staterror: Gaussians with the quadrature-summed relative MC uncertainty ---------------- *)
  Theorem stat_family : fam_ok N ps (ref_stat_blocks N sp).
  Proof.
    intros rb Hrb. unfold ref_stat_blocks in Hrb. apply in_map_iff in Hrb. destruct Hrb as [n [<- Hn]].
    apply (names_with_listed N sp) in Hn. destruct Hn as (c0 & s & m & Hl & Hnm & Ht).
    assert (Hkm : mkey m = (n, tyname Staterror)) by (unfold mkey; now rewrite Hnm, Ht).
    destruct (listed_names N sp c0 s m Hl) as (_ & Hsn & _ & Hk). rewrite Ht, Hkm in Hk.
    pose proof (listed_carries N sp md Hb c0 s m Hl) as Hcar. rewrite Hkm in Hcar.
    destruct (find_exists (carries N sp chs (n, tyname Staterror)) smps (s_name s) Hsn Hcar) as [s0 Hs0].
    fold (first_carrier N sp chs smps (n, tyname Staterror)) in Hs0.
    assert (Hreq : In (n, [req_staterror N (stat_vars N sp chs smps (n, tyname Staterror))]) (requ Staterror)).
    { unfold required. apply in_map_iff. exists (n, tyname Staterror). split; auto. }
    destruct (accepted_req_pset N sp md Hb _ _ _ _ Hreq (or_introl eq_refl)) as (p & rs & st & Hp & Hf & Hname & Hone & Hr).
    destruct (reduce_one_fields N sp _ _ _ _ Hone) as (_ & _ & Hall). destruct (Hall _ Hr) as (Hpn & Hpt & _).
    destruct (reduce_one_vf N sp Heqb _ _ _ _ Hone _ Hr) as (Hv & _ & _). unfold req_staterror in Hpn, Hpt, Hv. cbn [r_n r_type r_var] in Hpn, Hpt, Hv.
    exists p. cbn [fst]. repeat split; auto.
    - unfold constrained. now rewrite Hpt.
    - unfold impl_block, ref_stat_block. rewrite Hpt, Hname. f_equal. f_equal.
      pose proof (stat_vars_blocks n s0 Hs0) as Hvars.
      assert (Hlen : p_n N p = block_total (wbins N sp (n, tyname Staterror) s0) chs) by (rewrite Hpn, Hvars; apply block_total_length).
      rewrite Hlen. unfold tab at 1. rewrite (tab_blocks (wbins N sp (n, tyname Staterror) s0) (fun i => (i, var_of N p i)) chs O (chs_nodup N sp)).
      assert (G : forall f : string -> list (nat * V), flat_map f chs = flat_map (fun c => f (c_name c)) (ssort c_name (channels sp))).
      { intros f. rewrite (cfg_channels_sorted N sp Hchan) at 1. apply flat_map_map. }
      rewrite G. clear G. unfold sorted_channels. apply flat_map_ext_in. intros c Hcs. cbv beta.
      assert (Hc : In c (channels sp)) by (unfold ssort in Hcs; now apply isort_in in Hcs).
      rewrite (wbins_chan n Hk s0 Hs0 c Hc). destruct (chan_has N c n Staterror) eqn:Eh; [|reflexivity].
      unfold tab. apply map_ext_in. intros b Hbin. apply in_seq in Hbin. cbn [Nat.add].
      rewrite <- (stat_offset_block n Hk s0 Hs0 c Hc). f_equal.
      assert (Hcn : In (c_name c) chs) by (apply sort_uniq_in; now apply in_map).
      assert (Hbw : (b < (wbins N sp (n, tyname Staterror) s0) (c_name c))%nat) by (rewrite (wbins_chan n Hk s0 Hs0 c Hc), Eh; lia).
      rewrite (stat_offset_block n Hk s0 Hs0 c Hc).
      unfold var_of, sig2_or, user_sigmas2, user_cfg. unfold user_of, find_user in Hv.
      assert (Hdef : forall pv, user_merge (length (stat_vars N sp chs smps (n, tyname Staterror)))
                        (Val (map (fun v => if is_zero N v then 1 else v) (stat_vars N sp chs smps (n, tyname Staterror)))) None = Ok pv ->
                      match pv with Val l => nth (block_off (wbins N sp (n, tyname Staterror) s0) chs (c_name c) + b) l 1 | _ => 1 end = stat_delta2 N n c b).
      { intros pv Hpv. apply user_merge_none in Hpv. subst pv. rewrite Hvars. rewrite map_flat_map.
        rewrite (flat_map_ext_in _ (fun cn => tab ((wbins N sp (n, tyname Staterror) s0) cn) (fun b0 => if is_zero N (stat_relvar N sp chs smps (n, tyname Staterror) cn b0) then 1
                                                                    else stat_relvar N sp chs smps (n, tyname Staterror) cn b0)))
          by (intros cn _; apply map_tab).
        rewrite (nth_blocks (wbins N sp (n, tyname Staterror) s0) 1 _ chs (c_name c) b (chs_nodup N sp) Hcn Hbw).
        apply (fix_relvar n Hk s0 Hs0 c Hc Eh b). lia. }
      destruct (find (fun p0 => String.eqb (pc_name p0) n) (parameters sp)) as [u|]; [|now apply Hdef].
      destruct (pc_sigmas u) as [ls|]; [|now apply Hdef].
      cbn [option_map] in Hv. apply user_merge_some in Hv. rewrite Hv. apply nth_map_sq.
  Qed.
End Stat.
