(* C14 - tie to the source: EmpiricalDistribution.pvalue / expected_value and ToyCalculator.pvalues translated on every
   run from pyhf/infer/calculators.py (coq/gen/EmpiricalGen.v, written by harness/props/c14.py:extract) coincide
   with the hand model of Empirical.v. *)
From Coq Require Import ZArith QArith Qcanon Bool List.
Require Import PV.Num PV.Empirical PV.gen.EmpiricalGen.
Import ListNotations.
Local Open Scope list_scope.

Section Tie.
Variable N : Num.
Variable Phi : V N -> V N.
Variable percentile : list (V N) -> V N -> option (V N).

(* sum(where(samples >= value, 1, 0)) / shape(samples)[0] *)
Lemma tie_pvalue : forall samples value, gen_pvalue N Phi percentile samples value = @pvalue N samples value.
Proof. reflexivity. Qed.

(* the percentile is taken of self.samples at normal_cdf(nsigma) * 100, with linear interpolation: with the model of
   numpy's linear percentile for `percentile`, that is the model's expected_value at that argument *)
Lemma tie_expected_value : forall samples nsigma,
  gen_expected_value N Phi (@percentile_linear N) samples nsigma = @expected_value N samples (nmul N (Phi nsigma) (nofZ N 100)).
Proof. reflexivity. Qed.
(* ... and for any percentile function the two arguments are these *)
Lemma tie_expected_value_args : forall samples nsigma,
  gen_expected_value N Phi percentile samples nsigma = percentile samples (nmul N (Phi nsigma) (nofZ N 100)).
Proof. reflexivity. Qed.

Lemma tie_toy_pvalues : forall teststat sb b, gen_toy_pvalues N Phi percentile teststat sb b = @toy_pvalues N teststat sb b.
Proof. reflexivity. Qed.
End Tie.

(* ---------- ToyCalculator.distributions ---------- *)
Lemma fold_append_map {A B : Type} (f : A -> B) (l : list A) (acc : list B) :
  fold_left (fun s x => s ++ [f x]) l acc = acc ++ map f l.
Proof. revert acc. induction l as [|a r IH]; intros acc; simpl; [now rewrite app_nil_r|]. rewrite IH, <- app_assoc. reflexivity. Qed.

Section TieDistributions.
Variable N : Num.
Variables Pars Data Pdf Init Bounds Fixed : Type.
Variable fit : V N -> Data -> Pdf -> option Init -> option Bounds -> option Fixed -> Pars.
Variable sample : nat -> Pdf -> Pars -> nat -> list Data.
Variable tsf : test_stat -> V N -> Data -> Pdf -> Init -> Bounds -> Fixed -> V N.
Variables (data : Data) (pdf : Pdf) (init : Init) (bounds : Bounds) (fixed : Fixed).

(* the stubs of the hand model, as the source instantiates them: BOTH conditional fits get the observed data, the model and the caller's
   init / bounds / fixed; every toy statistic is evaluated on the model with the same three; draw k is the k-th sampling call *)
Definition fit_of (poi : V N) : Pars := fit poi data pdf (Some init) (Some bounds) (Some fixed).
Definition sampler_of (k : nat) (pars : Pars) (n : nat) : list Data := sample k pdf pars n.
Definition teststat_of (ts : test_stat) (poi : V N) (d : Data) : V N := tsf ts poi d pdf init bounds fixed.

Theorem tie_distributions track ts ntoys poi_test :
  gen_distributions N Pars Data Pdf Init Bounds Fixed fit sample tsf data pdf init bounds fixed track ts ntoys poi_test
  = distributions fit_of sampler_of teststat_of ts ntoys poi_test.
Proof. unfold gen_distributions, distributions, fit_of, sampler_of, teststat_of. cbv zeta. rewrite !fold_append_map. cbn [app].
  destruct ts; reflexivity. Qed.
End TieDistributions.

(* non-vacuity: a concrete run over Qc in which the two fits, the two draws and the statistic are all distinguishable *)
Example tie_distributions_example :
  gen_distributions QcNum (Qc * nat) (Qc * nat) nat nat nat nat
    (fun poi d m i b f => (poi, match i, b, f with Some i, Some b, Some f => snd d + m + i + b + f | _, _, _ => 0 end)%nat)
    (fun k m pars n => map (fun j => (fst pars, (snd pars + k + j)%nat)) (seq 0 n))
    (fun ts poi d m i b f => nadd QcNum (fst d) (nofZ QcNum (Z.of_nat (snd d + f))))
    (Q2Qc 0, 1%nat) 2%nat 3%nat 4%nat 5%nat true TQ0 2 (Q2Qc 7)
  = ([Q2Qc 27; Q2Qc 28], [Q2Qc 22; Q2Qc 23]).
Proof. vm_compute. reflexivity. Qed.
