(* C14 - tie to the source: EmpiricalDistribution.pvalue / expected_value and ToyCalculator.pvalues translated on every
   run from pyhf/infer/calculators.py (coq/gen/EmpiricalGen.v, written by harness/props/c14.py:extract) coincide
   with the hand model of Empirical.v. *)
From Coq Require Import ZArith Bool List.
Require Import PV.Num PV.Empirical PV.gen.EmpiricalGen.
Import ListNotations.
Local Open Scope list_scope.

Section Tie.
Variable N : Num.
Variable Phi : V N -> V N.
Variable percentile : list (V N) -> V N -> option (V N).

(* sum(where(samples >= value, 1, 0)) / shape(samples)[0] *)
Lemma tie_pvalue : forall samples value, gen_pvalue N Phi percentile samples value = @pvalue N samples value.
Proof. reflexivity. Qed.

(* the percentile is taken of self.samples at normal_cdf(nsigma) * 100, with linear interpolation: with the model of
   numpy's linear percentile for `percentile`, that is the model's expected_value at that argument *)
Lemma tie_expected_value : forall samples nsigma,
  gen_expected_value N Phi (@percentile_linear N) samples nsigma = @expected_value N samples (nmul N (Phi nsigma) (nofZ N 100)).
Proof. reflexivity. Qed.
(* ... and for any percentile function the two arguments are these *)
Lemma tie_expected_value_args : forall samples nsigma,
  gen_expected_value N Phi percentile samples nsigma = percentile samples (nmul N (Phi nsigma) (nofZ N 100)).
Proof. reflexivity. Qed.

Lemma tie_toy_pvalues : forall teststat sb b, gen_toy_pvalues N Phi percentile teststat sb b = @toy_pvalues N teststat sb b.
Proof. reflexivity. Qed.
End Tie.
