(* Theorems about the value-level write/read model of Xml.v: generic over a field with decidable equality
   (instantiated at Qc -- the executed instance -- and at R at the end). *)
From Coq Require Import Bool Arith Lia String Ascii ZArith QArith Qcanon Reals Ring Field List.
Require Import PV.Num PV.Sort PV.Json PV.Xml.
Import ListNotations.
Local Open Scope string_scope.
Local Open Scope list_scope.

Lemma NoDup_snoc {A} (l : list A) (k : A) : NoDup l -> ~ In k l -> NoDup (l ++ [k]).
Proof. induction l as [|a l IH]; simpl; intros Hnd Hk; [constructor; [tauto|constructor]|].
  inversion Hnd; subst. constructor; [rewrite in_app_iff; simpl; intros [H|[H|[]]]; [auto|subst; tauto]|apply IH; tauto]. Qed.

Section Theory.
Variable N : Num.
Hypothesis Hf : field_theory (n0 N) (n1 N) (nadd N) (nmul N) (nsub N) (nopp N) (ndiv N) (ninv N) eq.
Hypothesis Heqb : forall a b : V N, neqb N a b = true <-> a = b.
Add Field NField : Hf.

Notation ws_t := (workspace N).

Lemma eqb_refl x : neqb N x x = true.
Proof. now apply Heqb. Qed.

(* ---------- absolute -> relative -> absolute ---------- *)
Lemma abs_rel_point a b : nmul N (safe_div N a b) b = if neqb N b (n0 N) then n0 N else a.
Proof. unfold safe_div. destruct (neqb N b (n0 N)) eqn:E.
  - ring.
  - assert (b <> n0 N) by (intro H; apply Heqb in H; congruence). field. assumption. Qed.
Lemma stat_roundtrip d nom : stat_abs N (to_rel N d nom) nom = mask N d nom.
Proof. unfold stat_abs, to_rel, mask. revert nom. induction d as [|a d IH]; intros [|b nom]; simpl; auto.
  rewrite abs_rel_point, IH. reflexivity. Qed.
Lemma shape_roundtrip d nom : shape_abs N nom (to_rel N d nom) = mask N d nom.
Proof. unfold shape_abs, to_rel, mask. revert nom. induction d as [|a d IH]; intros [|b nom]; simpl; auto.
  rewrite IH. f_equal. rewrite <- abs_rel_point. ring. Qed.
(* where every bin with an uncertainty has a non-zero yield, nothing is lost *)
Lemma mask_id d nom : Forall2 (fun a b => b <> n0 N \/ a = n0 N) d nom -> mask N d nom = d.
Proof. unfold mask. induction 1 as [|a b d nom H _ IH]; simpl; auto. rewrite IH. f_equal.
  destruct (neqb N b (n0 N)) eqn:E; auto. apply Heqb in E. destruct H; congruence. Qed.
Lemma mask_length d nom : length d = length nom -> length (mask N d nom) = length d.
Proof. unfold mask. revert nom. induction d; intros [|b nom]; simpl; intros H; try discriminate; auto. Qed.

(* ---------- the ROOT file: sequential export = the list of exports, keys distinct ---------- *)
Lemma hmem_false k (f : rootfile N) : hmem N k f = false <-> ~ In k (map fst f).
Proof. unfold hmem. induction f as [|[k' v] r IH]; simpl; [tauto|].
  destruct (String.eqb_spec k k'); [subst; split; [discriminate|intros H; exfalso; apply H; now left]|].
  rewrite IH. split; [intros H [H1|H1]; [congruence|auto]|intros H H1; apply H; now right]. Qed.
Lemma export_err l e : fold_left (export_one N) l (inr e) = inr e.
Proof. induction l; simpl; auto. Qed.
Lemma export_fold l : forall f0 f, fold_left (export_one N) l (inl f0) = inl f ->
  f = f0 ++ l /\ (NoDup (map fst f0) -> NoDup (map fst f)).
Proof. induction l as [|[k v] l IH]; intros f0 f; simpl.
  - intros H. inversion H. rewrite app_nil_r. tauto.
  - destruct (hmem N k f0) eqn:E; simpl; [rewrite export_err; discriminate|].
    intros H. apply IH in H. destruct H as [H1 H2]. split; [rewrite H1, <- app_assoc; reflexivity|].
    intros Hnd. apply H2. rewrite map_app. simpl. apply hmem_false in E.
    apply NoDup_snoc; auto. Qed.

(* ---------- build_* then process_* on a file that holds every export ---------- *)
Definition holds (file : rootfile N) (ex : rootfile N) : Prop := forall k v, In (k, v) ex -> assoc k file = Some v.
Lemma holds_app file a b : holds file (a ++ b) <-> holds file a /\ holds file b.
Proof. unfold holds. split.
  - intros H. split; intros k v Hi; apply H; apply in_app_iff; auto.
  - intros [H1 H2] k v Hi. apply in_app_iff in Hi. destruct Hi; auto. Qed.
Lemma holds_lookup file k v ex : holds file ex -> In (k, v) ex -> lookup_hist N file k = inl v.
Proof. intros H Hi. unfold lookup_hist. now rewrite (H k v Hi). Qed.

(* normfactor parameter configs the reader collects for one modifier *)
Definition nf_cfgs_mod (ws : ws_t) (m : modifier N) : list (param N) :=
  if String.eqb (m_name N m) "lumi" then [] else
  match m_data N m with
  | DNormfactor => match nf_settings N ws (m_name N m) with inl (v, l, h) => [nf_param N (m_name N m) v l h] | inr _ => [] end
  | _ => [] end.
Definition nf_cfgs_sample ws (s : sample N) := flat_map (nf_cfgs_mod ws) (s_mods N s).
Definition nf_cfgs_chan ws (c : channel N) := flat_map (nf_cfgs_sample ws) (c_samples N c).

Lemma zipw_nonempty {A B C} (f : A -> B -> C) l l' : l <> [] -> length l = length l' -> zipw f l l' <> [].
Proof. destruct l, l'; simpl; try congruence; try discriminate. Qed.

Lemma process_mod_build ws cname sname sdata m file o ex :
  build_modifier N ws cname sname sdata m = inl (o, ex) -> holds file ex -> stat_ok_mod N sdata m ->
  match o with
  | Some x => process_mod N file cname sdata x = inl (hd (mkMod "" DLumi) (expected_mod N cname sdata m), nf_cfgs_mod ws m)
              /\ expected_mod N cname sdata m = [hd (mkMod "" DLumi) (expected_mod N cname sdata m)]
  | None => expected_mod N cname sdata m = [] /\ nf_cfgs_mod ws m = []
  end.
Proof.
  unfold build_modifier, expected_mod, nf_cfgs_mod, stat_ok_mod. destruct m as [name data]; simpl.
  destruct (String.eqb name "lumi") eqn:El; [intros H; inversion H; auto|].
  destruct data as [lo hi|lo hi| |d|d| |]; simpl.
  - intros H Hh _. inversion H; subst; clear H. simpl. split; auto.
    rewrite (holds_lookup file _ lo _ Hh) by (simpl; auto). simpl.
    rewrite (holds_lookup file _ hi _ Hh) by (simpl; auto). reflexivity.
  - intros H _ _. inversion H; subst. simpl. auto.
  - destruct (nf_settings N ws name) as [[[v l] h]|e]; simpl; [|discriminate].
    intros H _ _. inversion H; subst. simpl. auto.
  - destruct (Nat.eqb (length d) (length sdata)) eqn:El2; [|discriminate].
    intros H Hh _. inversion H; subst; clear H. simpl. split; auto.
    rewrite (holds_lookup file _ _ _ Hh) by (simpl; auto). simpl. now rewrite shape_roundtrip.
  - destruct (Nat.eqb (length d) (length sdata)) eqn:El2; [|discriminate].
    intros H Hh Hne. inversion H; subst; clear H. simpl. split; auto.
    rewrite (holds_lookup file _ _ _ Hh) by (simpl; auto). simpl. rewrite stat_roundtrip.
    apply Nat.eqb_eq in El2.
    destruct (mask N d sdata) eqn:Em; [|reflexivity].
    exfalso. revert Em. unfold mask. apply zipw_nonempty; auto.
  - intros H _ _. inversion H; subst. simpl. auto.
  - intros H _ _. inversion H; subst. auto.
Qed.

Lemma process_mods_build ws cname sname sdata file : forall ms xs ex,
  build_mods N ws cname sname sdata ms = inl (xs, ex) -> holds file ex -> Forall (stat_ok_mod N sdata) ms ->
  process_mods N file cname sdata xs = inl (flat_map (expected_mod N cname sdata) ms, flat_map (nf_cfgs_mod ws) ms).
Proof.
  induction ms as [|m ms IH]; intros xs ex; simpl.
  - intros H. inversion H. reflexivity.
  - destruct (build_modifier N ws cname sname sdata m) as [[o e1]|] eqn:E1; simpl; [|discriminate].
    destruct (build_mods N ws cname sname sdata ms) as [[xs2 e2]|] eqn:E2; simpl; [|discriminate].
    intros H Hh Hs. inversion H; subst; clear H. apply holds_app in Hh. destruct Hh as [Hh1 Hh2].
    inversion Hs; subst. specialize (IH _ _ eq_refl Hh2 H2).
    pose proof (process_mod_build _ _ _ _ _ _ _ _ E1 Hh1 H1) as P.
    destruct o as [x|]; simpl.
    + destruct P as [P1 P2]. rewrite P1. simpl. rewrite IH. simpl. rewrite P2 at 2. reflexivity.
    + destruct P as [P1 P2]. rewrite P1, P2. simpl. exact IH.
Qed.

Definition stat_ok_sample (s : sample N) := Forall (stat_ok_mod N (s_data N s)) (s_mods N s).

Lemma process_sample_build ws cname file s xs ex :
  build_sample N ws cname s = inl (xs, ex) -> holds file ex -> stat_ok_sample s ->
  process_sample N file cname xs = inl (expected_sample N cname s, nf_cfgs_sample ws s).
Proof.
  unfold build_sample, process_sample, expected_sample, nf_cfgs_sample.
  destruct (build_mods N ws cname (s_name N s) (s_data N s) (s_mods N s)) as [[xm e1]|] eqn:E; simpl; [|discriminate].
  intros H Hh Hs. inversion H; subst; clear H. simpl. apply holds_app in Hh. destruct Hh as [Hh1 Hh2].
  rewrite (holds_lookup file _ (s_data N s) _ Hh2) by (simpl; auto). simpl.
  rewrite (process_mods_build _ _ _ _ _ _ _ _ E Hh1 Hs). simpl. reflexivity.
Qed.

Lemma process_samples_build ws cname file : forall ss xss ex,
  build_samples N ws cname ss = inl (xss, ex) -> holds file ex -> Forall stat_ok_sample ss ->
  process_samples N file cname xss = inl (map (expected_sample N cname) ss, flat_map (nf_cfgs_sample ws) ss).
Proof.
  induction ss as [|s ss IH]; intros xss ex; simpl.
  - intros H. inversion H. reflexivity.
  - destruct (build_sample N ws cname s) as [[x1 e1]|] eqn:E1; simpl; [|discriminate].
    destruct (build_samples N ws cname ss) as [[x2 e2]|] eqn:E2; simpl; [|discriminate].
    intros H Hh Hs. inversion H; subst; clear H. apply holds_app in Hh. destruct Hh as [Hh1 Hh2]. inversion Hs; subst.
    cbn [process_samples]. rewrite (process_sample_build _ _ _ _ _ _ E1 Hh1 H1). cbn [bind]. rewrite (IH _ _ eq_refl Hh2 H2). reflexivity.
Qed.

Definition obs_of (ws : ws_t) (cname : string) : list (V N) := match find_obs N (w_obs N ws) cname with Some d => d | None => [] end.
Definition expected_cr (ws : ws_t) (c : channel N) : chan_result N :=
  mkCr N (c_name N c) (obs_of ws (c_name N c)) (map (expected_sample N (c_name N c)) (c_samples N c)) (nf_cfgs_chan ws c).
Definition stat_ok_chan (c : channel N) := Forall stat_ok_sample (c_samples N c).

Lemma process_channel_build ws file c xc ex :
  build_channel N ws c = inl (xc, ex) -> holds file ex -> w_obs N ws <> [] -> stat_ok_chan c ->
  process_channel N file xc = inl (expected_cr ws c).
Proof.
  unfold build_channel, process_channel, expected_cr, build_data, obs_of, nf_cfgs_chan.
  intros H Hh Hobs Hs. destruct (w_obs N ws) as [|o0 obs] eqn:Eo; [congruence|]. rewrite <- Eo in *.
  destruct (find_obs N (w_obs N ws) (c_name N c)) as [d|] eqn:Ef; simpl in H; [|discriminate].
  destruct (build_samples N ws (c_name N c) (c_samples N c)) as [[xs e2]|] eqn:E2; simpl in H; [|discriminate].
  inversion H; subst; clear H. cbn [fst snd xc_data xc_name xc_samples].
  change ((hist_name [c_name N c; "data"] "", d) :: e2) with ([(hist_name [c_name N c; "data"] "", d)] ++ e2) in Hh.
  apply holds_app in Hh. destruct Hh as [Hh1 Hh2].
  rewrite (holds_lookup file _ d _ Hh1) by (simpl; auto). cbn [bind].
  rewrite (process_samples_build _ _ _ _ _ _ E2 Hh2 Hs). reflexivity.
Qed.

Lemma process_channels_build ws file : forall cs xcs ex,
  build_channels N ws cs = inl (xcs, ex) -> holds file ex -> w_obs N ws <> [] -> Forall stat_ok_chan cs ->
  mapM (process_channel N file) xcs = inl (map (expected_cr ws) cs).
Proof.
  induction cs as [|c cs IH]; intros xcs ex; simpl.
  - intros H. inversion H. reflexivity.
  - destruct (build_channel N ws c) as [[x1 e1]|] eqn:E1; simpl; [|discriminate].
    destruct (build_channels N ws cs) as [[x2 e2]|] eqn:E2; simpl; [|discriminate].
    intros H Hh Ho Hs. inversion H; subst; clear H. apply holds_app in Hh. destruct Hh as [Hh1 Hh2]. inversion Hs; subst.
    cbn [mapM]. rewrite (process_channel_build _ _ _ _ _ E1 Hh1 Ho H1). cbn [bind]. rewrite (IH _ _ eq_refl Hh2 Ho H2). reflexivity.
Qed.

Lemma stat_ok_unfold ws : stat_ok N ws <-> Forall stat_ok_chan (w_channels N ws).
Proof. reflexivity. Qed.

(* every histogram read back is the histogram written: channels, samples, yields, observations, modifier data *)
Theorem roundtrip_channels ws x file :
  write N ws = inl (x, file) -> w_obs N ws <> [] -> stat_ok N ws ->
  mapM (process_channel N file) (x_channels N x) = inl (map (expected_cr ws) (w_channels N ws)).
Proof.
  unfold write, write_gen. destruct (build_channels N ws (w_channels N ws)) as [[xcs ex]|] eqn:E; simpl; [|discriminate].
  destruct (export_all N ex) as [f|] eqn:Ex; simpl; [|discriminate].
  destruct (mapM _ (w_meas N ws)) as [ms|]; simpl; [|discriminate].
  intros H Ho Hs. inversion H; subst; clear H. simpl.
  unfold export_all in Ex. apply export_fold in Ex. destruct Ex as [Ef Hnd]. simpl in Ef. subst file.
  specialize (Hnd (NoDup_nil _)).
  apply (process_channels_build ws ex _ _ _ E); auto.
  intros k v Hi. now apply in_assoc.
Qed.

(* ======================= measurements ======================= *)
Definition fixed_names (ps : list (param N)) : list string := map (p_name N) (filter (is_fixed N) ps).
Definition has_fixed (ps : list (param N)) (n : string) : bool :=
  existsb (fun p => String.eqb (p_name N p) n && is_fixed N p) ps.
(* reference: auxdata[0] and sigmas[0] of the (last) lumi parameter config; 1 and 0 when there is none *)
Definition lumi_upd (acc : V N * V N) (p : param N) : V N * V N :=
  if String.eqb (p_name N p) "lumi" then
    match p_auxdata N p, p_sigmas N p with Some (l :: _), Some (s :: _) => (l, s) | _, _ => acc end
  else acc.
Definition lumi_cfg (ps : list (param N)) (acc : V N * V N) : V N * V N := fold_left lumi_upd ps acc.

Lemma has_fixed_names ps n : has_fixed ps n = existsb (String.eqb n) (fixed_names ps).
Proof. unfold has_fixed, fixed_names. induction ps as [|p ps IH]; simpl; auto.
  destruct (is_fixed N p) eqn:E; simpl; rewrite IH.
  - rewrite andb_true_r. now rewrite String.eqb_sym.
  - now rewrite andb_false_r. Qed.

Lemma bm_err rel mt ps e : fold_left (bm_step N rel mt) ps (inr e) = inr e.
Proof. induction ps; simpl; auto. Qed.

Lemma bm_one mt f0 l0 e0 p f1 l1 e1 :
  bm_step N true mt (inl (f0, l0, e0)) p = inl (f1, l1, e1) ->
  (if is_fixed N p then exists rn, rootname mt (p_name N p) = inl rn /\ f1 = f0 ++ [rn] else f1 = f0) /\
  forall s0, nmul N l0 e0 = s0 -> l1 = fst (lumi_upd (l0, s0) p) /\ nmul N l1 e1 = snd (lumi_upd (l0, s0) p).
Proof.
  unfold bm_step, lumi_upd. simpl.
  destruct (is_fixed N p).
  - destruct (rootname mt (p_name N p)) as [rn|] eqn:Er; simpl; [|discriminate].
    destruct (String.eqb (p_name N p) "lumi").
    + destruct (p_auxdata N p) as [[|l t]|]; try discriminate. destruct (p_sigmas N p) as [[|s t']|]; try discriminate.
      destruct (neqb N l (n0 N)) eqn:El; [discriminate|]. intros H. inversion H; subst.
      split; [eauto|]. intros s0 _. simpl. split; auto.
      assert (l1 <> n0 N) by (intro Hz; apply Heqb in Hz; congruence). field. assumption.
    + intros H. inversion H; subst. split; [eauto|]. intros s0 Hs. simpl. auto.
  - simpl. destruct (String.eqb (p_name N p) "lumi").
    + destruct (p_auxdata N p) as [[|l t]|]; try discriminate. destruct (p_sigmas N p) as [[|s t']|]; try discriminate.
      destruct (neqb N l (n0 N)) eqn:El; [discriminate|]. intros H. inversion H; subst.
      split; [auto|]. intros s0 _. simpl. split; auto.
      assert (l1 <> n0 N) by (intro Hz; apply Heqb in Hz; congruence). field. assumption.
    + intros H. inversion H; subst. split; [auto|]. intros s0 Hs. simpl. auto.
Qed.

Lemma mapM_app {A B} (f : A -> res B) l1 l2 r1 r2 : mapM f l1 = inl r1 -> mapM f l2 = inl r2 -> mapM f (l1 ++ l2) = inl (r1 ++ r2).
Proof. revert r1. induction l1 as [|a l1 IH]; simpl; intros r1 H1 H2; [inversion H1; auto|].
  destruct (f a); simpl in *; [|discriminate]. destruct (mapM f l1); simpl in *; [|discriminate].
  inversion H1; subst. now rewrite (IH _ eq_refl H2). Qed.

Lemma bm_fold mt : forall ps f0 l0 e0 f l e s0,
  fold_left (bm_step N true mt) ps (inl (f0, l0, e0)) = inl (f, l, e) -> nmul N l0 e0 = s0 ->
  (exists rns, mapM (rootname mt) (fixed_names ps) = inl rns /\ f = f0 ++ rns) /\
  l = fst (lumi_cfg ps (l0, s0)) /\ nmul N l e = snd (lumi_cfg ps (l0, s0)).
Proof.
  induction ps as [|p ps IH]; intros f0 l0 e0 f l e s0 H Hs.
  - simpl in *. inversion H; subst. split; [exists []; rewrite app_nil_r; auto|auto].
  - cbn [fold_left] in H. destruct (bm_step N true mt (inl (f0, l0, e0)) p) as [[[f1 l1] e1]|] eqn:E; [|rewrite bm_err in H; discriminate].
    apply bm_one in E. destruct E as [E1 E2]. specialize (E2 s0 Hs). destruct E2 as [E2 E3].
    specialize (IH _ _ _ _ _ _ _ H E3). destruct IH as [[rns [R1 R2]] [L1 L2]].
    unfold lumi_cfg in *. cbn [fold_left]. 
    assert (Hu : lumi_upd (l0, s0) p = (l1, snd (lumi_upd (l0, s0) p))) by (rewrite E2; destruct (lumi_upd (l0, s0) p); reflexivity).
    rewrite Hu. split; [|auto].
    unfold fixed_names in *. cbn [filter]. destruct (is_fixed N p).
    + destruct E1 as [rn [Er Ef]]. subst f1. exists (rn :: rns). cbn [map mapM]. rewrite Er. cbn [bind]. rewrite R1. cbn [bind].
      split; [reflexivity|]. rewrite R2, <- app_assoc. reflexivity.
    + subst f1. eauto.
Qed.

(* ---- reader side ---- *)
Definition core (p : param N) := (p_name N p, p_inits N p, p_bounds N p, p_auxdata N p, p_sigmas N p).
Lemma core_set_fixed p : core (set_fixed N p) = core p.
Proof. reflexivity. Qed.
Lemma pc_err l e : fold_left (process_const N) l (inr e) = inr e.
Proof. induction l; simpl; auto. Qed.

Lemma dict_pop_spec name : forall m o r, dict_pop N name m = (o, r) ->
  (forall n, n <> name -> has_fixed r n = has_fixed m n) /\
  (match o with Some p => p_name N p = name /\ In p m | None => True end) /\
  (forall q, In q m -> o = Some q \/ In q r).
Proof.
  induction m as [|q m IH]; intros o r; simpl.
  - intros H. inversion H; subst. simpl. auto.
  - destruct (String.eqb_spec (p_name N q) name) as [En|En].
    + intros H. inversion H; subst. split; [|split].
      * intros n Hn. simpl. destruct (String.eqb_spec (p_name N q) n); [congruence|]. reflexivity.
      * auto.
      * intros q' [Hq|Hq]; [subst; auto|auto].
    + destruct (dict_pop N name m) as [o' r'] eqn:E. intros H. inversion H; subst. destruct (IH _ _ eq_refl) as [I1 [I2 I3]].
      split; [|split].
      * intros n Hn. simpl. now rewrite I1.
      * destruct o; auto. destruct I2; auto.
      * intros q' [Hq|Hq]; [subst; right; now left|]. destruct (I3 _ Hq); [auto|right; now right].
Qed.

Lemma existsb_snoc {A} (f : A -> bool) l a : existsb f (l ++ [a]) = existsb f l || f a.
Proof. rewrite existsb_app. simpl. now rewrite orb_false_r. Qed.

Lemma pc_fold : forall rns names st0,
  Forall2 (fun rn n => interp rn = inl n) rns names -> p_name N (fst st0) = "lumi" ->
  exists st, fold_left (process_const N) rns (inl st0) = inl st /\
    (forall n, has_fixed (fst st :: snd st) n = has_fixed (fst st0 :: snd st0) n || existsb (String.eqb n) names) /\
    core (fst st) = core (fst st0) /\
    (forall q, In q (snd st0) -> exists q', In q' (snd st) /\ core q' = core q).
Proof.
  induction rns as [|rn rns IH]; intros names st0 HF Hl.
  - inversion HF; subst. exists st0. simpl. split; [auto|]. split; [intros; now rewrite orb_false_r|]. split; eauto.
  - inversion HF as [|? nm ? names' Hi HF']; subst. cbn [fold_left]. unfold process_const at 2. cbn [bind]. rewrite Hi. cbn [bind].
    destruct st0 as [lp d]. cbn [fst snd] in *.
    destruct (String.eqb_spec nm "lumi") as [En|En].
    + destruct (IH names' (set_fixed N lp, d) HF' Hl) as [st [S1 [S2 [S3 S4]]]].
      exists st. split; [exact S1|]. split; [|split; [rewrite S3; reflexivity|exact S4]].
      intros n. rewrite S2. cbn [fst snd existsb has_fixed]. unfold has_fixed. cbn [existsb set_fixed p_name is_fixed p_fixed].
      rewrite Hl. subst nm. destruct (String.eqb_spec "lumi" n) as [E1|E1].
      * subst n. simpl. now rewrite !orb_true_r.
      * destruct (String.eqb_spec n "lumi"); [congruence|]. simpl. reflexivity.
    + destruct (dict_pop N nm d) as [po rest] eqn:Ep. destruct (dict_pop_spec _ _ _ _ Ep) as [P1 [P2 P3]].
      set (newp := set_fixed N (match po with Some p => p | None => param_default N nm end)).
      assert (Hnn : p_name N newp = nm) by (unfold newp; destruct po as [p0|]; simpl; [tauto|reflexivity]).
      destruct (IH names' (lp, rest ++ [newp]) HF' Hl) as [st [S1 [S2 [S3 S4]]]].
      exists st. split; [exact S1|]. split; [|split; [exact S3|]].
      * intros n. rewrite S2. cbn [fst snd]. unfold has_fixed in *. cbn [existsb]. rewrite existsb_snoc.
        rewrite Hnn. unfold newp at 1. cbn [is_fixed set_fixed p_fixed]. rewrite andb_true_r.
        destruct (String.eqb_spec n nm) as [E1|E1].
        { subst n. rewrite String.eqb_refl. simpl. now rewrite !orb_true_r. }
        { destruct (String.eqb_spec nm n); [congruence|]. rewrite (P1 n E1). simpl. now rewrite orb_false_r. }
      * intros q Hq. cbn [fst snd] in S4. destruct (P3 q Hq) as [Hp|Hp].
        { subst po. destruct (S4 newp) as [q' [Q1 Q2]]; [apply in_app_iff; right; now left|]. exists q'. split; [auto|]. rewrite Q2. reflexivity. }
        { destruct (S4 q) as [q' [Q1 Q2]]; [apply in_app_iff; now left|]. eauto. }
Qed.


Lemma mapM_Forall2 {A B} (f : A -> res B) (P : B -> A -> Prop) : forall l r,
  mapM f l = inl r -> Forall (fun a => forall b, f a = inl b -> P b a) l -> Forall2 P r l.
Proof. induction l as [|a l IH]; simpl; intros r H HF; [inversion H; constructor|].
  destruct (f a) as [b|] eqn:E; simpl in H; [|discriminate]. destruct (mapM f l) as [bs|]; simpl in H; [|discriminate].
  inversion H; subst. inversion HF; subst. constructor; auto. Qed.

(* the code's own guard on parameter names: the writer's ROOT name is read back as the same parameter *)
Definition name_guard (mt : list (string * string)) (n : string) : Prop :=
  forall rn, rootname mt n = inl rn -> interp rn = inl n.

Definition five := nofZ N 5.
Definition meas_recovered (cfgs : list (param N)) (m m' : measurement N) : Prop :=
  me_name N m' = me_name N m /\ me_poi N m' = me_poi N m /\
  (forall n, has_fixed (me_params N m') n = has_fixed (me_params N m) n) /\
  (let L := fst (lumi_cfg (me_params N m) (n1 N, n0 N)) in
   let sg := snd (lumi_cfg (me_params N m) (n1 N, n0 N)) in
   exists lp rest, me_params N m' = lp :: rest /\ p_name N lp = "lumi" /\ p_auxdata N lp = Some [L] /\ p_sigmas N lp = Some [sg]
     /\ p_inits N lp = Some [L] /\ p_bounds N lp = Some [(nsub N L (nmul N five sg), nadd N L (nmul N five sg))]
     /\ (forall q, In q cfgs -> exists q', In q' rest /\ core q' = core q)).

Theorem roundtrip_measurement mt others m xm :
  build_measurement N mt m = inl xm ->
  Forall (name_guard mt) (fixed_names (me_params N m)) ->
  Forall (fun p => is_fixed N p = false) (dict_of N others) ->
  exists m', process_measurement N others xm = inl m' /\ meas_recovered (dict_of N others) m m'.
Proof.
  unfold build_measurement, build_measurement_gen. intros H HG HO.
  destruct (fold_left (bm_step N true mt) (me_params N m) (ret (nil, n1 N, n0 N))) as [[[f l] e]|] eqn:E; simpl in H; [|discriminate].
  inversion H; subst; clear H. unfold ret in E.
  assert (Hs : nmul N (n1 N) (n0 N) = n0 N) by ring.
  destruct (bm_fold _ _ _ _ _ _ _ _ _ E Hs) as [[rns [R1 R2]] [L1 L2]]. simpl in R2. subst f.
  assert (HF : Forall2 (fun rn n => interp rn = inl n) rns (fixed_names (me_params N m))).
  { apply (mapM_Forall2 _ _ _ _ R1). eapply Forall_impl; [|exact HG]. intros a Ha b Hb. now apply Ha. }
  unfold process_measurement. cbn [xm_lumi xm_relerr xm_const xm_name xm_poi].
  destruct (pc_fold rns _ (lumi_param N l (nmul N l e), dict_of N others) HF eq_refl) as [st [S1 [S2 [S3 S4]]]].
  unfold ret. rewrite S1. cbn [bind]. eexists. split; [reflexivity|].
  unfold meas_recovered. cbn [me_name me_poi me_params]. split; [reflexivity|]. split; [reflexivity|]. split.
  - intros n. rewrite S2. cbn [fst snd]. rewrite <- has_fixed_names.
    assert (Hz : has_fixed (lumi_param N l (nmul N l e) :: dict_of N others) n = false).
    { unfold has_fixed. cbn [existsb lumi_param is_fixed p_fixed]. rewrite andb_false_r. simpl.
      clear - HO. induction HO as [|p ps Hp _ IH]; simpl; auto. rewrite Hp, andb_false_r. exact IH. }
    rewrite Hz. reflexivity.
  - cbn zeta. exists (fst st), (snd st). split; [reflexivity|]. cbn [fst snd] in S3, S4.
    unfold core in S3. cbn [lumi_param p_name p_inits p_bounds p_auxdata p_sigmas] in S3.
    injection S3 as Q1 Q2 Q3 Q4 Q5.
    rewrite <- L1, <- L2. unfold five. rewrite Q1, Q2, Q3, Q4, Q5. repeat split; auto.
Qed.

(* ---- dedupe never fails on what the writer emits ---- *)
Definition nfp (ws : ws_t) (n : string) : param N :=
  match nf_settings N ws n with inl (v, l, h) => nf_param N n v l h | inr _ => param_default N n end.
Lemma nf_cfgs_mod_in ws m p : In p (nf_cfgs_mod ws m) -> p = nfp ws (p_name N p).
Proof. unfold nf_cfgs_mod, nfp. destruct (String.eqb (m_name N m) "lumi"); [intros []|].
  destruct (m_data N m); try (intros []). destruct (nf_settings N ws (m_name N m)) as [[[v l] h]|] eqn:E; [|intros []].
  intros [H|[]]. subst p. simpl. rewrite E. reflexivity. Qed.
Definition all_cfgs (ws : ws_t) : list (param N) := flat_map (nf_cfgs_chan ws) (w_channels N ws).
Lemma all_cfgs_in ws p : In p (all_cfgs ws) -> p = nfp ws (p_name N p).
Proof. unfold all_cfgs, nf_cfgs_chan, nf_cfgs_sample. intros H.
  apply in_flat_map in H. destruct H as [c [_ H]]. apply in_flat_map in H. destruct H as [s0 [_ H]].
  apply in_flat_map in H. destruct H as [m [_ H]]. now apply nf_cfgs_mod_in in H. Qed.

Lemma olist_eqb_refl {A} (e : A -> A -> bool) (o : option (list A)) : (forall x, e x x = true) -> olist_eqb e o o = true.
Proof. intros He. destruct o as [l|]; simpl; auto. rewrite Nat.eqb_refl. simpl. induction l; simpl; auto. now rewrite He. Qed.
Lemma param_eqb_refl p : param_eqb N p p = true.
Proof. unfold param_eqb. rewrite String.eqb_refl, !olist_eqb_refl; auto using eqb_refl.
  - destruct (p_fixed N p) as [[|]|]; reflexivity.
  - intros x. now rewrite !eqb_refl. Qed.

Lemma dedupe_ok ws : dedupe N (all_cfgs ws) = inl (dict_of N (all_cfgs ws)).
Proof. unfold dedupe. assert (H : forallb (fun p => forallb (fun q => negb (String.eqb (p_name N p) (p_name N q)) || param_eqb N p q) (all_cfgs ws)) (all_cfgs ws) = true).
  { apply forallb_forall. intros p Hp. apply forallb_forall. intros q Hq.
    destruct (String.eqb_spec (p_name N p) (p_name N q)) as [E|E]; simpl; auto.
    rewrite (all_cfgs_in _ _ Hp), (all_cfgs_in _ _ Hq), E. apply param_eqb_refl. }
  now rewrite H. Qed.

Lemma dict_set_in m p q : In q (dict_set N m p) -> In q m \/ q = p.
Proof. induction m as [|a m IH]; simpl; [intros [H|[]]; auto|].
  destruct (String.eqb (p_name N a) (p_name N p)); simpl; intros [H|H]; auto. destruct (IH H); auto. Qed.
Lemma dict_set_names m p n : (exists q, In q m /\ p_name N q = n) \/ p_name N p = n -> exists q, In q (dict_set N m p) /\ p_name N q = n.
Proof. induction m as [|a m IH]; simpl.
  - intros [[q [[] _]]|H]; exists p; auto.
  - destruct (String.eqb_spec (p_name N a) (p_name N p)) as [E|E].
    + intros [[q [[Hq|Hq] Hn]]|H].
      * subst q. exists p. split; [now left|congruence].
      * exists q. split; [now right|auto].
      * exists p. split; [now left|auto].
    + intros [[q [[Hq|Hq] Hn]]|H].
      * subst q. exists a. split; [now left|auto].
      * destruct IH as [q' [Q1 Q2]]; [left; eauto|]. exists q'. split; [now right|auto].
      * destruct IH as [q' [Q1 Q2]]; [right; auto|]. exists q'. split; [now right|auto]. Qed.
Lemma dict_of_gen l : forall m0,
  (forall q, In q (fold_left (dict_set N) l m0) -> In q m0 \/ In q l) /\
  (forall n, (exists q, In q m0 /\ p_name N q = n) \/ (exists q, In q l /\ p_name N q = n) -> exists q, In q (fold_left (dict_set N) l m0) /\ p_name N q = n).
Proof. induction l as [|p l IH]; intros m0; simpl.
  - split; [auto|]. intros n [H|[q [[] _]]]; auto.
  - destruct (IH (dict_set N m0 p)) as [I1 I2]. split.
    + intros q Hq. destruct (I1 q Hq) as [H|H]; [|auto]. destruct (dict_set_in _ _ _ H); auto.
    + intros n H. apply I2. destruct H as [H|[q [[Hq|Hq] Hn]]].
      * left. apply dict_set_names. auto.
      * subst q. left. apply dict_set_names. auto.
      * right. eauto. Qed.
Lemma dict_of_in l q : In q (dict_of N l) -> In q l.
Proof. intros H. destruct (dict_of_gen l []) as [I1 _]. destruct (I1 q H) as [[]|]; auto. Qed.
Lemma dict_of_names l p : In p l -> exists q, In q (dict_of N l) /\ p_name N q = p_name N p.
Proof. intros H. destruct (dict_of_gen l []) as [_ I2]. apply I2. right. eauto. Qed.

Lemma nf_cfgs_not_fixed ws p : In p (all_cfgs ws) -> is_fixed N p = false.
Proof. intros H. rewrite (all_cfgs_in _ _ H). unfold nfp. destruct (nf_settings N ws (p_name N p)) as [[[v l] h]|]; reflexivity. Qed.

Lemma cfgs_expected ws cs : flat_map (cr_cfgs N) (map (expected_cr ws) cs) = flat_map (nf_cfgs_chan ws) cs.
Proof. induction cs; simpl; auto. now rewrite IHcs. Qed.

Definition names_ok (ws : ws_t) : Prop :=
  Forall (fun m => Forall (name_guard (modtypes N ws)) (fixed_names (me_params N m))) (w_meas N ws).

Lemma meas_fold ws others : Forall (fun p => is_fixed N p = false) (dict_of N others) ->
  forall ms xms, mapM (build_measurement N (modtypes N ws)) ms = inl xms ->
  Forall (fun m => Forall (name_guard (modtypes N ws)) (fixed_names (me_params N m))) ms ->
  exists ms', mapM (process_measurement N others) xms = inl ms' /\ Forall2 (meas_recovered (dict_of N others)) ms ms'.
Proof. intros HO. induction ms as [|m ms IH]; intros xms H HG; simpl in H.
  - inversion H. exists []. split; [reflexivity|constructor].
  - destruct (build_measurement N (modtypes N ws) m) as [xm|] eqn:E; simpl in H; [|discriminate].
    destruct (mapM _ ms) as [xs|] eqn:E2; simpl in H; [|discriminate]. inversion H; subst. inversion HG; subst.
    destruct (roundtrip_measurement _ others _ _ E H2 HO) as [m' [M1 M2]].
    destruct (IH _ eq_refl H3) as [ms' [N1 N2]]. exists (m' :: ms'). cbn [mapM]. rewrite M1. cbn [bind]. rewrite N1. cbn [bind].
    split; [reflexivity|constructor; auto]. Qed.

Lemma meas_recovered_weaken c1 c2 m m' : (forall p, In p c2 -> In p c1) -> meas_recovered c1 m m' -> meas_recovered c2 m m'.
Proof. unfold meas_recovered. intros Hs (A & B & C & lp & rest & D1 & D2 & D3 & D4 & D5 & D6 & D7).
  repeat split; auto. exists lp, rest. repeat split; auto. Qed.
Lemma Forall2_impl {A B} (P Q : A -> B -> Prop) l l' : (forall a b, P a b -> Q a b) -> Forall2 P l l' -> Forall2 Q l l'.
Proof. intros H. induction 1; constructor; auto. Qed.

(* ======================= the round trip ======================= *)
Theorem roundtrip_model ws x file :
  write N ws = inl (x, file) -> w_obs N ws <> [] -> stat_ok N ws -> names_ok ws ->
  exists ws', read N x file = inl ws' /\
    w_channels N ws' = map (expected_channel N) (w_channels N ws) /\
    w_obs N ws' = map (fun c => (c_name N c, obs_of ws (c_name N c))) (w_channels N ws) /\
    Forall2 (meas_recovered (all_cfgs ws)) (w_meas N ws) (w_meas N ws').
Proof.
  intros H Ho Hs Hn. pose proof (roundtrip_channels _ _ _ H Ho Hs) as Hc.
  unfold read. rewrite Hc. cbn [bind]. rewrite cfgs_expected. fold (all_cfgs ws). rewrite dedupe_ok. cbn [bind].
  unfold write, write_gen in H. destruct (build_channels N ws (w_channels N ws)) as [[xcs ex]|]; simpl in H; [|discriminate].
  destruct (export_all N ex) as [f|]; simpl in H; [|discriminate].
  destruct (mapM (build_measurement_gen N true (modtypes N ws)) (w_meas N ws)) as [xms|] eqn:Em; simpl in H; [|discriminate].
  inversion H; subst; clear H. cbn [x_meas].
  assert (HO : Forall (fun p => is_fixed N p = false) (dict_of N (dict_of N (all_cfgs ws)))).
  { apply Forall_forall. intros p Hp. apply dict_of_in, dict_of_in in Hp. now apply nf_cfgs_not_fixed in Hp. }
  destruct (meas_fold ws (dict_of N (all_cfgs ws)) HO _ _ Em Hn) as [ms' [M1 M2]].
  rewrite M1. cbn [bind]. eexists. split; [reflexivity|]. cbn [w_channels w_obs w_meas].
  split; [|split].
  - rewrite map_map. apply map_ext. reflexivity.
  - rewrite map_map. apply map_ext. reflexivity.
  - eapply Forall2_impl; [|exact M2]. intros m m'. apply meas_recovered_weaken.
    intros p Hp. destruct (dict_of_names _ _ Hp) as [q1 [A1 A2]]. destruct (dict_of_names _ _ A1) as [q2 [B1 B2]].
    assert (q2 = p); [|subst; auto].
    pose proof (dict_of_in _ _ (dict_of_in _ _ B1)) as Hq2.
    rewrite (all_cfgs_in _ _ Hq2), (all_cfgs_in _ _ Hp). congruence.
Qed.

(* ---------- the name guard, syntactically ---------- *)
Lemma interp_Lumi : interp "Lumi" = inl "lumi".
Proof. reflexivity. Qed.
Lemma interp_alpha n : n <> "" -> interp ("alpha_" +s+ n) = inl n.
Proof. intros H. unfold interp. simpl. destruct n; [congruence|reflexivity]. Qed.
Lemma interp_plain n : strip_prefix "gamma_" n = None -> strip_prefix "alpha_" n = None -> n <> "Lumi" -> interp n = inl n.
Proof. intros H1 H2 H3. unfold interp. rewrite H1, H2. destruct (String.eqb_spec n "Lumi"); [congruence|reflexivity]. Qed.
Lemma interp_gamma n : exists e, interp ("gamma_" +s+ n) = inr e.
Proof. unfold interp. simpl. eauto. Qed.

Lemma name_guard_intro mt n :
  n = "lumi" \/
  (exists ty, dict_get n mt = Some ty /\
     ((prefix_of ty = "alpha_" /\ n <> "") \/
      (prefix_of ty = "" /\ strip_prefix "gamma_" n = None /\ strip_prefix "alpha_" n = None /\ n <> "Lumi"))) ->
  name_guard mt n.
Proof. unfold name_guard, rootname. intros [H|[ty [Hd H]]] rn.
  - subst n. simpl. intros E. inversion E. reflexivity.
  - destruct (String.eqb_spec n "lumi"); [subst; intros E; inversion E; reflexivity|]. rewrite Hd.
    intros E. inversion E; subst; clear E. destruct H as [[Hp Hn]|[Hp [H1 [H2 H3]]]]; rewrite Hp.
    + now apply interp_alpha.
    + simpl. now apply interp_plain. Qed.
(* a fixed shapesys / staterror parameter is written as gamma_<name> and refused on import (documented limitation of readxml) *)
Lemma gamma_not_reimportable mt n ty : n <> "lumi" -> dict_get n mt = Some ty -> prefix_of ty = "gamma_" -> ~ name_guard mt n.
Proof. unfold name_guard, rootname. intros Hn Hd Hp Hg. destruct (String.eqb_spec n "lumi"); [congruence|]. rewrite Hd, Hp in Hg.
  specialize (Hg _ eq_refl). destruct (interp_gamma n) as [e He]. simpl in *. congruence. Qed.

(* normfactor settings: what the writer takes from the first measurement *)
Lemma nf_fold_nomatch n ps : forall acc, Forall (fun p => String.eqb (p_name N p) n = false) ps ->
  fold_left (nf_step N n) ps (inl acc) = inl acc.
Proof. induction ps as [|p ps IH]; intros acc H; simpl; auto. inversion H; subst.
  unfold nf_step at 1. destruct acc as [[v l] h]. cbn [bind]. rewrite H2. now apply IH. Qed.
Lemma nf_step_match n p acc v vs l h bs : p_name N p = n -> p_inits N p = Some (v :: vs) -> p_bounds N p = Some ((l, h) :: bs) ->
  nf_step N n (inl acc) p = inl (v, l, h).
Proof. intros Hn Hi Hb. unfold nf_step. destruct acc as [[v0 l0] h0]. cbn [bind]. rewrite Hn, String.eqb_refl, Hi, Hb. reflexivity. Qed.
(* no parameter config of that name in the first measurement: Val 1, Low 0, High 10 *)
Theorem nf_settings_default ws m0 ms n : w_meas N ws = m0 :: ms ->
  Forall (fun p => String.eqb (p_name N p) n = false) (me_params N m0) ->
  nf_settings N ws n = inl (n1 N, n0 N, nofZ N 10).
Proof. intros Hm H. unfold nf_settings. rewrite Hm. now apply nf_fold_nomatch. Qed.
(* exactly one config of that name, with inits and bounds: those *)
Theorem nf_settings_custom ws m0 ms n pre p post v vs l h bs : w_meas N ws = m0 :: ms -> me_params N m0 = pre ++ p :: post ->
  Forall (fun q => String.eqb (p_name N q) n = false) pre -> Forall (fun q => String.eqb (p_name N q) n = false) post ->
  p_name N p = n -> p_inits N p = Some (v :: vs) -> p_bounds N p = Some ((l, h) :: bs) ->
  nf_settings N ws n = inl (v, l, h).
Proof. intros Hm Hp Hpre Hpost Hn Hi Hb. unfold nf_settings. rewrite Hm, Hp, fold_left_app.
  unfold ret. rewrite (nf_fold_nomatch n pre _ Hpre). cbn [fold_left].
  rewrite (nf_step_match n p _ v vs l h bs Hn Hi Hb). now apply nf_fold_nomatch. Qed.

(* ---------- normfactor settings come back in every measurement ---------- *)
Theorem normfactor_recovered ws x file ws' :
  write N ws = inl (x, file) -> w_obs N ws <> [] -> stat_ok N ws -> names_ok ws -> read N x file = inl ws' ->
  forall c s mo v l h, In c (w_channels N ws) -> In s (c_samples N c) -> In mo (s_mods N s) ->
    m_data N mo = DNormfactor -> m_name N mo <> "lumi" -> nf_settings N ws (m_name N mo) = inl (v, l, h) ->
    Forall (fun m' => exists q, In q (me_params N m') /\ p_name N q = m_name N mo /\ p_inits N q = Some [v] /\ p_bounds N q = Some [(l, h)])
           (w_meas N ws').
Proof.
  intros H Ho Hs Hn Hr c s mo v l h Hc Hsm Hm Hd Hl Hnf.
  destruct (roundtrip_model _ _ _ H Ho Hs Hn) as [ws2 [R1 [_ [_ R4]]]]. rewrite Hr in R1. inversion R1; subst ws2; clear R1.
  assert (Hin : In (nf_param N (m_name N mo) v l h) (all_cfgs ws)).
  { unfold all_cfgs. apply in_flat_map. exists c. split; [auto|]. apply in_flat_map. exists s. split; [auto|].
    apply in_flat_map. exists mo. split; [auto|]. unfold nf_cfgs_mod. destruct (String.eqb_spec (m_name N mo) "lumi"); [congruence|].
    rewrite Hd, Hnf. now left. }
  clear - R4 Hin. induction R4 as [|m m' ms ms' Hm _ IH]; constructor; auto.
  destruct Hm as (_ & _ & _ & lp & rest & D1 & _ & _ & _ & _ & _ & D7). destruct (D7 _ Hin) as [q' [Q1 Q2]].
  exists q'. rewrite D1. split; [now right|]. unfold core in Q2. simpl in Q2. inversion Q2. auto.
Qed.

(* ---------- where the workspace is already in the form the XML dictates, the channels come back identical ---------- *)
Definition canonical_mod (cname : string) (sdata : list (V N)) (m : modifier N) : Prop :=
  m_name N m <> "lumi" /\
  match m_data N m with
  | DStaterror d => m_name N m = "staterror_" +s+ cname /\ Forall2 (fun a b => b <> n0 N \/ a = n0 N) d sdata
  | DShapesys d => Forall2 (fun a b => b <> n0 N \/ a = n0 N) d sdata
  | DLumi => False
  | _ => True end.
Definition canonical_sample (cname : string) (s : sample N) : Prop :=
  exists rest, Forall (canonical_mod cname (s_data N s)) rest /\ (s_mods N s = rest \/ s_mods N s = lumi_mod N :: rest).
Lemma expected_mod_canonical cname sdata m : canonical_mod cname sdata m -> expected_mod N cname sdata m = [m].
Proof. unfold canonical_mod, expected_mod. destruct m as [n d]; simpl. intros [Hn Hd].
  destruct (String.eqb_spec n "lumi"); [congruence|]. destruct d; auto.
  - now rewrite mask_id.
  - destruct Hd as [Hd1 Hd2]. rewrite mask_id by assumption. now subst.
  - contradiction. Qed.
Lemma expected_mods_canonical cname sdata ms : Forall (canonical_mod cname sdata) ms -> flat_map (expected_mod N cname sdata) ms = ms.
Proof. induction 1 as [|m ms Hm _ IH]; simpl; auto. rewrite (expected_mod_canonical _ _ _ Hm), IH. reflexivity. Qed.
Lemma canonical_no_lumi cname sdata ms : Forall (canonical_mod cname sdata) ms -> existsb (is_lumi_type N) ms = false.
Proof. induction 1 as [|m ms Hm _ IH]; simpl; auto. rewrite IH. unfold canonical_mod in Hm. unfold is_lumi_type.
  destruct (m_data N m); auto. tauto. Qed.
Theorem expected_sample_canonical cname s : canonical_sample cname s -> expected_sample N cname s = s.
Proof. intros [rest [Hr Hm]]. unfold expected_sample. destruct s as [n d ms]; simpl in *. f_equal.
  destruct Hm as [Hm|Hm]; subst ms.
  - rewrite (canonical_no_lumi _ _ _ Hr). simpl. now apply expected_mods_canonical.
  - simpl. rewrite (expected_mods_canonical _ _ _ Hr). reflexivity. Qed.
Theorem expected_channel_canonical c : Forall (canonical_sample (c_name N c)) (c_samples N c) -> expected_channel N c = c.
Proof. unfold expected_channel. destruct c as [n ss]; simpl. intros H. f_equal.
  induction H as [|s ss Hs _ IH]; simpl; auto. now rewrite (expected_sample_canonical _ _ Hs), IH. Qed.

Lemma map_id_Forall {A} (f : A -> A) l : Forall (fun a => f a = a) l -> map f l = l.
Proof. induction 1; simpl; congruence. Qed.
Definition canonical_ws (ws : ws_t) : Prop :=
  Forall (fun c => Forall (canonical_sample (c_name N c)) (c_samples N c)) (w_channels N ws).
(* For a workspace already in the shape HistFactory XML dictates (staterror named staterror_<channel>, lumi modifier first,
   no uncertainty on empty bins) the re-imported channels ARE the original channels, so every function of them -- the
   likelihood in particular -- agrees.  Missing for the full roundtrip_likelihood: the likelihood semantics (C02) and its
   invariance under the renaming / reordering / masking that expected_channel performs on non-canonical workspaces. *)
Theorem roundtrip_likelihood_partial ws x file :
  write N ws = inl (x, file) -> w_obs N ws <> [] -> stat_ok N ws -> names_ok ws -> canonical_ws ws ->
  exists ws', read N x file = inl ws' /\ w_channels N ws' = w_channels N ws /\
    w_obs N ws' = map (fun c => (c_name N c, obs_of ws (c_name N c))) (w_channels N ws) /\
    Forall2 (meas_recovered (all_cfgs ws)) (w_meas N ws) (w_meas N ws').
Proof. intros H Ho Hs Hn Hc. destruct (roundtrip_model _ _ _ H Ho Hs Hn) as [ws' [R1 [R2 [R3 R4]]]].
  exists ws'. repeat split; auto. rewrite R2. apply map_id_Forall. eapply Forall_impl; [|exact Hc].
  intros c. apply expected_channel_canonical. Qed.

(* ---------- boolean deciders of the hypotheses (used for the examples and by the correspondence run) ---------- *)
Definition stat_okb (ws : ws_t) : bool :=
  forallb (fun c => forallb (fun s => forallb (fun m => match m_data N m with DStaterror [] => false | _ => true end) (s_mods N s))
                            (c_samples N c)) (w_channels N ws).
Lemma stat_okb_sound ws : stat_okb ws = true -> stat_ok N ws.
Proof. unfold stat_okb, stat_ok. intros H. apply Forall_forall. intros c Hc. apply Forall_forall. intros s0 Hs0.
  apply Forall_forall. intros m Hm. rewrite forallb_forall in H. specialize (H c Hc). rewrite forallb_forall in H.
  specialize (H s0 Hs0). rewrite forallb_forall in H. specialize (H m Hm). unfold stat_ok_mod.
  destruct (m_data N m); auto. destruct d; [discriminate|discriminate]. Qed.
Definition name_guardb (mt : list (string * string)) (n : string) : bool :=
  match rootname mt n with
  | inl rn => match interp rn with inl n' => String.eqb n' n | inr _ => false end
  | inr _ => true end.
Lemma name_guardb_sound mt n : name_guardb mt n = true -> name_guard mt n.
Proof. unfold name_guardb, name_guard. intros H rn Hr. rewrite Hr in H. destruct (interp rn) as [n'|]; [|discriminate].
  apply String.eqb_eq in H. now subst. Qed.
Definition names_okb (ws : ws_t) : bool :=
  forallb (fun m => forallb (name_guardb (modtypes N ws)) (fixed_names (me_params N m))) (w_meas N ws).
Lemma names_okb_sound ws : names_okb ws = true -> names_ok ws.
Proof. unfold names_okb, names_ok. intros H. apply Forall_forall. intros m Hm. apply Forall_forall. intros n Hn.
  rewrite forallb_forall in H. specialize (H m Hm). rewrite forallb_forall in H. apply name_guardb_sound. now apply H. Qed.
Definition is_ok {A} (r : res A) : bool := match r with inl _ => true | inr _ => false end.
Lemma is_ok_inv {A} (r : res A) : is_ok r = true -> exists v, r = inl v.
Proof. destruct r; [eauto|discriminate]. Qed.
(* all hypotheses of roundtrip_model at once *)
Definition guardsb (ws : ws_t) : bool :=
  is_ok (write N ws) && negb (match w_obs N ws with [] => true | _ => false end) && stat_okb ws && names_okb ws.
Lemma olist_neq (a b : list (V N)) : olist_eqb (neqb N) (Some a) (Some b) = false -> a <> b.
Proof. intros H E. subst b. rewrite olist_eqb_refl in H; [discriminate|apply eqb_refl]. Qed.

End Theory.
