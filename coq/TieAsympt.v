(* C07 - tie to the source: the definitions translated on every run from pyhf/infer/calculators.py
   (coq/gen/AsymptGen.v, written by harness/props/c07.py:extract) coincide with the hand model of Asympt.v.
   Proofs: case analysis on the cutoff (float("-inf") / finite), on the cached sqrt(qA) (None before teststatistic),
   on the test statistic / base distribution; they succeed only while the translated text means what the model says. *)
From Coq Require Import ZArith Bool List.
Require Import PV.Num PV.Asympt PV.gen.AsymptGen.
Import ListNotations.
Local Open Scope list_scope.

Section Tie.
Variable N : Num.
Variable Phi : V N -> V N.
Variable sqrt : V N -> V N.
Notation G f := (f N Phi sqrt) (only parsing).

Lemma tie_cdf : forall d value, G gen_cdf d value = cdf N Phi d value.
Proof. intros [s [c|]] value; reflexivity. Qed.

Lemma tie_pvalue : forall d value, G gen_pvalue d value = pvalue N Phi d value.
Proof. intros [s [c|]] value; reflexivity. Qed.

Lemma tie_expected_value : forall d nsigma, G gen_expected_value d nsigma = expected_value N d nsigma.
Proof. intros [s [c|]] nsigma; reflexivity. Qed.

Lemma tie_distributions : forall sqrtqmuA_v b, G gen_distributions sqrtqmuA_v b = distributions N sqrtqmuA_v b.
Proof. intros [sA|] []; reflexivity. Qed.

Lemma tie_true_case : forall s sA, G gen_true_case s sA = true_case N s sA.
Proof. reflexivity. Qed.
Lemma tie_false_case : forall s sA, G gen_false_case s sA = false_case N s sA.
Proof. reflexivity. Qed.

Lemma tie_teststatistic : forall k qmu_v qmuA_v, G gen_teststatistic k qmu_v qmuA_v = teststatistic N sqrt k qmu_v qmuA_v.
Proof. intros [] qmu_v qmuA_v; reflexivity. Qed.

(* the branch condition of the qtilde statistic, separately: sqrt(q) <= sqrt(qA) selects _true_case *)
Lemma tie_teststatistic_branch : forall qmu_v qmuA_v,
  fst (G gen_teststatistic KQtilde qmu_v qmuA_v)
  = if nleb N (sqrt qmu_v) (sqrt qmuA_v) then G gen_true_case (sqrt qmu_v) (sqrt qmuA_v) else G gen_false_case (sqrt qmu_v) (sqrt qmuA_v).
Proof. reflexivity. Qed.

Lemma tie_pvalues : forall teststat sb b, G gen_pvalues teststat sb b = pvalues N Phi teststat sb b.
Proof. intros. unfold gen_pvalues, pvalues, odiv. rewrite !tie_pvalue. reflexivity. Qed.

Lemma tie_expected_pvalues : forall sb b, G gen_expected_pvalues sb b = expected_pvalues N Phi sb b.
Proof. intros. unfold gen_expected_pvalues, expected_pvalues, nsigmas. cbn [map].
  rewrite !tie_expected_value, !tie_pvalues. reflexivity. Qed.

(* the Asimov data are generated at POI 1 for the discovery statistic, at 0 otherwise *)
Lemma tie_asimov_mu : forall k, G gen_asimov_mu k = match k with KQ0 => n1 N | _ => n0 N end.
Proof. intros []; reflexivity. Qed.
End Tie.
