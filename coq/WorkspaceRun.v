(* Helpers for the C16 correspondence files written by the harness: outcome codes, printable JSON. *)
From Coq Require Import ZArith QArith Qcanon String List.
Require Import PV.Num PV.Json PV.Workspace.
Import ListNotations.

Inductive ojson := ONull | OBool (b : bool) | ONum (n : Z) (d : positive) | OStr (s : string)
                 | OArr (l : list ojson) | OObj (m : list (string * ojson)).
Fixpoint out_json (j : json) : ojson :=
  match j with
  | JNull => ONull | JBool b => OBool b | JNum _ v => ONum (Qnum v) (Qden v) | JStr s => OStr s
  | JArr l => OArr (map out_json l)
  | JObj m => OObj (map (fun kv => (fst kv, out_json (snd kv))) m)
  end.

Definition err_code (e : err) : Z :=
  match e with
  | InvalidWorkspaceOperation => 1 | InvalidSpecification => 2 | SchemaNotFound => 3
  | PyValueError => 4 | PyTypeError => 5 | PyIndexError => 6
  end%Z.

(* (model outcome code, 1 iff both succeeded with the same document) *)
Definition chk (m : result workspace) (impl : option json) : Z * Z :=
  match m with
  | Ok w => (0, match impl with Some j => if jsame (json_of_ws w) j then 1 else 0 | None => 0 end)%Z
  | Err e => (err_code e, 0%Z)
  end.
Definition show (m : result workspace) : ojson :=
  match m with Ok w => out_json (json_of_ws w) | Err e => ONum (err_code e) 1 end.
