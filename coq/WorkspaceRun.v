(* Helpers for the C16 correspondence files written by the harness: outcome codes, document fingerprints, printable JSON. *)
From Coq Require Import ZArith QArith Qcanon String Ascii List.
Require Import PV.Num PV.Json PV.Workspace.
Import ListNotations.
Local Open Scope Z_scope.

Inductive ojson := ONull | OBool (b : bool) | ONum (n : Z) (d : positive) | OStr (s : string)
                 | OArr (l : list ojson) | OObj (m : list (string * ojson)).
Fixpoint out_json (j : json) : ojson :=
  match j with
  | JNull => ONull | JBool b => OBool b | JNum _ v => ONum (Qnum v) (Qden v) | JStr s => OStr s
  | JArr l => OArr (map out_json l)
  | JObj m => OObj (map (fun kv => (fst kv, out_json (snd kv))) m)
  end.

Definition err_code (e : err) : Z :=
  match e with
  | InvalidWorkspaceOperation => 1 | InvalidSpecification => 2 | SchemaNotFound => 3
  | PyValueError => 4 | PyTypeError => 5 | PyIndexError => 6
  end.

(* fingerprint of the token stream of a document (the harness computes the same function over pyhf's output).
   Arithmetic is folded with 2^89-1 by mask-and-shift, which is cheap on binary integers. *)
Definition K89 : Z := 89.
Definition M89 : Z := 618970019642690137449562111.
Definition red (x : Z) : Z := Z.land x M89 + Z.shiftr x K89.
Definition tok (h t : Z) : Z := red (red (red (h * 1000003 + t))).
Fixpoint str_num (s : string) (acc : Z) : Z :=
  match s with EmptyString => acc | String c r => str_num r (acc * 256 + Z.of_N (N_of_ascii c)) end.
Definition fp_str (s : string) (h : Z) : Z := tok (tok h (Z.of_nat (String.length s))) (str_num s 0).
Definition znat (z : Z) : Z := if z <? 0 then 2 * (- z) + 1 else 2 * z.
Fixpoint fp (j : json) (h : Z) : Z :=
  match j with
  | JNull => tok h 1
  | JBool b => tok h (if b then 3 else 2)
  | JNum _ v => tok (tok (tok h 4) (znat (Qnum v))) (Zpos (Qden v))
  | JStr s => fp_str s (tok h 5)
  | JArr l => fold_left (fun h x => fp x h) l (tok (tok h 6) (Z.of_nat (length l)))
  | JObj m => fold_left (fun h kv => fp (snd kv) (fp_str (fst kv) h)) m (tok (tok h 7) (Z.of_nat (length m)))
  end.

(* (model outcome code, fingerprint of the canonical document) *)
Definition chk (m : result workspace) : Z * Z :=
  match m with
  | Ok w => (0, fp (canon (json_of_ws w)) 7)
  | Err e => (err_code e, 0)
  end.
Definition show (m : result workspace) : ojson :=
  match m with Ok w => out_json (json_of_ws w) | Err e => ONum (err_code e) 1 end.
