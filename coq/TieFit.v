(* C05 - tie to the source: the definitions translated on every run from pyhf/optimize/common.py, optimize/mixins.py,
   optimize/opt_numpy.py, optimize/opt_jax.py and infer/mle.py (coq/gen/FitGen.v, written by harness/props/c05_tie.py)
   coincide with the hand model of FitWrap.v.  The proofs succeed only while the translated text means what the model says. *)
From Coq Require Import Bool Arith Lia List.
Require Import PV.FitWrap PV.gen.FitGen.
Import ListNotations.
Local Open Scope list_scope.

(* ---- the reading of `x or y` on lists ---- *)
Definition opt_list {X} (x : option (list X)) : list X := match x with Some l => l | None => [] end.
Lemma por_nil {X} (x : option (list X)) : por x [] = opt_list x.
Proof. destruct x as [[|a t]|]; reflexivity. Qed.
Lemma por_some_nonempty {X} (l s : list X) : l <> [] -> por (Some l) s = l.
Proof. destruct l; [congruence|reflexivity]. Qed.
Lemma upd_nonempty {X} (l : list X) p v : l <> [] -> upd p v l <> [].
Proof. destruct l; [congruence|]. destruct p; discriminate. Qed.

(* how the callers' results are read off the model's result record, per set of return flags *)
Definition lift {A F X} (f : fitres A F -> X) (r : fit_err + fitres A F) : gen_err + X :=
  match r with inl e => inl (GE e) | inr res => inr (f res) end.

(* return_uncertainties=True: (value, uncertainty) pairs when the optimiser reports uncertainties, the bare parameters otherwise *)
Definition unc_view {A F} (res : fitres A F) : list A + list (list A) :=
  match r_unc A F res with None => inl (r_x A F res) | Some u => inr (zipstar [r_x A F res; u]) end.

Section Tie.
  Variable A : Type.
  Variable zero : A.
  Variable F : Type.
  Variable leb : A -> A -> bool.
  Variable optimiser : bool -> (list A -> F) -> kwargs A -> optres A F.

  (* ---- optimize/common.py ---- *)
  Definition pair_opt (tv : option viewer) (fv : option (list A)) : option (viewer * list A) :=
    match tv, fv with Some t, Some f => Some (t, f) | _, _ => None end.

  Lemma tie_make_stitch_pars tv fv : gen_make_stitch_pars A zero tv fv = make_stitch_pars A zero (pair_opt tv fv).
  Proof. destruct tv, fv; reflexivity. Qed.

  Lemma tie_shim npars init bounds ofv ds : gen_shim A zero npars init bounds ofv ds = shim A zero npars init bounds (opt_list ofv) ds.
  Proof. unfold gen_shim, shim. rewrite !por_nil. destruct ds; reflexivity. Qed.

  Lemma tie_shim_pieces npars (ofv : option (list (nat * A))) :
    gen_shim_fixed_idx A zero npars ofv = map fst (opt_list ofv) /\
    gen_shim_variable_idx A zero npars ofv = variable_idx npars (map fst (opt_list ofv)) /\
    gen_shim_fixed_values A zero npars ofv = map snd (opt_list ofv).
  Proof. unfold gen_shim_fixed_idx, gen_shim_variable_idx, gen_shim_fixed_values. rewrite !por_nil. repeat split. Qed.

  (* ---- the objective handed to the optimiser ---- *)
  Lemma tie_wrap_numpy objective sp do_grad :
    gen_wrap_objective_numpy A F objective sp do_grad = if do_grad then None else Some (wrapped A F objective sp).
  Proof. reflexivity. Qed.

  Lemma tie_wrap_pytorch_nograd objective sp : gen_wrap_objective_pytorch_nograd A F objective sp = Some (wrapped A F objective sp).
  Proof. reflexivity. Qed.
  Lemma tie_wrap_tflow_nograd objective sp : gen_wrap_objective_tflow_nograd A F objective sp = Some (wrapped A F objective sp).
  Proof. reflexivity. Qed.

  Lemma tie_final_objective_jax objective npars init bounds ofv ds pars :
    gen_final_objective_jax A zero F objective pars (gen_shim_fixed_values A zero npars ofv) (gen_shim_fixed_idx A zero npars ofv)
                            (gen_shim_variable_idx A zero npars ofv) ds
    = wrapped A F objective (snd (shim A zero npars init bounds (opt_list ofv) ds)) pars.
  Proof. destruct (tie_shim_pieces npars ofv) as (-> & -> & ->). unfold gen_final_objective_jax, shim, wrapped. destruct ds; reflexivity. Qed.

  (* ---- optimize/mixins.py: minimize, with getattr(result, 'corr', None) absent (scipy) ---- *)
  Notation nocorr := (fun _ : optres A F => @None (list (list A))).
  Notation W := (wrapped A F).

  Lemma tie_minimize_obj objective npars init bounds ofv dg ds :
    gen_minimize_obj A zero F optimiser W nocorr objective npars init bounds ofv dg ds
    = lift (fun res => (r_x A F res, (res, None))) (minimize A zero F optimiser objective npars init bounds (opt_list ofv) dg ds).
  Proof. unfold gen_minimize_obj, minimize. rewrite tie_shim. destruct (shim A zero npars init bounds (opt_list ofv) ds) as [kw sp].
    cbn [fst snd]. destruct (o_success A F _); [|reflexivity]. unfold internal_postprocess. destruct (o_unc A F _); reflexivity. Qed.

  Lemma tie_minimize_pars objective npars init bounds ofv dg ds :
    gen_minimize_pars A zero F optimiser W nocorr objective npars init bounds ofv dg ds
    = lift (r_x A F) (minimize A zero F optimiser objective npars init bounds (opt_list ofv) dg ds).
  Proof. unfold gen_minimize_pars, minimize. rewrite tie_shim. destruct (shim A zero npars init bounds (opt_list ofv) ds) as [kw sp].
    cbn [fst snd]. destruct (o_success A F _); [|reflexivity]. unfold internal_postprocess. destruct (o_unc A F _); reflexivity. Qed.

  Lemma tie_minimize_val objective npars init bounds ofv dg ds :
    gen_minimize_val A zero F optimiser W nocorr objective npars init bounds ofv dg ds
    = lift (fun res => (r_x A F res, r_fun A F res)) (minimize A zero F optimiser objective npars init bounds (opt_list ofv) dg ds).
  Proof. unfold gen_minimize_val, minimize. rewrite tie_shim. destruct (shim A zero npars init bounds (opt_list ofv) ds) as [kw sp].
    cbn [fst snd]. destruct (o_success A F _); [|reflexivity]. unfold internal_postprocess. destruct (o_unc A F _); reflexivity. Qed.

  Lemma tie_minimize_corr_val_obj objective npars init bounds ofv dg ds :
    gen_minimize_corr_val_obj A zero F optimiser W nocorr objective npars init bounds ofv dg ds
    = lift (fun res => (r_x A F res, None, r_fun A F res, (res, None))) (minimize A zero F optimiser objective npars init bounds (opt_list ofv) dg ds).
  Proof. unfold gen_minimize_corr_val_obj, minimize. rewrite tie_shim. destruct (shim A zero npars init bounds (opt_list ofv) ds) as [kw sp].
    cbn [fst snd]. destruct (o_success A F _); [|reflexivity]. unfold internal_postprocess. destruct (o_unc A F _); reflexivity. Qed.

  Lemma tie_minimize_unc objective npars init bounds ofv dg ds :
    gen_minimize_unc A zero F optimiser W nocorr objective npars init bounds ofv dg ds
    = lift unc_view (minimize A zero F optimiser objective npars init bounds (opt_list ofv) dg ds).
  Proof. unfold gen_minimize_unc, minimize. rewrite tie_shim. destruct (shim A zero npars init bounds (opt_list ofv) ds) as [kw sp].
    cbn [fst snd]. destruct (o_success A F _); [|reflexivity]. unfold internal_postprocess, unc_view. destruct (o_unc A F _); reflexivity. Qed.

  (* ---- the same with correlations (minuit): rows and columns of the fixed parameters are stitched in as zeros; a result
     carrying correlations but no uncertainties makes _internal_postprocess read num_fixed_pars before it is assigned ---- *)
  Definition post_corr (sp : option (list A) -> list A -> list A) (nfix : nat) (c : list (list A)) : list (list A) :=
    let z := Some (repeat zero nfix) in
    zipstar (map (fun row => sp z row) (zipstar (map (fun column => sp z column) (zipstar c)))).

  Definition minimize_corr (corr_of : optres A F -> option (list (list A))) objective npars init bounds fixed_vals (dg ds : bool)
    : gen_err + (list A * option (list (list A)) * F * (fitres A F * option (list (list A)))) :=
    let '(kw, sp) := shim A zero npars init bounds fixed_vals ds in
    let r := optimiser dg (wrapped A F objective sp) kw in
    if o_success A F r then
      let res := internal_postprocess A zero F r kw sp in
      match o_unc A F r, corr_of r with
      | None, Some _ => inl GUnboundLocal
      | _, c => let c' := option_map (post_corr sp (length (r_x A F res) - length (o_x A F r))) c in
                inr (r_x A F res, c', r_fun A F res, (res, c'))
      end
    else inl (GE FailedMinimization).

  Lemma tie_minimize_with_corr corr_of objective npars init bounds ofv dg ds :
    gen_minimize_corr_val_obj A zero F optimiser W corr_of objective npars init bounds ofv dg ds
    = minimize_corr corr_of objective npars init bounds (opt_list ofv) dg ds.
  Proof. unfold gen_minimize_corr_val_obj, minimize_corr. rewrite tie_shim. destruct (shim A zero npars init bounds (opt_list ofv) ds) as [kw sp].
    cbn [fst snd]. destruct (o_success A F _); [|reflexivity]. unfold internal_postprocess, post_corr.
    destruct (o_unc A F _); destruct (corr_of _); reflexivity. Qed.

  Lemma minimize_corr_none objective npars init bounds fv dg ds :
    minimize_corr nocorr objective npars init bounds fv dg ds
    = lift (fun res => (r_x A F res, None, r_fun A F res, (res, None))) (minimize A zero F optimiser objective npars init bounds fv dg ds).
  Proof. unfold minimize_corr, minimize. destruct (shim A zero npars init bounds fv ds) as [kw sp].
    destruct (o_success A F _); [|reflexivity]. destruct (o_unc A F _); reflexivity. Qed.

  (* ---- infer/mle.py ---- *)
  Lemma find_first_validate : forall (init : list A) (bounds : list (A * A)) s,
    option_map fst
      (find_first (fun x : nat * (A * (A * A)) => negb (andb (leb (fst (snd (snd x))) (fst (snd x))) (leb (fst (snd x)) (snd (snd (snd x))))))
                  (combine (seq s (length (combine init bounds))) (combine init bounds)))
    = validate A leb s init bounds.
  Proof. induction init as [|v it IH]; intros [|b bt] s; try reflexivity.
    simpl. unfold in_bounds. destruct (leb (fst b) v && leb v (snd b)); simpl; [apply IH|reflexivity]. Qed.

  Lemma comprehension_fvals : forall (init : list A) (mask : list bool) s,
    map (fun x : nat * (A * bool) => (fst x, fst (snd x)))
        (filter (fun x : nat * (A * bool) => snd (snd x)) (combine (seq s (length (combine init mask))) (combine init mask)))
    = fvals_from A s init mask.
  Proof. induction init as [|v it IH]; intros [|b mt] s; try reflexivity.
    simpl. destruct b; simpl; rewrite IH; reflexivity. Qed.

  Section Mle.
    Variable objective : list A -> F.
    Variable npars : nat.
    Variables (si : list A) (sb : list (A * A)) (sm : list bool).      (* pdf.config.suggested_init / _bounds / _fixed () *)

    Lemma tie_fit_gen {X} (f : fitres A F -> X)
      (gm : list A -> list (A * A) -> option (list (nat * A)) -> bool -> bool -> gen_err + X)
      (Hgm : forall init bounds ofv dg ds, gm init bounds ofv dg ds = lift f (minimize A zero F optimiser objective npars init bounds (opt_list ofv) dg ds))
      oi ob om dg ds :
      match find_first (fun x : nat * (A * (A * A)) => negb (andb (leb (fst (snd (snd x))) (fst (snd x))) (leb (fst (snd x)) (snd (snd (snd x))))))
                       (combine (seq 0 (length (combine (por oi si) (por ob sb)))) (combine (por oi si) (por ob sb))) with
      | Some x => inl (GE (ValueError (fst x)))
      | None => gm (por oi si) (por ob sb)
                   (Some (map (fun x : nat * (A * bool) => (fst x, fst (snd x)))
                              (filter (fun x : nat * (A * bool) => snd (snd x))
                                      (combine (seq 0 (length (combine (por oi si) (por om sm)))) (combine (por oi si) (por om sm)))))) dg ds
      end = lift f (fit A zero F leb optimiser objective npars (por oi si) (por ob sb) (por om sm) dg ds).
    Proof. unfold fit. rewrite <- find_first_validate. destruct (find_first _ _); [reflexivity|]. cbn [option_map].
      rewrite Hgm. cbn [opt_list]. rewrite comprehension_fvals. reflexivity. Qed.

    Lemma tie_fit_pars oi ob om dg ds :
      gen_fit_pars A zero F leb optimiser W nocorr objective npars si sb sm oi ob om dg ds
      = lift (r_x A F) (fit A zero F leb optimiser objective npars (por oi si) (por ob sb) (por om sm) dg ds).
    Proof. unfold gen_fit_pars. apply (tie_fit_gen (r_x A F)). intros. apply tie_minimize_pars. Qed.
    Lemma tie_fit_val oi ob om dg ds :
      gen_fit_val A zero F leb optimiser W nocorr objective npars si sb sm oi ob om dg ds
      = lift (fun res => (r_x A F res, r_fun A F res)) (fit A zero F leb optimiser objective npars (por oi si) (por ob sb) (por om sm) dg ds).
    Proof. unfold gen_fit_val. apply (tie_fit_gen (fun res => (r_x A F res, r_fun A F res))). intros. apply tie_minimize_val. Qed.
    Lemma tie_fit_obj oi ob om dg ds :
      gen_fit_obj A zero F leb optimiser W nocorr objective npars si sb sm oi ob om dg ds
      = lift (fun res => (r_x A F res, (res, None))) (fit A zero F leb optimiser objective npars (por oi si) (por ob sb) (por om sm) dg ds).
    Proof. unfold gen_fit_obj. apply (tie_fit_gen (fun res => (r_x A F res, (res, None)))). intros. apply tie_minimize_obj. Qed.
    Lemma tie_fit_corr_val_obj oi ob om dg ds :
      gen_fit_corr_val_obj A zero F leb optimiser W nocorr objective npars si sb sm oi ob om dg ds
      = lift (fun res => (r_x A F res, None, r_fun A F res, (res, None))) (fit A zero F leb optimiser objective npars (por oi si) (por ob sb) (por om sm) dg ds).
    Proof. unfold gen_fit_corr_val_obj. apply (tie_fit_gen (fun res => (r_x A F res, None, r_fun A F res, (res, None)))). intros. apply tie_minimize_corr_val_obj. Qed.

    Lemma tie_fit_unc oi ob om dg ds :
      gen_fit_unc A zero F leb optimiser W nocorr objective npars si sb sm oi ob om dg ds
      = lift unc_view (fit A zero F leb optimiser objective npars (por oi si) (por ob sb) (por om sm) dg ds).
    Proof. unfold gen_fit_unc. apply (tie_fit_gen unc_view). intros. apply tie_minimize_unc. Qed.

    (* the lists a caller gives explicitly and non-empty are the ones used *)
    Lemma tie_fit_explicit init bounds mask dg ds : init <> [] -> bounds <> [] -> mask <> [] ->
      gen_fit_val A zero F leb optimiser W nocorr objective npars si sb sm (Some init) (Some bounds) (Some mask) dg ds
      = lift (fun res => (r_x A F res, r_fun A F res)) (fit A zero F leb optimiser objective npars init bounds mask dg ds).
    Proof. intros H1 H2 H3. rewrite tie_fit_val. rewrite !por_some_nonempty by assumption. reflexivity. Qed.

    (* fixed_poi_fit: refusal without POI; otherwise fit with the POI forced into copies of the (defaulted) lists *)
    Lemma tie_fixed_poi_fit_gen {X} (f : fitres A F -> X)
      (gf : option (list A) -> option (list (A * A)) -> option (list bool) -> bool -> bool -> gen_err + X)
      (Hgf : forall oi ob om dg ds, gf oi ob om dg ds = lift f (fit A zero F leb optimiser objective npars (por oi si) (por ob sb) (por om sm) dg ds))
      poi_index poi_val oi ob om dg ds : por oi si <> [] -> por om sm <> [] ->
      match poi_index with
      | None => inl (GE UnspecifiedPOI)
      | Some _ => gf (Some (match poi_index with Some i => upd i poi_val (por oi si) | None => por oi si end)) ob
                     (Some (match poi_index with Some i => upd i true (por om sm) | None => por om sm end)) dg ds
      end = lift f (fixed_poi_fit A zero F leb optimiser poi_index poi_val objective npars (por oi si) (por ob sb) (por om sm) dg ds).
    Proof. intros H1 H2. unfold fixed_poi_fit. destruct poi_index as [p|]; [|reflexivity]. rewrite Hgf.
      rewrite !por_some_nonempty by (apply upd_nonempty; assumption). reflexivity. Qed.

    Lemma tie_fixed_poi_fit_pars poi_index poi_val oi ob om dg ds : por oi si <> [] -> por om sm <> [] ->
      gen_fixed_poi_fit_pars A zero F leb optimiser W nocorr objective npars si sb sm poi_index poi_val oi ob om dg ds
      = lift (r_x A F) (fixed_poi_fit A zero F leb optimiser poi_index poi_val objective npars (por oi si) (por ob sb) (por om sm) dg ds).
    Proof. unfold gen_fixed_poi_fit_pars. apply (tie_fixed_poi_fit_gen (r_x A F)). intros. apply tie_fit_pars. Qed.
    Lemma tie_fixed_poi_fit_val poi_index poi_val oi ob om dg ds : por oi si <> [] -> por om sm <> [] ->
      gen_fixed_poi_fit_val A zero F leb optimiser W nocorr objective npars si sb sm poi_index poi_val oi ob om dg ds
      = lift (fun res => (r_x A F res, r_fun A F res))
             (fixed_poi_fit A zero F leb optimiser poi_index poi_val objective npars (por oi si) (por ob sb) (por om sm) dg ds).
    Proof. unfold gen_fixed_poi_fit_val. apply (tie_fixed_poi_fit_gen (fun res => (r_x A F res, r_fun A F res))). intros. apply tie_fit_val. Qed.
    Lemma tie_fixed_poi_fit_obj poi_index poi_val oi ob om dg ds : por oi si <> [] -> por om sm <> [] ->
      gen_fixed_poi_fit_obj A zero F leb optimiser W nocorr objective npars si sb sm poi_index poi_val oi ob om dg ds
      = lift (fun res => (r_x A F res, (res, None)))
             (fixed_poi_fit A zero F leb optimiser poi_index poi_val objective npars (por oi si) (por ob sb) (por om sm) dg ds).
    Proof. unfold gen_fixed_poi_fit_obj. apply (tie_fixed_poi_fit_gen (fun res => (r_x A F res, (res, None)))). intros. apply tie_fit_obj. Qed.
    Lemma tie_fixed_poi_fit_corr_val_obj poi_index poi_val oi ob om dg ds : por oi si <> [] -> por om sm <> [] ->
      gen_fixed_poi_fit_corr_val_obj A zero F leb optimiser W nocorr objective npars si sb sm poi_index poi_val oi ob om dg ds
      = lift (fun res => (r_x A F res, None, r_fun A F res, (res, None)))
             (fixed_poi_fit A zero F leb optimiser poi_index poi_val objective npars (por oi si) (por ob sb) (por om sm) dg ds).
    Proof. unfold gen_fixed_poi_fit_corr_val_obj. apply (tie_fixed_poi_fit_gen (fun res => (r_x A F res, None, r_fun A F res, (res, None)))). intros. apply tie_fit_corr_val_obj. Qed.
    Lemma tie_fixed_poi_fit_unc poi_index poi_val oi ob om dg ds : por oi si <> [] -> por om sm <> [] ->
      gen_fixed_poi_fit_unc A zero F leb optimiser W nocorr objective npars si sb sm poi_index poi_val oi ob om dg ds
      = lift unc_view (fixed_poi_fit A zero F leb optimiser poi_index poi_val objective npars (por oi si) (por ob sb) (por om sm) dg ds).
    Proof. unfold gen_fixed_poi_fit_unc. apply (tie_fixed_poi_fit_gen unc_view). intros. apply tie_fit_unc. Qed.
  End Mle.
End Tie.

(* non-vacuity of the non-emptiness premises: a two-parameter problem given explicitly, and one left to the model's suggestions *)
Example tie_premises_nonvacuous :
  por (Some [1; 2]) [7] <> [] /\ por (@None (list nat)) [7] <> [] /\ por (Some (@nil nat)) [7] = [7] /\
  upd 1 5 (por (Some [1; 2]) [7]) = [1; 5].
Proof. repeat split; discriminate. Qed.

(* ---- the statements used by props/C05.v ---- *)
Notation nocorr_ A F := (fun _ : optres A F => @None (list (list A))) (only parsing).

Lemma tie_minimize_all : forall (A : Type) (zero : A) (F : Type) (optimiser : bool -> (list A -> F) -> kwargs A -> optres A F)
    objective npars init bounds ofv dg ds,
  let m := minimize A zero F optimiser objective npars init bounds (opt_list ofv) dg ds in
  gen_minimize_pars A zero F optimiser (wrapped A F) (nocorr_ A F) objective npars init bounds ofv dg ds = lift (r_x A F) m /\
  gen_minimize_val A zero F optimiser (wrapped A F) (nocorr_ A F) objective npars init bounds ofv dg ds = lift (fun res => (r_x A F res, r_fun A F res)) m /\
  gen_minimize_obj A zero F optimiser (wrapped A F) (nocorr_ A F) objective npars init bounds ofv dg ds = lift (fun res => (r_x A F res, (res, None))) m /\
  gen_minimize_corr_val_obj A zero F optimiser (wrapped A F) (nocorr_ A F) objective npars init bounds ofv dg ds
    = lift (fun res => (r_x A F res, None, r_fun A F res, (res, None))) m /\
  gen_minimize_unc A zero F optimiser (wrapped A F) (nocorr_ A F) objective npars init bounds ofv dg ds = lift unc_view m.
Proof. intros. repeat split; [apply tie_minimize_pars|apply tie_minimize_val|apply tie_minimize_obj|apply tie_minimize_corr_val_obj|apply tie_minimize_unc]. Qed.

Lemma tie_fit_all : forall (A : Type) (zero : A) (F : Type) (leb : A -> A -> bool) (optimiser : bool -> (list A -> F) -> kwargs A -> optres A F)
    objective npars si sb sm oi ob om dg ds,
  let m := fit A zero F leb optimiser objective npars (por oi si) (por ob sb) (por om sm) dg ds in
  gen_fit_pars A zero F leb optimiser (wrapped A F) (nocorr_ A F) objective npars si sb sm oi ob om dg ds = lift (r_x A F) m /\
  gen_fit_val A zero F leb optimiser (wrapped A F) (nocorr_ A F) objective npars si sb sm oi ob om dg ds = lift (fun res => (r_x A F res, r_fun A F res)) m /\
  gen_fit_obj A zero F leb optimiser (wrapped A F) (nocorr_ A F) objective npars si sb sm oi ob om dg ds = lift (fun res => (r_x A F res, (res, None))) m /\
  gen_fit_corr_val_obj A zero F leb optimiser (wrapped A F) (nocorr_ A F) objective npars si sb sm oi ob om dg ds
    = lift (fun res => (r_x A F res, None, r_fun A F res, (res, None))) m /\
  gen_fit_unc A zero F leb optimiser (wrapped A F) (nocorr_ A F) objective npars si sb sm oi ob om dg ds = lift unc_view m.
Proof. intros. repeat split; [apply tie_fit_pars|apply tie_fit_val|apply tie_fit_obj|apply tie_fit_corr_val_obj|apply tie_fit_unc]. Qed.

Lemma tie_fixed_poi_fit_all : forall (A : Type) (zero : A) (F : Type) (leb : A -> A -> bool) (optimiser : bool -> (list A -> F) -> kwargs A -> optres A F)
    objective npars si sb sm poi_index poi_val oi ob om dg ds, por oi si <> [] -> por om sm <> [] ->
  let m := fixed_poi_fit A zero F leb optimiser poi_index poi_val objective npars (por oi si) (por ob sb) (por om sm) dg ds in
  gen_fixed_poi_fit_pars A zero F leb optimiser (wrapped A F) (nocorr_ A F) objective npars si sb sm poi_index poi_val oi ob om dg ds = lift (r_x A F) m /\
  gen_fixed_poi_fit_val A zero F leb optimiser (wrapped A F) (nocorr_ A F) objective npars si sb sm poi_index poi_val oi ob om dg ds
    = lift (fun res => (r_x A F res, r_fun A F res)) m /\
  gen_fixed_poi_fit_obj A zero F leb optimiser (wrapped A F) (nocorr_ A F) objective npars si sb sm poi_index poi_val oi ob om dg ds
    = lift (fun res => (r_x A F res, (res, None))) m /\
  gen_fixed_poi_fit_corr_val_obj A zero F leb optimiser (wrapped A F) (nocorr_ A F) objective npars si sb sm poi_index poi_val oi ob om dg ds
    = lift (fun res => (r_x A F res, None, r_fun A F res, (res, None))) m /\
  gen_fixed_poi_fit_unc A zero F leb optimiser (wrapped A F) (nocorr_ A F) objective npars si sb sm poi_index poi_val oi ob om dg ds = lift unc_view m.
Proof. intros. repeat split; [apply tie_fixed_poi_fit_pars|apply tie_fixed_poi_fit_val|apply tie_fixed_poi_fit_obj|apply tie_fixed_poi_fit_corr_val_obj|apply tie_fixed_poi_fit_unc]; assumption. Qed.

(* the refusal without POI needs no premise *)
Lemma tie_fixed_poi_fit_refuses : forall (A : Type) (zero : A) (F : Type) (leb : A -> A -> bool) optimiser wrap corr_of objective npars si sb sm poi_val oi ob om dg ds,
  gen_fixed_poi_fit_val A zero F leb optimiser wrap corr_of objective npars si sb sm None poi_val oi ob om dg ds = inl (GE UnspecifiedPOI).
Proof. reflexivity. Qed.
