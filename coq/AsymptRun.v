(* C07 - running the Asympt model at the executable rational instance (used by harness/props/c07.py).
   sqrt: exact on squares of rationals, else a finite oracle table whose entries are checked by squaring
   (`sqrt_tab_ok`).  Phi: either the identity (to read off the arguments handed to the cdf) or a finite
   table of the backend's own cdf values at exactly those arguments; a miss gives the sentinel -1. *)
From Coq Require Import ZArith QArith Qcanon Bool List.
Require Import PV.Num PV.Asympt.
Import ListNotations.
Local Open Scope list_scope.

Definition tab (t : list (Qc * Qc)) (miss : Qc) (x : Qc) : Qc :=
  match find (fun p => Qeq_bool (this (fst p)) (this x)) t with Some p => snd p | None => miss end.

Definition qsqrt_exact (x : Qc) : option Qc :=
  let n := Z.sqrt (Qnum x) in let d := Z.sqrt (Zpos (Qden x)) in
  if ((n * n =? Qnum x) && (d * d =? Zpos (Qden x)))%Z then Some (Q2Qc (n # Z.to_pos d)) else None.

Definition sqrt_model (t : list (Qc * Qc)) (x : Qc) : Qc :=
  match qsqrt_exact x with Some r => r | None => tab t (mkq (-1) 1) x end.

(* every oracle entry (x, r) has r >= 0 and |r*r - x| <= eps * x *)
Definition sqrt_tab_ok (eps : Qc) (t : list (Qc * Qc)) : bool :=
  forallb (fun p => let x := fst p in let r := snd p in
                    qleb 0%Qc r && qleb (r * r - x)%Qc (eps * x)%Qc && qleb (x - r * r)%Qc (eps * x)%Qc) t.

Lemma qsqrt_exact_sound : forall x r, qsqrt_exact x = Some r -> (0 <= Qnum x)%Z -> (r * r = x)%Qc.
Proof. intros x r H Hx. unfold qsqrt_exact in H.
  destruct ((Z.sqrt (Qnum x) * Z.sqrt (Qnum x) =? Qnum x)%Z) eqn:E1; [|discriminate].
  destruct ((Z.sqrt (Zpos (Qden x)) * Z.sqrt (Zpos (Qden x)) =? Zpos (Qden x))%Z) eqn:E2; [|discriminate].
  simpl in H. inversion H; subst r; clear H.
  apply Z.eqb_eq in E1. apply Z.eqb_eq in E2.
  assert (Hd : (0 < Z.sqrt (Zpos (Qden x)))%Z).
  { destruct (Z.sqrt (Zpos (Qden x))) eqn:Es; try reflexivity.
    - simpl in E2. discriminate.
    - pose proof (Z.sqrt_nonneg (Zpos (Qden x))) as Hn. rewrite Es in Hn. exfalso. apply Hn. reflexivity. }
  apply Qc_is_canon. unfold Qcmult, Q2Qc; cbn [this]. rewrite !Qred_correct.
  unfold Qeq, Qmult; cbn [Qnum Qden].
  rewrite Pos2Z.inj_mul. change (Z.pos (Pos.sqrt (Qden x))) with (Z.sqrt (QDen x)).
  rewrite E2, E1. reflexivity. Qed.

Definition oq (o : option Qc) := option_map qout o.

(* one observation of a calculator: (teststat, sqrtqmuA_v, pvalues or error) *)
Definition run_one (k : tkind) (b : basedist) (sq phi : Qc -> Qc) (q qA : Qc) :=
  let '(ts, sA) := teststatistic QcNum sq k q qA in
  ([qout ts; qout sA],
   match run_obs QcNum phi sq k b q qA with
   | inl e => inl e | inr (x, y, z) => inr [oq x; oq y; oq z] end).
(* its expected band (by Asympt.run_exp_indep the same for every test statistic and every q) *)
Definition run_band (b : basedist) (sq phi : Qc -> Qc) (qA : Qc) :=
  match run_exp QcNum phi sq KQ b 0%Qc qA with
  | inl e => inl e | inr l => inr (map (map oq) l) end.
Lemma run_band_any : forall k b sq phi q qA,
  run_band b sq phi qA = match run_exp QcNum phi sq k b q qA with inl e => inl e | inr l => inr (map (map oq) l) end.
Proof. intros. unfold run_band. rewrite (run_exp_indep QcNum phi sq KQ k b 0%Qc q qA). reflexivity. Qed.

(* direct use of one AsymptoticTestStatDistribution(shift, cutoff): pvalue(v), cdf(v), expected_value(n) *)
Definition run_dist (phi : Qc -> Qc) (sh : Qc) (cut : option Qc) (v n : Qc) :=
  let d := @mkDist QcNum sh cut in
  (oq (pvalue QcNum phi d v), qout (cdf QcNum phi d v), qout (expected_value QcNum d n)).
