(* C04 - the probability primitives: the formulas pyhf writes are the exact Poisson / Normal functions, the algebra
   of the concrete normal cdf  Phi x = 1/2 + RInt phi 0 x , and the formula pyhf uses for it on PyTorch. *)
From Coq Require Import Reals Lra Lia.
From Coquelicot Require Import Coquelicot.
Require Import PV.ProbNum.
Open Scope R_scope.

(* ---------- exact functions (the reference side) ---------- *)
Definition phi (t : R) : R := exp (- t ^ 2 / 2) / sqrt (2 * PI).
Definition Phi (x : R) : R := 1 / 2 + RInt phi 0 x.
Definition normal_pdf (x mu sigma : R) : R := phi ((x - mu) / sigma) / sigma.

Lemma sqrt_2PI_pos : 0 < sqrt (2 * PI).
Proof. apply sqrt_lt_R0. pose proof PI_RGT_0. lra. Qed.
Lemma phi_pos t : 0 < phi t.
Proof. unfold phi. apply Rdiv_lt_0_compat; [apply exp_pos|apply sqrt_2PI_pos]. Qed.
Lemma phi_even t : phi (- t) = phi t.
Proof. unfold phi. f_equal. f_equal. field. Qed.

(* ---------- the hand transcription of numpy_backend.normal_logpdf / jax_backend.normal_logpdf ---------- *)
Definition normal_logpdf_model (x mu sigma : R) : R :=
  let root2 := sqrt 2 in
  let root2pi := sqrt (2 * PI) in
  let prefactor := - ln (sigma * root2pi) in
  let summand := - (((x - mu) / (root2 * sigma)) * ((x - mu) / (root2 * sigma))) in
  prefactor + summand.

Theorem normal_logpdf_exact : forall x mu sigma, 0 < sigma ->
  normal_logpdf_model x mu sigma = ln (normal_pdf x mu sigma).
Proof. intros x mu sigma Hs. unfold normal_logpdf_model, normal_pdf, phi. cbv zeta.
  pose proof sqrt_2PI_pos as H2pi.
  assert (Hs2 : sqrt 2 * sqrt 2 = 2) by (apply sqrt_sqrt; lra).
  assert (H2 : 0 < sqrt 2) by (apply sqrt_lt_R0; lra).
  rewrite ln_div; [|apply Rdiv_lt_0_compat; [apply exp_pos|exact H2pi]|exact Hs].
  rewrite ln_div; [|apply exp_pos|exact H2pi]. rewrite ln_exp. rewrite ln_mult by assumption.
  replace ((x - mu) / (sqrt 2 * sigma) * ((x - mu) / (sqrt 2 * sigma))) with ((x - mu) ^ 2 / ((sqrt 2 * sqrt 2) * sigma ^ 2)) by (field; lra).
  rewrite Hs2. field. lra. Qed.

(* non-vacuity: the standard normal at 0 *)
Example normal_logpdf_exact_at0 : normal_logpdf_model 0 0 1 = ln (/ sqrt (2 * PI)).
Proof. rewrite normal_logpdf_exact by lra. unfold normal_pdf, phi. f_equal. replace (- ((0 - 0) / 1) ^ 2 / 2) with 0 by field. rewrite exp_0. field.
  pose proof sqrt_2PI_pos. lra. Qed.

(* ---------- Poisson ---------- *)
Section Poisson.
  Variable Gamma : R -> R.
  Variable gammaln : R -> R.
  Variable xlogy : R -> R -> R.
  Hypothesis Gamma_pos : forall z, 0 < z -> 0 < Gamma z.
  Hypothesis gammaln_spec : forall z, 0 < z -> gammaln z = ln (Gamma z).
  Hypothesis xlogy_spec : forall x y, 0 < y -> xlogy x y = x * ln y.

  (* hand transcription of numpy_backend.poisson_logpdf / poisson *)
  Definition poisson_logpdf_model (n lam : R) : R := xlogy n lam - lam - gammaln (n + 1).
  Definition poisson_model (n lam : R) : R := exp (xlogy n lam - lam - gammaln (n + 1)).

  (* continued to real n through Gamma *)
  Theorem poisson_logpdf_exact : forall n lam, 0 <= n -> 0 < lam ->
    poisson_logpdf_model n lam = ln (Rpower lam n * exp (- lam) / Gamma (n + 1)).
  Proof. intros n lam Hn Hl. unfold poisson_logpdf_model. rewrite xlogy_spec by assumption. rewrite gammaln_spec by lra.
    assert (HG : 0 < Gamma (n + 1)) by (apply Gamma_pos; lra).
    rewrite ln_div; [|apply Rmult_lt_0_compat; [unfold Rpower|]; apply exp_pos|exact HG].
    rewrite ln_mult; [|unfold Rpower; apply exp_pos|apply exp_pos]. rewrite ln_exp. unfold Rpower. rewrite ln_exp. ring. Qed.

  Hypothesis Gamma_fact : forall k : nat, Gamma (INR k + 1) = INR (fact k).

  (* ... and for a natural count it is the log of the probability mass function *)
  Theorem poisson_logpdf_pmf : forall (k : nat) lam, 0 < lam ->
    poisson_logpdf_model (INR k) lam = ln (lam ^ k / INR (fact k) * exp (- lam)).
  Proof. intros k lam Hl. rewrite poisson_logpdf_exact; [|apply pos_INR|exact Hl]. rewrite Gamma_fact. rewrite Rpower_pow by exact Hl.
    f_equal. field. apply not_0_INR. apply fact_neq_0. Qed.

  Theorem poisson_nonlog_is_exp : forall n lam, poisson_model n lam = exp (poisson_logpdf_model n lam).
  Proof. reflexivity. Qed.

  (* rate -> 0 *)
  Hypothesis xlogy_zero : forall y, xlogy 0 y = 0.     (* scipy/jax: xlogy(0, y) = 0 for every y, 0 included *)

  Lemma gammaln_1 : gammaln (0 + 1) = 0.
  Proof. rewrite gammaln_spec by lra. change 0 with (INR 0) at 1. rewrite Gamma_fact. simpl. apply ln_1. Qed.

  (* at n = 0 the value is exp(-lam) for every lam, 1 at lam = 0 *)
  Theorem poisson_zero_count : forall lam, poisson_model 0 lam = exp (- lam).
  Proof. intro lam. unfold poisson_model. rewrite xlogy_zero, gammaln_1. f_equal. ring. Qed.
  Corollary poisson_zero_rate_n0 : poisson_model 0 0 = 1.
  Proof. rewrite poisson_zero_count. rewrite Ropp_0. apply exp_0. Qed.

  (* for n > 0 the value tends to 0 as lam -> 0+ *)
  Theorem poisson_zero_rate_limit : forall n, 0 < n -> forall eps, 0 < eps ->
    exists delta, 0 < delta /\ forall lam, 0 < lam < delta -> 0 < poisson_model n lam < eps.
  Proof. intros n Hn eps He. set (g := gammaln (n + 1)). exists (exp ((ln eps + g) / n)). split; [apply exp_pos|].
    intros lam [Hl Hd]. unfold poisson_model. fold g. split; [apply exp_pos|]. rewrite xlogy_spec by assumption.
    rewrite <- (exp_ln eps He) at 1. apply exp_increasing.
    assert (Hln : ln lam < (ln eps + g) / n).
    { rewrite <- (ln_exp ((ln eps + g) / n)). apply ln_increasing; assumption. }
    assert (n * ln lam < ln eps + g).
    { replace (ln eps + g) with (n * ((ln eps + g) / n)) by (field; lra). apply Rmult_lt_compat_l; assumption. }
    lra. Qed.

  Theorem poisson_zero_rate :
    poisson_model 0 0 = 1 /\
    (forall n, 0 < n -> forall eps, 0 < eps -> exists delta, 0 < delta /\ forall lam, 0 < lam < delta -> 0 < poisson_model n lam < eps).
  Proof. split; [exact poisson_zero_rate_n0|exact poisson_zero_rate_limit]. Qed.
End Poisson.

(* non-vacuity of the Section hypotheses on the counts 0 and 1: Gamma := 1 on a neighbourhood is consistent there *)
Example poisson_pmf_k1 : forall Gamma gammaln xlogy,
  (forall z, 0 < z -> 0 < Gamma z) -> (forall z, 0 < z -> gammaln z = ln (Gamma z)) -> (forall x y, 0 < y -> xlogy x y = x * ln y) ->
  (forall k : nat, Gamma (INR k + 1) = INR (fact k)) ->
  poisson_logpdf_model gammaln xlogy 1 2 = ln (2 * exp (- 2)).
Proof. intros G gl xl H1 H2 H3 H4. change 1 with (INR 1). rewrite (poisson_logpdf_pmf G gl xl H1 H2 H3 H4) by lra. f_equal. simpl. replace (-2) with (- (2)) by lra. field. Qed.

(* ---------- the non-log Normal: scipy/jax norm.pdf is a library kernel, assumed to be the density ---------- *)
Section NormalNonLog.
  Variable norm_pdf : R -> R -> R -> R.
  Hypothesis norm_pdf_spec : forall x mu sigma, 0 < sigma -> norm_pdf x mu sigma = normal_pdf x mu sigma.
  Definition normal_model (x mu sigma : R) : R := norm_pdf x mu sigma.
  Theorem normal_nonlog_is_exp : forall x mu sigma, 0 < sigma -> normal_model x mu sigma = exp (normal_logpdf_model x mu sigma).
  Proof. intros x mu sigma Hs. unfold normal_model. rewrite norm_pdf_spec by exact Hs. rewrite normal_logpdf_exact by exact Hs.
    symmetry. apply exp_ln. unfold normal_pdf. apply Rdiv_lt_0_compat; [apply phi_pos|exact Hs]. Qed.
End NormalNonLog.

(* ---------- the normal cdf ---------- *)
Lemma phi_continuous x : continuous phi x.
Proof. apply (ex_derive_continuous phi x). unfold phi. auto_derive. pose proof PI_RGT_0. lra. Qed.
Lemma phi_ex_RInt a b : ex_RInt phi a b.
Proof. apply (@ex_RInt_continuous R_CompleteNormedModule). intros z _. apply phi_continuous. Qed.

Theorem Phi_deriv : forall x, is_derive Phi x (phi x).
Proof. intro x. unfold Phi.
  assert (H : is_derive (fun b => RInt phi 0 b) x (phi x)).
  { apply (@is_derive_RInt R_NormedModule phi (fun b => RInt phi 0 b) 0 x).
    - apply filter_forall. intro b. apply (@RInt_correct R_CompleteNormedModule). apply phi_ex_RInt.
    - apply phi_continuous. }
  evar_last. apply @is_derive_plus; [apply @is_derive_const|exact H]. rewrite plus_zero_l. reflexivity. Qed.

Theorem Phi_increasing : forall x y, x < y -> Phi x < Phi y.
Proof. intros x y Hxy. unfold Phi.
  assert (H : RInt phi 0 y = RInt phi 0 x + RInt phi x y).
  { symmetry. apply (RInt_Chasles phi 0 x y); apply phi_ex_RInt. }
  rewrite H. assert (0 < RInt phi x y); [|lra].
  apply RInt_gt_0; auto. intros; apply phi_pos. intros; apply phi_continuous. Qed.

Lemma RInt_even_opp (f : R -> R) x : (forall t, f (- t) = f t) -> (forall a b, ex_RInt f a b) -> RInt f 0 (- x) = - RInt f 0 x.
Proof. intros Hev Hex.
  assert (H := RInt_comp_lin f (-1) 0 0 x). replace (-1 * 0 + 0) with 0 in H by ring. replace (-1 * x + 0) with (- x) in H by ring.
  rewrite <- H by apply Hex. change (- RInt f 0 x) with (opp (RInt f 0 x)). rewrite <- (RInt_opp f 0 x (Hex 0 x)).
  apply RInt_ext. intros t _. unfold scal; simpl; unfold mult; simpl. replace (-1 * t + 0) with (- t) by ring. rewrite Hev. unfold opp; simpl. ring. Qed.

Theorem Phi_sym : forall x, Phi (- x) = 1 - Phi x.
Proof. intro x. unfold Phi. rewrite (RInt_even_opp phi x phi_even phi_ex_RInt). lra. Qed.

Corollary Phi_0 : Phi 0 = 1 / 2.
Proof. pose proof (Phi_sym 0) as H. rewrite Ropp_0 in H. lra. Qed.

(* ---------- PyTorch: 0.5 * erfc(-(x - mu)/sigma / sqrt 2) with the mathematical erfc ---------- *)
Definition gauss (t : R) : R := exp (- t ^ 2).
Definition erfc_def (z : R) : R := 1 - 2 / sqrt PI * RInt gauss 0 z.

Lemma gauss_continuous x : continuous gauss x.
Proof. apply (ex_derive_continuous gauss x). unfold gauss. auto_derive. exact I. Qed.
Lemma gauss_ex_RInt a b : ex_RInt gauss a b.
Proof. apply (@ex_RInt_continuous R_CompleteNormedModule). intros z _. apply gauss_continuous. Qed.

Theorem torch_cdf_formula : forall z, 1 / 2 * erfc_def (- z / sqrt 2) = Phi z.
Proof. intro z. unfold erfc_def, Phi.
  assert (H2 : 0 < sqrt 2) by (apply sqrt_lt_R0; lra).
  assert (Hpi : 0 < sqrt PI) by (apply sqrt_lt_R0; apply PI_RGT_0).
  assert (Hs : sqrt (2 * PI) = sqrt 2 * sqrt PI) by (apply sqrt_mult; [lra|pose proof PI_RGT_0; lra]).
  set (h := fun y : R => exp (- y ^ 2 / 2)).
  assert (Hh : forall a b, ex_RInt h a b).
  { intros a b. apply (@ex_RInt_continuous R_CompleteNormedModule). intros t _. apply (ex_derive_continuous h t). unfold h. auto_derive. exact I. }
  (* substitution t = - y / sqrt 2 *)
  assert (HJ : RInt gauss 0 (- z / sqrt 2) = - / sqrt 2 * RInt h 0 z).
  { assert (H := RInt_comp_lin gauss (- / sqrt 2) 0 0 z).
    replace (- / sqrt 2 * 0 + 0) with 0 in H by ring. replace (- / sqrt 2 * z + 0) with (- z / sqrt 2) in H by (field; lra).
    rewrite <- H by apply gauss_ex_RInt. change (- / sqrt 2 * RInt h 0 z) with (scal (- / sqrt 2) (RInt h 0 z)). rewrite <- (RInt_scal h 0 z (- / sqrt 2) (Hh 0 z)).
    apply RInt_ext. intros t _. unfold scal; simpl; unfold mult; simpl. unfold gauss, h. f_equal. f_equal.
    replace ((- / sqrt 2 * t + 0) ^ 2) with (t ^ 2 / (sqrt 2 * sqrt 2)) by (field; lra). rewrite sqrt_sqrt by lra. field. }
  assert (HP : RInt phi 0 z = / sqrt (2 * PI) * RInt h 0 z).
  { change (/ sqrt (2 * PI) * RInt h 0 z) with (scal (/ sqrt (2 * PI)) (RInt h 0 z)). rewrite <- (RInt_scal h 0 z (/ sqrt (2 * PI)) (Hh 0 z)). apply RInt_ext. intros t _. unfold scal; simpl; unfold mult; simpl. unfold phi, h. field.
    pose proof sqrt_2PI_pos. lra. }
  rewrite HJ, HP, Hs. field. lra. Qed.

(* ---------- n! over Z, for the certified reference values ln(n!) written by the harness ---------- *)
From Coq Require Import ZArith.
Fixpoint zfact_nat (k : nat) : Z := match k with O => 1%Z | S k' => (Z.of_nat k * zfact_nat k')%Z end.
Definition zfact (n : Z) : Z := zfact_nat (Z.to_nat n).
Lemma zfact_nat_fact k : IZR (zfact_nat k) = INR (fact k).
Proof. induction k as [|k IH]; [reflexivity|]. change (zfact_nat (S k)) with (Z.of_nat (S k) * zfact_nat k)%Z.
  rewrite mult_IZR, IH, <- INR_IZR_INZ. change (fact (S k)) with (S k * fact k)%nat. now rewrite mult_INR. Qed.
Lemma zfact_fact (k : nat) : IZR (zfact (Z.of_nat k)) = INR (fact k).
Proof. unfold zfact. rewrite Nat2Z.id. apply zfact_nat_fact. Qed.

(* ---------- PyTorch normal_cdf as pyhf writes it, with the mathematical erfc ---------- *)
Definition torch_normal_cdf_model (x mu sigma : R) : R :=
  1 / 2 * erfc_def (- ((x - mu) * (1 / sigma) / sqrt 2)).
Theorem torch_normal_cdf_exact : forall x mu sigma, sigma <> 0 -> torch_normal_cdf_model x mu sigma = Phi ((x - mu) / sigma).
Proof. intros x mu sigma Hs. unfold torch_normal_cdf_model. rewrite <- torch_cdf_formula. f_equal. f_equal.
  assert (0 < sqrt 2) by (apply sqrt_lt_R0; lra). field. split; lra. Qed.
